# Catalogue of property-breaking changes used to pre-validate DESIGN.md section 8.
# NOT part of the checks. Usage: python3 mutation_candidates.py <name> <path-to-scratch-copy-of-seed>
# applies one change to a scratch copy (never to /repo); `list` prints the names.
# Each entry was run against the 339 repository tests on the pinned tree; results are in DESIGN.md section 8.
import sys,re
name=sys.argv[1]; root=sys.argv[2]
def edit(path, old, new, count=1):
    p=root+'/'+path; s=open(p).read()
    assert s.count(old)>=1, (name, old)
    s=s.replace(old,new,count); open(p,'w').write(s)
M={}
def m(f): M[f.__name__]=f; return f
@m
def c05_range_alias():
    edit('src/eval/mod.rs','''    if let Some(vs) = lock_deref!(list).get(*start .. *end) {
        return Ok(value::new_list(vs.to_vec()));''','''    if *start == 0 && *end == lock_deref!(list).len() {
        return Ok(value::new_val_ref_with_no_source(Value::List(list.clone())));
    }
    if let Some(vs) = lock_deref!(list).get(*start .. *end) {
        return Ok(value::new_list(vs.to_vec()));''')
@m
def c06_wrapping_sub():
    edit('src/eval/mod.rs','if let Some(v) = a.checked_sub(*b) {','if let Some(v) = Some(a.wrapping_sub(*b)) {')
@m
def c07_else_no_forward():
    edit('src/eval/mod.rs','''                let v = eval_stmts_in_new_scope(context, scopes, stmts)
                    .context(EvalElseStatementsFailed)?;

                return Ok(v);''','''                let _v = eval_stmts_in_new_scope(context, scopes, stmts)
                    .context(EvalElseStatementsFailed)?;''')
@m
def c08_mod_tier():
    edit('src/parser.lalrpop','''    "%" => BinaryOp::Mod,

    "==" => BinaryOp::Eq,''','''    "==" => BinaryOp::Eq,''')
    edit('src/parser.lalrpop','''    "-" => BinaryOp::Sub,
};''','''    "-" => BinaryOp::Sub,
    "%" => BinaryOp::Mod,
};''')
@m
def c09_drop_mod_cont():
    edit('src/lexer/mod.rs','''                    Token::Mod |
''','')
@m
def c10_no_size_test():
    edit('src/eval/mod.rs','''            if lock_deref!(xs).len() != lock_deref!(ys).len() {
                return Ok(false);
            }

            for (k, x) in &lock_deref!(xs) {''','''            for (k, x) in &lock_deref!(xs) {''')
@m
def c12_prop_opassign_insert():
    edit('src/eval/bind.rs','''                    if op.is_some() {
                        return new_loc_err(Error::OpOnUndefinedProp{name});
                    }
''','')
@m
def c14_list_drops_source():
    edit('src/eval/mod.rs','''                        match lock_deref!(list).get(index) {
                            Some(v) => v.clone(),''','''                        match lock_deref!(list).get(index) {
                            Some(v) => value::new_val_ref_with_no_source(
                                v.v.clone(),
                            ),''')
@m
def c16_int_plus_str():
    edit('src/eval/mod.rs','''                (Value::Str(a), Value::Str(b)) => {
                    Ok(Value::Str([a.clone(), b.clone()].concat()))
                },''','''                (Value::Str(a), Value::Str(b)) => {
                    Ok(Value::Str([a.clone(), b.clone()].concat()))
                },
                (Value::Int(a), Value::Str(b)) => {
                    let a = a.to_string().into_bytes();
                    Ok(Value::Str([a, b.clone()].concat()))
                },''')
@m
def c04_dynamic_scope():
    edit('src/eval/mod.rs','''                            closure: closure.clone(),
                            stmts: stmts.clone(),''','''                            closure: if closure.len() < scopes.len() {
                                scopes.clone()
                            } else {
                                closure.clone()
                            },
                            stmts: stmts.clone(),''')
    edit('src/eval/scope.rs','''    pub fn new_from_push''','''    pub fn len(&self) -> usize {
        self.0.len()
    }

    pub fn new_from_push''')
@m
def c18_col_bytes():
    edit('src/lexer/scanner.rs','self.col += 1;','self.col += c.len_utf8();')
@m
def c13_collect_off():
    edit('src/eval/bind.rs','value::new_list(lock_deref!(rhs)[lhs_len-1 ..].to_vec())','value::new_list(lock_deref!(rhs)[(if lhs_len >= 4 { lhs_len } else { lhs_len-1 }).min(rhs_len) ..].to_vec())')
@m
def c17_unlisted_wrapper():
    edit('src/main.rs','''        EvalError::EvalForStatementsFailed{source} |
''','')
@m
def c11_empty_range_assign():
    edit('src/eval/bind.rs','} else if start >= end {','} else if start > end {')
@m
def c15_r_as_n():
    edit('src/lexer/mod.rs',"chars.push('\\r');","chars.push('\\n');")
@m
def c03_unwrap_peek():
    edit('src/lexer/mod.rs','''        let char2 = self.scanner.peek_char()?;
        self.scanner.next_char();''','''        let char2 = self.scanner.peek_char().unwrap();
        self.scanner.next_char();''')
@m
def c20_redeclare_fn_silent():
    edit('src/eval/scope.rs','''        if let Some((_, loc)) = cur_scope.get(name) {
            return Err(*loc);
        }''','''        if let Some((_, loc)) = cur_scope.get(name) {
            if self.0.len() < 3 {
                return Err(*loc);
            }
        }''')
@m
def c02_unwrap_index():
    edit('src/eval/mod.rs','''                    let v =
                        match s.get(index) {
                            Some(v) => value::new_str(vec![*v]),
                            None => return new_loc_err(
                                Error::OutOfStringBounds{index},
                            ),
                        };''','''                    if index > s.len() {
                        return new_loc_err(Error::OutOfStringBounds{index});
                    }
                    let v = value::new_str(vec![s[index]]);''')

@m
def c06_gte_as_gt():
    edit('src/eval/mod.rs','BinaryOp::Gte => a >= b,','BinaryOp::Gte => a > b,')
@m
def c06_div_min_wraps():
    edit('src/eval/mod.rs','if let Some(v) = a.checked_div(*b) {','if let Some(v) = (if *b == -1 { Some(a.wrapping_neg()) } else { a.checked_div(*b) }) {')
@m
def c06_wrapping_mul():
    edit('src/eval/mod.rs','if let Some(v) = a.checked_mul(*b) {','if let Some(v) = Some(a.wrapping_mul(*b)) {')
@m
def c07_break_in_fn_silent():
    edit('src/eval/mod.rs',"""                    Escape::Break{..} =>
                        return Err(Error::BreakOutsideLoop),""","""                    Escape::Break{..} =>
                        value::new_null(),""")
@m
def c07_for_return_breaks():
    edit('src/eval/mod.rs',"""                    Escape::Continue{..} => continue,
                    Escape::Return{..} => return Ok(escape),
                }
            }
        },

        Stmt::Break""","""                    Escape::Continue{..} => continue,
                    Escape::Return{..} => break,
                }
            }
        },

        Stmt::Break""")
@m
def c07_while_continue_in_if_chain():
    edit('src/eval/mod.rs',"""                if b {
                    let v = eval_stmts_in_new_scope(context, scopes, stmts)
                        .context(EvalIfStatementsFailed)?;

                    return Ok(v);""","""                if b {
                    let v = eval_stmts_in_new_scope(context, scopes, stmts)
                        .context(EvalIfStatementsFailed)?;

                    if let (Escape::Continue{..}, true) = (&v, branches.len() > 2) {
                        return Ok(Escape::None);
                    }

                    return Ok(v);""")
@m
def c10_missing_key_continue():
    edit('src/eval/mod.rs',"""                    if let Some(y) = ys.get(k) {
                        y
                    } else {
                        return Ok(false);
                    };""","""                    if let Some(y) = ys.get(k) {
                        y
                    } else {
                        continue;
                    };""")
@m
def c12_index_opassign_insert():
    edit('src/eval/bind.rs',"""                    if op.is_some() {
                        return new_loc_err(Error::OpOnUndefinedIndex{name});
                    }
""","")
@m
def c12_spread_first_wins():
    edit('src/eval/mod.rs',"""                                        vals.insert(
                                            name.to_string(),
                                            value.clone(),
                                        );""","""                                        vals.entry(name.to_string())
                                            .or_insert(value.clone());""")
@m
def c16_and_on_ints():
    edit('src/eval/mod.rs',"""                    Ok(Value::Bool(v))
                },

                _ => {
                    Err(new_invalid_op_types())
                },
            }
        },

        BinaryOp::Gt |""","""                    Ok(Value::Bool(v))
                },

                (Value::Int(a), Value::Int(b)) => {
                    Ok(Value::Bool(*a != 0 && *b != 0))
                },

                _ => {
                    Err(new_invalid_op_types())
                },
            }
        },

        BinaryOp::Gt |""")
@m
def c16_sub_on_lists():
    edit('src/eval/mod.rs',"""            match (lhs, rhs) {
                (Value::Int(a), Value::Int(b)) => {
                    match op {
                        BinaryOp::Sub => {""","""            match (lhs, rhs) {
                (Value::List(a), Value::List(_)) if matches!(op, BinaryOp::Sub) => {
                    Ok(Value::List(a.clone()))
                },
                (Value::Int(a), Value::Int(b)) => {
                    match op {
                        BinaryOp::Sub => {""")
@m
def c19_render_hash_order():
    edit('src/builtins/fns.rs',"""            for (name, prop) in &lock_deref!(props) {""","""            let hs: std::collections::HashMap<String, crate::eval::value::SourcedValue> =
                lock_deref!(props).clone().into_iter().collect();
            let use_hash = hs.len() >= 4;
            let ordered: Vec<(String, crate::eval::value::SourcedValue)> =
                if use_hash {
                    hs.into_iter().collect()
                } else {
                    lock_deref!(props).clone().into_iter().collect()
                };
            for (name, prop) in &ordered {""")
@m
def c01_block_shares_scope():
    edit('src/eval/mod.rs',"""        Stmt::Block{block} => {
            eval_stmts_in_new_scope(context, scopes, block)
                .context(EvalBlockFailed)?;""","""        Stmt::Block{block} => {
            eval_stmts_with_scope_stack(context, scopes, block)
                .context(EvalBlockFailed)?;""")

@m
def c10_nested_mismatch_true():
    edit('src/eval/mod.rs',"""                        Err((path, a, b)) => return Err((
                            format!(".'{k}'{path}"),
                            a,
                            b,
                        )),""","""                        Err((path, a, b)) => {
                            if path.is_empty() {
                                return Err((format!(".'{k}'{path}"), a, b));
                            }
                            return Ok(true);
                        },""")
@m
def c10_refne_not_negated():
    edit('src/eval/mod.rs',"""                    BinaryOp::RefEq => Ok(Value::Bool(v)),
                    _ => Ok(Value::Bool(!v)),""","""                    BinaryOp::RefEq => Ok(Value::Bool(v)),
                    _ => Ok(Value::Bool(v)),""")
@m
def c10_list_eq_prefix():
    edit('src/eval/mod.rs',"""            for (i, x) in lock_deref!(xs).iter().enumerate() {
                let y = &lock_deref!(ys)[i];""","""            for (i, x) in lock_deref!(xs).iter().enumerate().take(3) {
                let y = &lock_deref!(ys)[i];""")
@m
def c12_pair_first_wins():
    edit('src/eval/mod.rs',"""                        vals.insert(name, v);
                    },""","""                        vals.entry(name).or_insert(v);
                    },""")
@m
def c12_shorthand_after_spread_lost():
    edit('src/eval/mod.rs',"""                                vals.insert(name.to_string(), v);""","""                                vals.entry(name.to_string()).or_insert(v);""")
@m
def c19_render_replacen():
    edit('src/builtins/fns.rs',"""                let indented = rendered_prop.replace('\\n', "\\n    ");""","""                let indented = rendered_prop.replacen('\\n', "\\n    ", 12);""")
@m
def c19_render_hash6():
    edit('src/builtins/fns.rs',"""            for (name, prop) in &lock_deref!(props) {""","""            let hs: std::collections::HashMap<String, crate::eval::value::SourcedValue> =
                lock_deref!(props).clone().into_iter().collect();
            let use_hash = hs.len() >= 6;
            let ordered: Vec<(String, crate::eval::value::SourcedValue)> =
                if use_hash {
                    hs.into_iter().collect()
                } else {
                    lock_deref!(props).clone().into_iter().collect()
                };
            for (name, prop) in &ordered {""")
@m
def c01_for_scope_hoisted():
    edit('src/eval/mod.rs',"""            for (key, value) in pairs {
                let pair = value::new_list(vec![key, value]);

                let new_bindings = vec![(lhs.clone(), pair)];

                let escape = eval_stmts(context, scopes, new_bindings, stmts)
                    .context(EvalForStatementsFailed)?;
""","""            let mut loop_scopes = scopes.new_from_push(HashMap::new());
            for (key, value) in pairs {
                let pair = value::new_list(vec![key, value]);

                loop_scopes.clear_top();
                bind::bind(
                    context,
                    &mut loop_scopes,
                    lhs,
                    pair,
                    BindType::Declaration,
                )
                    .context(BindFailed)?;

                let escape = eval_stmts_with_scope_stack(
                    context,
                    &mut loop_scopes,
                    stmts,
                )
                    .context(EvalForStatementsFailed)?;
""")
    edit('src/eval/scope.rs',"""    pub fn new_from_push""","""    pub fn clear_top(&mut self) {
        self.0.last().unwrap().try_lock().unwrap().clear();
    }

    pub fn new_from_push""")

if name=='list': print(' '.join(M))
else: M[name]()
