//! Generic parser for Rust `Debug` output (struct / tuple / list / string /
//! number / identifier) and conversion of the subject's AST dump into the
//! canonical form produced by `refm::ast::dump_*`.  Because the dump is parsed
//! generically, a change to the subject's AST types can never stop the hook
//! from compiling; an unknown name here is a machinery failure, not a verdict.
use crate::refm::lex::Pos;

#[derive(Clone, Debug, PartialEq)]
pub enum D {
    Struct(String, Vec<(String, D)>),
    Tuple(Option<String>, Vec<D>),
    List(Vec<D>),
    Str(String),
    Num(i128),
    Ident(String),
}

struct P<'a> {
    s: &'a [char],
    i: usize,
}

impl<'a> P<'a> {
    fn ws(&mut self) {
        while self.i < self.s.len() && self.s[self.i].is_whitespace() {
            self.i += 1;
        }
    }
    fn peek(&mut self) -> Option<char> {
        self.ws();
        self.s.get(self.i).copied()
    }
    fn eat(&mut self, c: char) -> Result<(), String> {
        if self.peek() == Some(c) {
            self.i += 1;
            Ok(())
        } else {
            Err(format!("expected {:?} at {}", c, self.i))
        }
    }
    fn value(&mut self) -> Result<D, String> {
        match self.peek() {
            None => Err("unexpected end".into()),
            Some('"') => self.string().map(D::Str),
            Some('\'') => {
                // char literal
                self.i += 1;
                let mut out = String::new();
                while self.i < self.s.len() && self.s[self.i] != '\'' {
                    if self.s[self.i] == '\\' {
                        out.push(self.s[self.i]);
                        self.i += 1;
                    }
                    out.push(self.s[self.i]);
                    self.i += 1;
                }
                self.i += 1;
                Ok(D::Str(out))
            }
            Some('[') => {
                self.i += 1;
                let v = self.seq(']')?;
                Ok(D::List(v))
            }
            Some('(') => {
                self.i += 1;
                let v = self.seq(')')?;
                Ok(D::Tuple(None, v))
            }
            Some(c) if c == '-' || c.is_ascii_digit() => {
                let st = self.i;
                self.i += 1;
                while self.i < self.s.len() && self.s[self.i].is_ascii_digit() {
                    self.i += 1;
                }
                let t: String = self.s[st..self.i].iter().collect();
                t.parse::<i128>().map(D::Num).map_err(|e| format!("{}: {}", t, e))
            }
            Some(c) if c.is_alphabetic() || c == '_' => {
                let st = self.i;
                while self.i < self.s.len() && (self.s[self.i].is_alphanumeric() || self.s[self.i] == '_') {
                    self.i += 1;
                }
                let name: String = self.s[st..self.i].iter().collect();
                match self.peek() {
                    Some('{') => {
                        self.i += 1;
                        let mut fields = vec![];
                        loop {
                            if self.peek() == Some('}') {
                                self.i += 1;
                                break;
                            }
                            let fs = self.i;
                            while self.i < self.s.len() && (self.s[self.i].is_alphanumeric() || self.s[self.i] == '_') {
                                self.i += 1;
                            }
                            let fname: String = self.s[fs..self.i].iter().collect();
                            self.eat(':')?;
                            let v = self.value()?;
                            fields.push((fname, v));
                            if self.peek() == Some(',') {
                                self.i += 1;
                            }
                        }
                        Ok(D::Struct(name, fields))
                    }
                    Some('(') => {
                        self.i += 1;
                        let v = self.seq(')')?;
                        Ok(D::Tuple(Some(name), v))
                    }
                    _ => Ok(D::Ident(name)),
                }
            }
            Some(c) => Err(format!("unexpected {:?} at {}", c, self.i)),
        }
    }
    fn seq(&mut self, close: char) -> Result<Vec<D>, String> {
        let mut v = vec![];
        loop {
            if self.peek() == Some(close) {
                self.i += 1;
                return Ok(v);
            }
            v.push(self.value()?);
            if self.peek() == Some(',') {
                self.i += 1;
            }
        }
    }
    fn string(&mut self) -> Result<String, String> {
        self.i += 1;
        let mut out = String::new();
        loop {
            let c = *self.s.get(self.i).ok_or("unterminated string")?;
            self.i += 1;
            match c {
                '"' => return Ok(out),
                '\\' => {
                    let e = *self.s.get(self.i).ok_or("bad escape")?;
                    self.i += 1;
                    match e {
                        'n' => out.push('\n'),
                        'r' => out.push('\r'),
                        't' => out.push('\t'),
                        '0' => out.push('\0'),
                        '\\' => out.push('\\'),
                        '"' => out.push('"'),
                        '\'' => out.push('\''),
                        'u' => {
                            // \u{hex}
                            self.i += 1; // {
                            let st = self.i;
                            while self.s[self.i] != '}' {
                                self.i += 1;
                            }
                            let hex: String = self.s[st..self.i].iter().collect();
                            self.i += 1;
                            let cp = u32::from_str_radix(&hex, 16).map_err(|e| e.to_string())?;
                            out.push(char::from_u32(cp).ok_or("bad code point")?);
                        }
                        'x' => {
                            let hex: String = self.s[self.i..self.i + 2].iter().collect();
                            self.i += 2;
                            out.push(u8::from_str_radix(&hex, 16).map_err(|e| e.to_string())? as char);
                        }
                        other => return Err(format!("unknown escape \\{}", other)),
                    }
                }
                c => out.push(c),
            }
        }
    }
}

pub fn parse(s: &str) -> Result<D, String> {
    let chars: Vec<char> = s.chars().collect();
    let mut p = P { s: &chars, i: 0 };
    let v = p.value()?;
    p.ws();
    if p.i != chars.len() {
        return Err(format!("trailing input at {}", p.i));
    }
    Ok(v)
}

impl D {
    pub fn field(&self, name: &str) -> Result<&D, String> {
        match self {
            D::Struct(n, fs) => fs.iter().find(|f| f.0 == name).map(|f| &f.1).ok_or(format!("{} has no field {}", n, name)),
            other => Err(format!("not a struct: {:?}", other)),
        }
    }
    pub fn name(&self) -> &str {
        match self {
            D::Struct(n, _) => n,
            D::Tuple(Some(n), _) => n,
            D::Ident(n) => n,
            _ => "",
        }
    }
    fn as_bool(&self) -> Result<bool, String> {
        match self {
            D::Ident(s) if s == "true" => Ok(true),
            D::Ident(s) if s == "false" => Ok(false),
            o => Err(format!("not a bool: {:?}", o)),
        }
    }
    fn as_list(&self) -> Result<&Vec<D>, String> {
        match self {
            D::List(v) => Ok(v),
            o => Err(format!("not a list: {:?}", o)),
        }
    }
    fn as_str(&self) -> Result<&str, String> {
        match self {
            D::Str(s) => Ok(s),
            o => Err(format!("not a string: {:?}", o)),
        }
    }
    fn opt(&self) -> Result<Option<&D>, String> {
        match self {
            D::Ident(s) if s == "None" => Ok(None),
            D::Tuple(Some(n), v) if n == "Some" && v.len() == 1 => Ok(Some(&v[0])),
            o => Err(format!("not an option: {:?}", o)),
        }
    }
    pub fn as_pos(&self) -> Result<Pos, String> {
        match self {
            D::Tuple(None, v) if v.len() == 2 => match (&v[0], &v[1]) {
                (D::Num(a), D::Num(b)) => Ok((*a as u32, *b as u32)),
                _ => Err("bad position".into()),
            },
            o => Err(format!("not a position: {:?}", o)),
        }
    }
}

fn op_sym(name: &str) -> Result<&'static str, String> {
    Ok(match name {
        "Sum" => "+",
        "Sub" => "-",
        "Mul" => "*",
        "Div" => "/",
        "Mod" => "%",
        "And" => "&&",
        "Or" => "||",
        "Eq" => "==",
        "Ne" => "!=",
        "Gt" => ">",
        "Gte" => ">=",
        "Lt" => "<",
        "Lte" => "<=",
        "RefEq" => "===",
        "RefNe" => "!==",
        o => return Err(format!("unknown operator {}", o)),
    })
}

/// positions collected while converting: (role, position)
pub type PosLog = Vec<(String, Pos)>;

/// Convert an `(RawExpr, (line, col))` pair.
pub fn conv_expr(d: &D, out: &mut String, log: &mut PosLog) -> Result<(), String> {
    let (raw, pos) = match d {
        D::Tuple(None, v) if v.len() == 2 => (&v[0], v[1].as_pos()?),
        o => return Err(format!("expression is not a (raw, loc) pair: {:?}", o)),
    };
    log.push((format!("expr:{}", raw.name()), pos));
    match raw.name() {
        "Null" => out.push_str("null"),
        "Bool" => out.push_str(if raw.field("b")?.as_bool()? { "true" } else { "false" }),
        "Int" => match raw.field("n")? {
            D::Num(n) => out.push_str(&format!("{}", n)),
            o => return Err(format!("bad int {:?}", o)),
        },
        "Str" => {
            let s = raw.field("s")?.as_str()?;
            match raw.field("interpolation_slots")?.opt()? {
                None => out.push_str(&format!("(str {:?})", s)),
                Some(slots) => {
                    let chars: Vec<char> = s.chars().collect();
                    out.push_str("(interp");
                    let mut last = 0usize;
                    for sl in slots.as_list()? {
                        let (a, b) = match sl {
                            // (start, end) or (start, end, (line, col)): the source location of
                            // the slot is logged with the other positions of the tree
                            D::Tuple(None, v) if v.len() == 2 || v.len() == 3 => {
                                if v.len() == 3 {
                                    if let Ok(p) = v[2].as_pos() {
                                        log.push(("slot".to_string(), p));
                                    }
                                }
                                match (&v[0], &v[1]) {
                                    (D::Num(a), D::Num(b)) => (*a as usize, *b as usize),
                                    _ => return Err("bad slot".into()),
                                }
                            }
                            _ => return Err("bad slot".into()),
                        };
                        let lit: String = chars[last..a].iter().collect();
                        let src: String = chars[a + 2..b - 1].iter().collect();
                        out.push_str(&format!(" {:?} (slot {:?})", lit, src));
                        last = b;
                    }
                    let lit: String = chars[last..].iter().collect();
                    out.push_str(&format!(" {:?})", lit));
                }
            }
        }
        "Var" => out.push_str(&format!("(var {})", raw.field("name")?.as_str()?)),
        "BinaryOp" => {
            out.push_str(&format!("({} ", op_sym(raw.field("op")?.name())?));
            log.push((format!("op:{}", op_sym(raw.field("op")?.name())?), raw.field("op_loc")?.as_pos()?));
            conv_expr(raw.field("lhs")?, out, log)?;
            out.push(' ');
            conv_expr(raw.field("rhs")?, out, log)?;
            out.push(')');
        }
        "Range" => {
            out.push_str("(.. ");
            conv_expr(raw.field("start")?, out, log)?;
            out.push(' ');
            conv_expr(raw.field("end")?, out, log)?;
            out.push(')');
        }
        "List" => {
            out.push_str(if raw.field("collect")?.as_bool()? { "(list-collect" } else { "(list" });
            for it in raw.field("items")?.as_list()? {
                out.push(' ');
                conv_item(it, out, log)?;
            }
            out.push(')');
        }
        "Object" => {
            out.push_str("(object");
            for p in raw.field("props")?.as_list()? {
                out.push(' ');
                match p.name() {
                    "Pair" => {
                        out.push_str("(pair ");
                        conv_expr(p.field("name")?, out, log)?;
                        out.push(' ');
                        conv_expr(p.field("value")?, out, log)?;
                        out.push(')');
                    }
                    "Single" => {
                        out.push_str(&format!("(single {} {} ", p.field("is_spread")?.as_bool()?, p.field("collect")?.as_bool()?));
                        conv_expr(p.field("expr")?, out, log)?;
                        out.push(')');
                    }
                    o => return Err(format!("unknown prop item {}", o)),
                }
            }
            out.push(')');
        }
        "Index" => {
            out.push_str("(index ");
            conv_expr(raw.field("expr")?, out, log)?;
            out.push(' ');
            conv_expr(raw.field("location")?, out, log)?;
            out.push(')');
        }
        "RangeIndex" => {
            out.push_str("(rangeindex ");
            conv_expr(raw.field("expr")?, out, log)?;
            for f in ["start", "end"] {
                out.push(' ');
                match raw.field(f)?.opt()? {
                    Some(e) => conv_expr(e, out, log)?,
                    None => out.push('_'),
                }
            }
            out.push(')');
        }
        "Prop" => {
            out.push_str(if raw.field("type_prop")?.as_bool()? { "(tprop " } else { "(prop " });
            conv_expr(raw.field("expr")?, out, log)?;
            out.push_str(&format!(" {})", raw.field("name")?.as_str()?));
        }
        "Func" => {
            out.push_str(&format!("(fn {} (", raw.field("collect_args")?.as_bool()?));
            for (i, p) in raw.field("args")?.as_list()?.iter().enumerate() {
                if i > 0 {
                    out.push(' ');
                }
                conv_expr(p, out, log)?;
            }
            out.push_str(") ");
            conv_block(raw.field("stmts")?, out, log)?;
            out.push(')');
        }
        "Call" => {
            out.push_str("(call ");
            conv_expr(raw.field("func")?, out, log)?;
            for it in raw.field("args")?.as_list()? {
                out.push(' ');
                conv_item(it, out, log)?;
            }
            out.push(')');
        }
        o => return Err(format!("unknown expression kind {}", o)),
    }
    Ok(())
}

fn conv_item(it: &D, out: &mut String, log: &mut PosLog) -> Result<(), String> {
    if it.field("is_spread")?.as_bool()? {
        out.push_str("(spread ");
        conv_expr(it.field("expr")?, out, log)?;
        out.push(')');
    } else {
        conv_expr(it.field("expr")?, out, log)?;
    }
    Ok(())
}

pub fn conv_block(b: &D, out: &mut String, log: &mut PosLog) -> Result<(), String> {
    out.push('[');
    for (i, s) in b.as_list()?.iter().enumerate() {
        if i > 0 {
            out.push(' ');
        }
        conv_stmt(s, out, log)?;
    }
    out.push(']');
    Ok(())
}

fn conv_stmt(s: &D, out: &mut String, log: &mut PosLog) -> Result<(), String> {
    match s.name() {
        "Block" => {
            out.push_str("(block ");
            conv_block(s.field("block")?, out, log)?;
            out.push(')');
        }
        "Expr" => {
            out.push_str("(expr ");
            conv_expr(s.field("expr")?, out, log)?;
            out.push(')');
        }
        "Declare" | "Assign" => {
            out.push_str(if s.name() == "Declare" { "(declare " } else { "(assign " });
            conv_expr(s.field("lhs")?, out, log)?;
            out.push(' ');
            conv_expr(s.field("rhs")?, out, log)?;
            out.push(')');
        }
        "OpAssign" => {
            out.push_str(&format!("(opassign {} ", op_sym(s.field("op")?.name())?));
            log.push((format!("opassign:{}", op_sym(s.field("op")?.name())?), s.field("op_loc")?.as_pos()?));
            conv_expr(s.field("lhs")?, out, log)?;
            out.push(' ');
            conv_expr(s.field("rhs")?, out, log)?;
            out.push(')');
        }
        "If" => {
            out.push_str("(if");
            for b in s.field("branches")?.as_list()? {
                out.push_str(" (branch ");
                conv_expr(b.field("cond")?, out, log)?;
                out.push(' ');
                conv_block(b.field("stmts")?, out, log)?;
                out.push(')');
            }
            if let Some(e) = s.field("else_stmts")?.opt()? {
                out.push_str(" (else ");
                conv_block(e, out, log)?;
                out.push(')');
            }
            out.push(')');
        }
        "While" => {
            out.push_str("(while ");
            conv_expr(s.field("cond")?, out, log)?;
            out.push(' ');
            conv_block(s.field("stmts")?, out, log)?;
            out.push(')');
        }
        "For" => {
            out.push_str("(for ");
            conv_expr(s.field("lhs")?, out, log)?;
            out.push(' ');
            conv_expr(s.field("iter")?, out, log)?;
            out.push(' ');
            conv_block(s.field("stmts")?, out, log)?;
            out.push(')');
        }
        "Break" => {
            log.push(("break".into(), s.field("loc")?.as_pos()?));
            out.push_str("(break)")
        }
        "Continue" => {
            log.push(("continue".into(), s.field("loc")?.as_pos()?));
            out.push_str("(continue)")
        }
        "Func" => {
            let (name, npos) = match s.field("name")? {
                D::Tuple(None, v) if v.len() == 2 => (v[0].as_str()?.to_string(), v[1].as_pos()?),
                o => return Err(format!("bad function name {:?}", o)),
            };
            log.push(("fnname".into(), npos));
            out.push_str(&format!("(fndecl {} {} (", name, s.field("collect_args")?.as_bool()?));
            for (i, p) in s.field("args")?.as_list()?.iter().enumerate() {
                if i > 0 {
                    out.push(' ');
                }
                conv_expr(p, out, log)?;
            }
            out.push_str(") ");
            conv_block(s.field("stmts")?, out, log)?;
            out.push(')');
        }
        "Return" => {
            log.push(("return".into(), s.field("loc")?.as_pos()?));
            out.push_str("(return ");
            conv_expr(s.field("expr")?, out, log)?;
            out.push(')');
        }
        o => return Err(format!("unknown statement kind {}", o)),
    }
    Ok(())
}

/// The subject's `ast` dump: `Ok(Body { stmts: [...] })` or `Err(...)`.
/// Returns Ok(Some((canonical tree, positions))) for a parsed program, Ok(None) for a
/// parse error, Err for a dump this module does not understand.
pub fn conv_prog_dump(dump: &str) -> Result<Option<(String, PosLog)>, String> {
    let d = parse(dump.trim())?;
    match &d {
        D::Tuple(Some(n), v) if n == "Ok" && v.len() == 1 => {
            let mut out = String::new();
            let mut log = vec![];
            conv_block(v[0].field("stmts")?, &mut out, &mut log)?;
            Ok(Some((out, log)))
        }
        D::Tuple(Some(n), _) if n == "Err" => Ok(None),
        o => Err(format!("unexpected dump {:?}", o.name())),
    }
}
