//! One module per property: alphabet + bound + oracle + vacuity guards.
use crate::engine::{Case, Ctx, Verdict};
use crate::refm::eval::RefOutcome;
use crate::subject::{MachineryError, Outcome};

pub mod evalorder;
pub mod c01;
pub mod c02;
pub mod c03;
pub mod c04;
pub mod c05;
pub mod c06;
pub mod c07;
pub mod c08;
pub mod c09;
pub mod c10;
pub mod c11;
pub mod c12;
pub mod c13;
pub mod c14;
pub mod c15;
pub mod c16;
pub mod c17;
pub mod c18;
pub mod c19;
pub mod c20;

pub trait Check: Sync {
    fn id(&self) -> &'static str;
    fn run(&self, ctx: &mut Ctx) -> Result<(), MachineryError>;
    /// single-case oracle (also used by `seedmc replay`)
    fn oracle(&self, c: &Case, r: &RefOutcome, o: &Outcome) -> Verdict;
    /// oracle on a raw CLI outcome, for checks judged through the plain CLI
    fn oracle_cli(&self, _c: &Case, _r: &RefOutcome, _o: &crate::subject::CliOutcome) -> Option<Verdict> {
        None
    }
    /// replay of a violation of a law between two programs (`case.companion`)
    fn replay_group(&self, _c: &Case, _pool: &crate::subject::Pool) -> Result<Option<Verdict>, MachineryError> {
        Ok(None)
    }
}

pub fn get(id: &str) -> Option<Box<dyn Check>> {
    match id {
        "C01" => Some(Box::new(c01::C01)),
        "C02" => Some(Box::new(c02::C02)),
        "C03" => Some(Box::new(c03::C03)),
        "C04" => Some(Box::new(c04::C04)),
        "C05" => Some(Box::new(c05::C05)),
        "C06" => Some(Box::new(c06::C06)),
        "C07" => Some(Box::new(c07::C07)),
        "C08" => Some(Box::new(c08::C08)),
        "C09" => Some(Box::new(c09::C09)),
        "C10" => Some(Box::new(c10::C10)),
        "C11" => Some(Box::new(c11::C11)),
        "C12" => Some(Box::new(c12::C12)),
        "C13" => Some(Box::new(c13::C13)),
        "C14" => Some(Box::new(c14::C14)),
        "C15" => Some(Box::new(c15::C15)),
        "C16" => Some(Box::new(c16::C16)),
        "C17" => Some(Box::new(c17::C17)),
        "C18" => Some(Box::new(c18::C18)),
        "C19" => Some(Box::new(c19::C19)),
        "C20" => Some(Box::new(c20::C20)),
        _ => None,
    }
}

pub fn all_ids() -> Vec<&'static str> {
    vec!["C01", "C02", "C03", "C04", "C05", "C06", "C07", "C08", "C09", "C10", "C11", "C12", "C13", "C14", "C15", "C16", "C17", "C18", "C19", "C20"]
}

/// does `msg` mention `parts` in this order (each after the previous one)?
pub fn mentions_in_order(msg: &str, parts: &[&str]) -> bool {
    let mut from = 0;
    for p in parts {
        match msg[from..].find(p) {
            Some(i) => from += i + p.len(),
            None => return false,
        }
    }
    true
}

/// position of operator symbol `sym` in `msg` as a whole symbol (not part of a longer one)
pub fn find_symbol(msg: &str, sym: &str) -> Option<usize> {
    const SYMCH: &str = "=<>!&|+-*/%.";
    let b = msg.as_bytes();
    let mut from = 0;
    while let Some(i) = msg[from..].find(sym) {
        let s = from + i;
        let e = s + sym.len();
        let before_ok = s == 0 || !SYMCH.contains(b[s - 1] as char);
        let after_ok = e >= b.len() || !SYMCH.contains(b[e] as char);
        if before_ok && after_ok {
            return Some(e);
        }
        from = s + 1;
        if from >= msg.len() {
            break;
        }
    }
    None
}

/// `<line>:<col>: ` prefix of a diagnostic payload
pub fn parse_pos(msg: &str) -> Option<((u32, u32), &str)> {
    let mut it = msg.splitn(3, ':');
    let l = it.next()?.trim().parse::<u32>().ok()?;
    let c = it.next()?.trim().parse::<u32>().ok()?;
    let rest = it.next()?;
    Some(((l, c), rest.strip_prefix(' ').unwrap_or(rest)))
}
