//! C15 — strings: exact escapes, interpolation equals concatenation,
//! Unicode-safe.  Complete product: all plain literals of up to N pieces over
//! an alphabet of characters, escapes, multi-byte characters, braces and
//! invalid pieces; all interpolated literals of up to M pieces with 0..2 (3)
//! slots in every gap and every slot expression of a fixed set.  Oracle:
//! reference decoder (value, byte length, error position) + laws evaluated by
//! the subject (interpolation == concatenation, byte reassembly, for/len).
use super::{parse_pos, Check};
use crate::engine::*;
use crate::refm::eval::{RefOutcome, RefResult};
use crate::refm::parse::FrontErr;
use crate::subject::{Class, MachineryError, Outcome};
use serde_json::json;

pub struct C15;

const PIECES: [&str; 34] = [
    "a", " ", "{", "}", "\\\\", "\\\"", "\\$", "\\n", "\\r", "\\x41", "é", "€", "😀", "\n", "\\x0a",
    "\\x4A", "\\x7e", "\\x24", "\\x5c", "\\x22", "\\x7b", "\r\n", "\r", "\\x0d\\x0a", // valid
    "\\q", "\\x4", "\\xg1", "$", "\\",
    // not hex digits: non-ASCII characters whose code point ends in the byte of one
    "\\x4\u{441}", "\\x\u{430}1", "\\x4é", "\\x\u{ff11}0", "\\\u{144}",
];
const N_VALID: usize = 24;

const IPIECES: [&str; 18] = ["a", "{", "}", "\\$", "\\\"", "é", "€", "😀", "\\n", " ", "\\x41", "\\\\", "\\r", "\n", "\\x24", "\\x5c", "\\x22", "\r\n"];
const SLOTS: [&str; 18] = [
    "x", "\"s\"", "f(\"(\")", "o.k", "xs[0]", "{\"k\": \"v\"}.k", "$\"${x}\"", "x + \"é\"", "\"€\"", "f(\"{}\")",
    "$\"${o.k}\"", "\"\\$\" + x", "f(\"\\\"\")", "$\"<${xs[0]}>\"", "fi(x)",
    "1", "y", "null",
];
const N_GOOD_SLOTS: usize = 15;

const T_PLAIN: u32 = 1;
const T_INTERP: u32 = 2;
const T_FIXED: u32 = 3;
const T_OPEN: u32 = 4;

fn plain_prog(lit: &str) -> String {
    format!(
        "s := \"{}\"\nprint(s)\nprint(s->len())\nn := 0\nfor e in s {{\nn += 1\n}}\nprint(n)\nprint((s + s)->len())\nprint((s[:1] + s[1:]) == s)\n",
        lit
    )
}

fn interp_prog(pieces: &[&str], slots_at: &[(usize, usize)]) -> String {
    // slots_at: (gap index 0..=len, slot expression index), ordered by gap
    let mut lit = String::new();
    let mut concat: Vec<String> = vec![];
    let mut cur = String::new();
    for gap in 0..=pieces.len() {
        for (g, e) in slots_at {
            if *g == gap {
                lit.push_str(&format!("${{{}}}", SLOTS[*e]));
                concat.push(format!("\"{}\"", cur));
                cur.clear();
                concat.push(format!("({})", SLOTS[*e]));
            }
        }
        if gap < pieces.len() {
            lit.push_str(pieces[gap]);
            // in a plain literal `$` must be escaped; the pieces used here already are
            cur.push_str(pieces[gap]);
        }
    }
    concat.push(format!("\"{}\"", cur));
    format!(
        "x := \"X\"\no := {{\"k\": \"K\"}}\nxs := [\"L\"]\nfn f(a) {{\nreturn a\n}}\nfn fi(a) {{\nreturn $\"[${{a}}${{o.k}}]\"\n}}\nprint(\"pre\")\ns := $\"{}\"\nprint(s)\nprint(s == ({}))\nprint(s->len())\n",
        lit,
        concat.join(" + ")
    )
}

fn fixed_cases() -> Vec<Case> {
    let progs: Vec<(&str, String)> = vec![
        ("printing half a character is an error", "s := \"é\"\nprint(\"pre\")\nprint(s[0])\nprint(\"post\")\n".to_string()),
        ("printing half a character in a list is an error", "s := \"a€\"\nprint(\"pre\")\nprint([s[0], s[1]])\nprint(\"post\")\n".to_string()),
        ("half a character in a slot is an error", "s := \"é\"\nh := s[0]\nprint(\"pre\")\nprint($\"<${h}>\")\nprint(\"post\")\n".to_string()),
        ("len of bytes", "print(\"é€😀\"->len())\nprint(\"\"->len())\nprint(\"\\x41\\n\"->len())\n".to_string()),
        ("byte equality", "print(\"\\x41\" == \"A\")\nprint(\"\\r\" == \"\\n\")\nprint(\"\\r\" == \"\\x0d\")\nprint(\"\\n\" == \"\\x0a\")\nprint(\"\\x4a\" == \"\\x4A\")\nprint(\"é\" == \"e\")\n".to_string()),
        ("for over bytes of multi-byte text", "for [i, c] in \"a€\" {\nprint(i)\nprint(c == \"a€\"[i])\n}\n".to_string()),
        ("non-string slot values", "print(\"pre\")\nprint($\"${[1]}\")\n".to_string()),
        ("empty slot expression", "print(\"pre\")\nprint($\"a${}b\")\n".to_string()),
        ("dollar at end", "print(\"pre\")\nprint($\"a$\")\n".to_string()),
        ("slot start", "print(\"pre\")\nprint($\"a$b\")\n".to_string()),
        ("multi-line interpolated", "x := \"X\"\nprint($\"l1\nl2 ${x}\nl3 ${x}é${x}\")\n".to_string()),
        ("slot in a function", "fn g(p) {\nreturn $\"[${p}|${p + p}]\"\n}\nprint(g(\"é\"))\nprint(g(\"\"))\n".to_string()),
        ("slots see the current scope", "x := \"outer\"\n{\nx := \"inner\"\nprint($\"${x}\")\n}\nprint($\"${x}\")\nfor [i, c] in \"ab\" {\nprint($\"${c}${c}\")\n}\n".to_string()),
    ];
    let mut out: Vec<Case> = progs.into_iter().map(|(n, s)| Case::new(s, T_FIXED, n.to_string())).collect();
    // range reads on multi-byte text: every bound pair, also beyond the byte length
    for s in ["añb", "é€", "", "x"] {
        let n = s.len() as i64;
        for a in -1..=n + 2 {
            for b in -1..=n + 2 {
                out.push(Case::new(format!("s := \"{}\"\na := {}\nb := {}\nt := s[a:b]\nprint(\"sliced\")\nprint((s[:a] + t + s[b:]) == s)\n", s, a, b), T_FIXED, format!("range {}:{} of {:?}", a, b, s)));
            }
            out.push(Case::new(format!("s := \"{}\"\na := {}\nt := s[a:]\nprint(\"tail\")\nu := s[:a]\nprint((u + t) == s)\n", s, a), T_FIXED, format!("open ranges at {} of {:?}", a, s)));
        }
    }
    // an interpolated literal in every syntactic position a string can take (names of properties,
    // indices, patterns, operands, arguments, iterables), evaluated again after its variable changed
    for lit in ["$\"k${x}\"", "$\"${x}\"", "$\"é${x}€\""] {
        for ctxt in [
            "print(@)\n",
            "r := [@][0]\nprint(r)\n",
            "r := {\"p\": @}.p\nprint(r)\n",
            "o := {@: 1}\nprint(o)\n",
            "o := {@: 1, \"z\": 2}\nx = \"Y\"\no2 := {@: 3, o..}\nprint(o2)\n",
            "o := {}\no[@] = 1\nx = \"Y\"\no[@] = 2\nprint(o)\n",
            "o := {}\no[@] = 1\nprint(o[@])\nx = \"Y\"\no[@] = 2\no[@] += 5\nprint(o)\n",
            "o := {}\no[@] = 1\n{@: v} := o\nprint(v)\nx = \"Y\"\no[@] = 2\n{@: w} = o\nprint(w)\n",
            "fn f(a) {\nreturn a\n}\nprint(f(@))\n",
            "print(@ == (\"k\" + x))\nprint(@ + @)\nprint(@->len())\n",
            "print((@)[0] == \"k\")\nprint((@)[1:]->len())\n",
            "n := 0\nfor c in @ {\nn += 1\n}\nprint(n)\n",
            "fn g() {\nreturn @\n}\nprint(g())\nx = \"Y\"\nprint(g())\n",
            "print($\"<${@}>\")\n",
            "xs := [@, @]\nx = \"Y\"\nxs += [@]\nprint(xs)\n",
            "o := {\"kX\": 1, \"X\": 2, \"éX€\": 3}\nprint(o[@])\n",
        ] {
            out.push(Case::new(format!("x := \"X\"\n{}", ctxt.replace('@', lit)), T_FIXED, format!("interpolated literal {} in {:?}", lit, ctxt.replace('\n', " "))));
        }
    }
    // `\x` followed by every pair of printable ASCII characters (and a line break, a multi-byte
    // character): two hexadecimal digits make one byte, anything else is a reported error
    {
        let mut chars: Vec<String> = (0x20u8..0x7f).map(|b| (b as char).to_string()).collect();
        chars.push("\n".to_string());
        chars.push("é".to_string());
        for a in &chars {
            for b in &chars {
                out.push(Case::new(format!("print(\"pre\")\ns := \"\\x{}{}\"\nprint(s->len())\nprint([s < \"\\x40\", s < \"\\x80\", s < \"\\xc0\"])\nprint(s)\n", a, b), T_FIXED, format!("escape \\x{}{} in a plain literal", a, b)));
                if a.as_bytes()[0].is_ascii_hexdigit() || b.as_bytes()[0].is_ascii_hexdigit() || !a.as_bytes()[0].is_ascii_alphanumeric() {
                    out.push(Case::new(format!("print(\"pre\")\ns := $\"a\\x{}{}b\"\nprint(s->len())\nprint(s)\n", a, b), T_FIXED, format!("escape \\x{}{} in an interpolated literal", a, b)));
                }
            }
        }
    }
    // slots are evaluated left to right, each once
    for c in super::evalorder::cases(T_FIXED) {
        if c.meta.contains("$\"") {
            out.push(c);
        }
    }
    out.push(Case::new("n := 0\nfn next() {\nn += 1\nreturn $\"${\"0123456789\"[n]}\"\n}\nprint($\"${next()} ${next()} ${next()}\")\nprint($\"${next()}${missing1}${missing2}\")\n".to_string(), T_FIXED, "slots with side effects".to_string()));
    // `+=` on a string variable that shadows another string variable
    out.push(Case::new("out := \"G\"\nfn join(parts) {\nout := \"\"\nfor [i, p] in parts {\nout += p\n}\nreturn out\n}\nprint(join([\"ä\", \"ö\"]))\nprint(out)\n{\nout := \"B\"\nout += \"é\"\nprint(out)\n}\nprint(out)\nfn sh(out) {\nout += \"!\"\nreturn out\n}\nprint(sh(\"p\"))\nprint(out)\n".to_string(), T_FIXED, "string += on a shadowing variable".to_string()));
    // text inside a slot is lexed when the slot is evaluated: every lexical error kind there is a
    // reported error (after the output so far), never a crash
    for (name, slot) in [
        ("too-large integer", "99999999999999999999"),
        ("invalid escape", "\"\\q\""),
        ("unescaped dollar", "\"$\""),
        ("bad slot start", "$\"$x\""),
        ("bad hex digit", "\"\\xZZ\""),
        ("short hex", "\"\\x4\""),
        ("unexpected character", "1 ~ 2"),
        ("unexpected multi-byte character", "1 é 2"),
        ("unterminated string", "\"abc"),
        ("lone backslash", "\\"),
    ] {
        for (pre, post) in [("", ""), ("é", "€"), ("a${x}", "${x}b")] {
            out.push(Case::new(
                format!("x := \"X\"\nprint(\"pre\")\ns := $\"{}${{{}}}{}\"\nprint(\"unreachable\")\n", pre, slot, post),
                T_FIXED,
                format!("lexical error in a slot: {} between {:?} and {:?}", name, pre, post),
            ));
        }
    }
    // layout inside a slot that leaves one expression: spaces, tabs, a leading line break or
    // terminator, continuation line breaks
    for slot in ["{ x }", "{\tx\t}", "{\nx}", "{;x}", "{x +\nx}", "{[x,\nx][0]}", "{f(\nx)}", "{ f( x ) }", "{\n\n  x}", "{x # c\n+ x}"] {
        for (pre, post) in [("", ""), ("é", "€"), ("a${x}", "${x}b")] {
            out.push(Case::new(
                format!("x := \"X\"\nfn f(a) {{\nreturn a\n}}\nprint(\"pre\")\ns := $\"{}${}{}\"\nprint(s)\nprint(s->len())\n", pre, slot, post),
                T_FIXED,
                format!("layout in a slot {:?} between {:?} and {:?}", slot, pre, post),
            ));
        }
    }
    // layout after a complete slot expression (a trailing line break, terminator or comment): the
    // statement leaves open whether the slot is then still one expression; a value or a reported
    // error are both accepted, a crash is not (crashes are reported by the engine)
    for slot in ["{x\n}", "{\nx\n}", "{x;}", "{x # c\n}", "{x \n+ x}", "{(x\n)}", "{x; x}"] {
        for (pre, post) in [("", ""), ("é", "€")] {
            out.push(Case::new(
                format!("x := \"X\"\nprint(\"pre\")\ns := $\"{}${}{}\"\nprint(\"after\")\n", pre, slot, post),
                T_OPEN,
                format!("layout after a slot expression {:?} between {:?} and {:?}", slot, pre, post),
            ));
        }
    }
    out
}

impl Check for C15 {
    fn id(&self) -> &'static str {
        "C15"
    }

    fn run(&self, ctx: &mut Ctx) -> Result<(), MachineryError> {
        let max_plain = ctx.tier.pick(4usize, 5usize);
        let max_ip = ctx.tier.pick(2usize, 3usize);
        let max_slots = 2usize;
        ctx.rule = format!(
            "complete product: all plain literals of 0..{} pieces over {} pieces ({} valid: ASCII, space, braces, escapes \\\\ \\\" \\$ \\n \\r \\xHH (upper/lower case, leading zero), 2/3/4-byte characters, raw newline; 5 invalid: \\q, \\x4, \\xg1, raw $, trailing backslash); all interpolated literals of 0..{} pieces over {} pieces with 0..{} slots in every gap arrangement x {} slot expressions (10 string-valued incl. nested interpolation, braces and quotes inside the slot, multi-byte text inside the slot; 3 failing); {} fixed programs incl. every lexical error kind inside a slot and layout (spaces, tabs, line breaks, terminators, comments) inside slots; non-trivial = all",
            max_plain,
            PIECES.len(),
            N_VALID,
            max_ip,
            IPIECES.len(),
            max_slots,
            SLOTS.len(),
            fixed_cases().len()
        );
        ctx.rule.push_str("; `\\x` followed by every pair over the 95 printable ASCII characters, a line break and a multi-byte character, in plain and interpolated literals");
        let mut cases: Vec<Case> = vec![];
        let mut n_invalid = 0u64;
        // plain literals
        let n = PIECES.len();
        for len in 0..=max_plain {
            for idx in 0..n.pow(len as u32) {
                let mut lit = String::new();
                let mut x = idx;
                let mut invalid = false;
                for _ in 0..len {
                    let pi = x % n;
                    lit.push_str(PIECES[pi]);
                    if pi >= N_VALID {
                        invalid = true;
                    }
                    x /= n;
                }
                if invalid {
                    n_invalid += 1;
                }
                cases.push(Case::new(plain_prog(&lit), T_PLAIN, format!("plain literal {:?}", lit)));
                if cases.len() >= 80_000 {
                    ctx.judge(std::mem::take(&mut cases), |c, r, o| self.oracle(c, r, o))?;
                }
            }
        }
        // interpolated literals
        let ni = IPIECES.len();
        let ns = SLOTS.len();
        for len in 0..=max_ip {
            for idx in 0..ni.pow(len as u32) {
                let mut pieces = vec![];
                let mut x = idx;
                for _ in 0..len {
                    pieces.push(IPIECES[x % ni]);
                    x /= ni;
                }
                // no slot
                cases.push(Case::new(interp_prog(&pieces, &[]), T_INTERP, format!("interpolated {:?} no slot", pieces)));
                // one slot
                for g in 0..=len {
                    for e in 0..ns {
                        cases.push(Case::new(interp_prog(&pieces, &[(g, e)]), T_INTERP, format!("interpolated {:?} slot {} at gap {}", pieces, SLOTS[e], g)));
                    }
                }
                // two slots (gaps g1 <= g2)
                for g1 in 0..=len {
                    for g2 in g1..=len {
                        for e1 in 0..ns {
                            for e2 in 0..ns {
                                if e1 >= N_GOOD_SLOTS && e2 >= N_GOOD_SLOTS {
                                    continue;
                                }
                                cases.push(Case::new(
                                    interp_prog(&pieces, &[(g1, e1), (g2, e2)]),
                                    T_INTERP,
                                    format!("interpolated {:?} slots {} at gap {}, {} at gap {}", pieces, SLOTS[e1], g1, SLOTS[e2], g2),
                                ));
                            }
                        }
                    }
                }
                if cases.len() >= 80_000 {
                    ctx.judge(std::mem::take(&mut cases), |c, r, o| self.oracle(c, r, o))?;
                    if ctx.over_cap() {
                        break;
                    }
                }
            }
        }
        // three slots around one piece (thorough)
        if ctx.tier == Tier::Thorough {
            for p in IPIECES {
                for e1 in 0..N_GOOD_SLOTS {
                    for e2 in 0..N_GOOD_SLOTS {
                        for e3 in 0..N_GOOD_SLOTS {
                            cases.push(Case::new(
                                interp_prog(&[p, p], &[(0, e1), (1, e2), (2, e3)]),
                                T_INTERP,
                                format!("interpolated [{:?},{:?}] three slots {} {} {}", p, p, e1, e2, e3),
                            ));
                        }
                    }
                }
            }
        }
        cases.extend(fixed_cases());
        ctx.judge(cases, |c, r, o| self.oracle(c, r, o))?;
        ctx.guard("invalid literals were explored", n_invalid > 0);
        ctx.extra.insert(
            "bounds".into(),
            json!({"plain_pieces_max": max_plain, "piece_alphabet": PIECES.len(), "interpolated_pieces_max": max_ip,
                   "interpolated_piece_alphabet": IPIECES.len(), "slots_max": max_slots, "slot_expressions": SLOTS.len(),
                   "invalid_plain_literals": n_invalid}),
        );
        Ok(())
    }

    fn oracle(&self, c: &Case, r: &RefOutcome, o: &Outcome) -> Verdict {
        if c.tag == T_OPEN {
            let out = o.out_str();
            if !(out == "pre\n" && o.class == Class::Err || out == "pre\nafter\n" && o.class == Class::Ok) {
                return viol("slot-layout", format!("{}: neither a value nor a reported error: {:?} printing {:?}", c.meta, o.class, out));
            }
            return Verdict::Pass;
        }
        match &r.result {
            RefResult::Front(fe) => {
                // invalid literal: reported before anything runs, at the offending character
                if o.class != Class::Err {
                    return viol("invalid-literal-accepted", format!("{}: the literal is invalid, but the run ended {:?} printing {:?}", c.meta, o.class, o.out_str()));
                }
                if !o.stdout.is_empty() {
                    return viol("output-before-lexical-error", format!("{}: printed {:?}", c.meta, o.out_str()));
                }
                if let FrontErr::Lex(le) = fe {
                    if !le.at_newline {
                        match parse_pos(&o.msg) {
                            Some((pos, _)) if pos == le.pos => {}
                            other => {
                                return viol(
                                    "lexical-error-position",
                                    format!("{}: {:?} must be reported at the offending character {}:{}, got {:?} ({})", c.meta, le.kind, le.pos.0, le.pos.1, other.map(|x| x.0), o.msg),
                                )
                            }
                        }
                    }
                }
                Verdict::Pass
            }
            _ => {
                if o.stdout != r.stdout {
                    return viol(
                        "string-value",
                        format!("{}: printed {:?}, reference {:?}", c.meta, o.out_str(), String::from_utf8_lossy(&r.stdout)),
                    );
                }
                if r.is_ok() != (o.class == Class::Ok) {
                    return viol(
                        "termination",
                        format!("{}: reference ends {}, run ended {:?} {}", c.meta, if r.is_ok() { "ok" } else { "with an error" }, o.class, o.msg),
                    );
                }
                // the laws are evaluated by the subject itself: no `false` may be printed
                if r.is_ok() && c.tag != T_FIXED && o.out_str().lines().any(|l| l == "false") {
                    return viol("law", format!("{}: a string law evaluated to false: {:?}", c.meta, o.out_str()));
                }
                Verdict::Pass
            }
        }
    }
}
