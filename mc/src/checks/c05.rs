//! C05 — containers are shared by reference; building operations return
//! fresh ones.  Breadth-first exploration of all histories of alias / copy /
//! mutate operations over the variables a, b, c, o, deduplicated by the
//! canonical shape of the reference heap.  After every history the program
//! prints every variable and the complete `===` matrix over all container
//! values reachable to depth 2.  Oracle: the reference store.
use super::Check;
use crate::engine::*;
use crate::explore::{bfs, Alphabet, CURSOR_MARK};
use crate::refm::eval::{run_prog_keep, Interp, RefOutcome, Val};
use crate::refm::parse::parse_prog;
use crate::subject::{Class, MachineryError, Outcome};
use serde_json::json;
use std::collections::HashMap;

pub struct C05;

/// a function is created while its scope is still empty; the list or object it mutates is declared
/// afterwards in that scope (and an outer container of the same name exists)
const LATE_CONTAINER_PROGRAMS: &[&str] = &[
    "items := [\"outer\"]\nfn make() {\nfn push(v) {\nitems += [v]\nitems[0] = v\nreturn items\n}\nitems := [0]\npush(1)\npush(2)\nreturn items\n}\nprint(make())\nprint(items)\n",
    "reg := {\"who\": \"outer\"}\nif true {\nset := fn (k, v) {\nreg[k] = v\n}\nreg := {}\nset(\"a\", 1)\nprint(reg)\n}\nprint(reg)\n",
    "log := []\n{\nfn walk(n) {\nif n > 0 {\nlog[0] += 1\nwalk(n - 1)\n}\n}\nlog := [0]\nwalk(3)\nprint(log)\n}\nprint(log)\n",
    "acc := [9]\ni := 0\nwhile i < 2 {\ni += 1\nbump := fn () {\nacc[0] += 1\nreturn acc\n}\nacc := [i * 10]\nprint(bump())\nprint(bump() === acc)\n}\nprint(acc)\n",
];

/// (template, class) — class: 'a' alias, 'c' copy/build, 'm' mutation, 'v' value
pub const OPS: &[(&str, char)] = &[
    ("b = a", 'a'),
    ("c = [a]", 'a'),
    ("c = {\"k\": a}", 'a'),
    ("setz(a, K)", 'm'),
    ("setz(b, K)", 'm'),
    ("b = id(a)", 'a'),
    ("cap(K)", 'm'),
    ("for e in [a] {\ne[1][0] = K\n}", 'm'),
    ("b = a + []", 'c'),
    ("b = [] + a", 'c'),
    ("b = [a..]", 'c'),
    ("b = a[:]", 'c'),
    ("b = a[1:2]", 'c'),
    ("b = 0 .. 2", 'c'),
    ("[..b] = a", 'c'),
    ("b += [K]", 'c'),
    ("a += [K]", 'c'),
    ("b = rest(a..)", 'c'),
    ("c = {o..}", 'c'),
    ("{..c} = o", 'c'),
    ("a[0] = K", 'm'),
    ("b[0] = K", 'm'),
    ("a[0:1] = [K]", 'm'),
    ("c[0][0] = K", 'm'),
    ("c.k[0] = K", 'm'),
    ("a[1][0] = K", 'm'),
    ("b[1][0] = K", 'm'),
    ("b[0][0] = K", 'm'),
    ("a[0] += 1", 'm'),
    ("o.k = K", 'm'),
    ("c.k = K", 'm'),
    ("b = a[0]", 'v'),
    ("b += 1", 'v'),
    ("c = o", 'a'),
    ("o[\"z\"] = K", 'm'),
    ("a = b", 'a'),
    ("b = [a, a]", 'a'),
    ("[b, c] = a", 'a'),
    ("{\"k\": b} = o", 'v'),
    ("o.k = a", 'a'),
    ("b = o.k", 'a'),
    ("c = fresh()", 'c'),
    ("b = [a[1]..]", 'c'),
    ("a[1] += [K]", 'c'),
    ("[a[1], a[0]] = b", 'm'),
    ("[b[1], b[0]] = a", 'm'),
    ("c = []\nfor e in a {\nc += [e]\n}", 'c'),
    ("c = []\nb = 0\nwhile b < 2 {\nb += 1\nl := [b]\nc += [fn () {\nreturn l\n}]\n}\nb = [c[0](), c[1]()]\nc = null", 'c'),
    ("c = []\nfor e in [0, 1] {\nl := [e]\nc += [fn () {\nreturn l\n}]\n}\nb = [c[0](), c[1]()]\nc = null", 'c'),
    ("o.k += [K]", 'c'),
    ("o[\"k\"] += [K]", 'c'),
    ("c[0] += [K]", 'c'),
    ("c.k += [K]", 'c'),
    ("a[bump(a, K)] = K", 'm'),
    ("a[bump(a, K):1] = [K]", 'm'),
    ("o[keyf(o, K)] = K", 'm'),
    ("b[bump(a, K)] = K", 'm'),
];

pub const PRELUDE: &str = "fn setz(p, k) {\np[0] = k\n}\nfn id(p) {\nreturn p\n}\nfn rest(..r) {\nreturn r\n}\nfn fresh() {\nreturn [7]\n}\nfn bump(p, k) {\np[1] = [k]\nreturn 0\n}\nfn keyf(p, k) {\np.z = k\nreturn \"k\"\n}\na := [1, [2]]\nb := null\nc := null\no := {\"k\": 3}\nfn cap(k) {\na[0] = k\n}\n";

#[derive(Clone)]
pub struct St {
    ops: Vec<u16>,
    text: String,
    next_k: u32,
}

struct Alpha;

fn paths(it: &Interp) -> Vec<(String, Val)> {
    fn walk(it: &Interp, path: String, v: &Val, depth: usize, out: &mut Vec<(String, Val)>) {
        match v {
            Val::List(a) => {
                out.push((path.clone(), v.clone()));
                if depth < 2 {
                    for (i, e) in it.list(*a).iter().enumerate().take(3) {
                        walk(it, format!("{}[{}]", path, i), &e.v, depth + 1, out);
                    }
                }
            }
            Val::Obj(a) => {
                out.push((path.clone(), v.clone()));
                if depth < 2 {
                    for (k, e) in it.obj(*a).iter().take(3) {
                        walk(it, format!("{}[\"{}\"]", path, k), &e.v, depth + 1, out);
                    }
                }
            }
            _ => {}
        }
    }
    let mut out = vec![];
    for v in ["a", "b", "c", "o"] {
        if let Some(sv) = it.top_var(v) {
            walk(it, v.to_string(), &sv.v, 0, &mut out);
        }
    }
    out
}

/// canonical shape of the heap reachable from a, b, c, o (addresses and the fresh
/// integers renumbered in order of first visit)
fn canon(it: &Interp) -> String {
    fn walk(it: &Interp, v: &Val, addrs: &mut HashMap<usize, usize>, ints: &mut HashMap<i64, usize>, out: &mut String) {
        match v {
            Val::Null => out.push('N'),
            Val::Bool(b) => out.push(if *b { 'T' } else { 'F' }),
            Val::Int(n) => {
                // small constants of the prelude keep their value; fresh ones are renumbered
                if *n < 100 {
                    out.push_str(&format!("i{}", n));
                } else {
                    let l = ints.len();
                    let id = *ints.entry(*n).or_insert(l);
                    out.push_str(&format!("k{}", id));
                }
            }
            Val::Str(s) => out.push_str(&format!("s{:?}", s)),
            Val::List(a) => {
                if let Some(id) = addrs.get(a) {
                    out.push_str(&format!("@{}", id));
                    return;
                }
                let id = addrs.len();
                addrs.insert(*a, id);
                out.push_str(&format!("L{}[", id));
                for e in it.list(*a) {
                    walk(it, &e.v, addrs, ints, out);
                    out.push(',');
                }
                out.push(']');
            }
            Val::Obj(a) => {
                if let Some(id) = addrs.get(a) {
                    out.push_str(&format!("@{}", id));
                    return;
                }
                let id = addrs.len();
                addrs.insert(*a, id);
                out.push_str(&format!("O{}{{", id));
                for (k, e) in it.obj(*a) {
                    out.push_str(k);
                    out.push(':');
                    walk(it, &e.v, addrs, ints, out);
                    out.push(',');
                }
                out.push('}');
            }
            Val::Func(_) | Val::Builtin(_) => out.push('f'),
        }
    }
    let mut out = String::new();
    let mut addrs = HashMap::new();
    let mut ints = HashMap::new();
    for v in ["a", "b", "c", "o"] {
        out.push_str(v);
        out.push('=');
        if let Some(sv) = it.top_var(v) {
            walk(it, &sv.v, &mut addrs, &mut ints, &mut out);
        }
        out.push(';');
    }
    out
}

fn observe_suffix(text: &str) -> (String, String) {
    // learn the kinds of the variables from the reference run of the history, then write
    // the observation: every variable and the full identity matrix
    let prog = match parse_prog(text) {
        Ok(p) => p,
        Err(_) => return (String::new(), String::new()),
    };
    let (_o, it) = run_prog_keep(&prog, REF_BUDGET);
    let mut s = String::new();
    for v in ["a", "b", "c", "o"] {
        s.push_str(&format!("print({})\n", v));
    }
    let ps = paths(&it);
    for i in 0..ps.len() {
        for j in (i + 1)..ps.len() {
            let same_kind = matches!((&ps[i].1, &ps[j].1), (Val::List(_), Val::List(_)) | (Val::Obj(_), Val::Obj(_)));
            if same_kind {
                s.push_str(&format!("print({} === {})\n", ps[i].0, ps[j].0));
            }
        }
    }
    (s, canon(&it))
}

impl Alphabet for Alpha {
    type St = St;
    fn init(&self) -> St {
        St { ops: vec![], text: PRELUDE.to_string(), next_k: 100 }
    }
    fn enabled(&self, _st: &St) -> Vec<u16> {
        (0..OPS.len() as u16).collect()
    }
    fn apply(&self, st: &St, op: u16) -> St {
        let mut s = st.clone();
        s.ops.push(op);
        let t = OPS[op as usize].0;
        if t.contains('K') {
            s.text.push_str(&t.replace('K', &format!("{}", s.next_k)));
            s.next_k += 1;
        } else {
            s.text.push_str(t);
        }
        s.text.push('\n');
        s
    }
    fn program(&self, st: &St) -> String {
        let (suffix, _) = observe_suffix(&st.text);
        format!("{}print(\"{}\")\n{}", st.text, CURSOR_MARK, suffix)
    }
    fn describe(&self, st: &St) -> String {
        st.ops.iter().map(|o| OPS[*o as usize].0.replace('\n', " ")).collect::<Vec<_>>().join(" ; ")
    }
    fn nontrivial(&self, st: &St) -> bool {
        // a mutation happened after an alias or copy was made
        let mut seen_ac = false;
        for o in &st.ops {
            let c = OPS[*o as usize].1;
            if c == 'a' || c == 'c' {
                seen_ac = true;
            } else if c == 'm' && seen_ac {
                return true;
            }
        }
        false
    }
    fn key(&self, st: &St, _prog: &str, _r: &RefOutcome, _o: &Outcome) -> u64 {
        let (_, canon) = observe_suffix(&st.text);
        h64(&canon)
    }
}

// ----- E2: every building operation x every way the operand can be reached -----

const BUILD_SETUP: &str = "fn id(p) {\nreturn p\n}\nfn rest(..r) {\nreturn r\n}\nfn mk() {\nreturn keep\n}\nkeep := [[1], [2]]\nholder := {\"k\": keep, \"get\": fn () {\nreturn this.k\n}}\nwrap := [keep]\nok := {\"p\": [1], \"q\": [2]}\nhold2 := {\"o\": ok}\nfn mko() {\nreturn ok\n}\n";
/// list-valued sources that all denote the list `keep`
const LIST_SOURCES: [&str; 7] = ["keep", "id(keep)", "mk()", "holder.k", "holder.get()", "wrap[0]", "id(wrap)[0]"];
/// object-valued sources that all denote the object `ok`
const OBJ_SOURCES: [&str; 4] = ["ok", "id(ok)", "mko()", "hold2.o"];
/// building operations on a list `@` (statements that leave the result in `r`)
const LIST_BUILDS: [&str; 20] = [
    "r := @ + []",
    "r := [] + @",
    "r := @ + @",
    "r := [@..]",
    "r := [@.., 9]",
    "r := [9, @..]",
    "r := [@.., @..]",
    "r := @[:]",
    "r := @[0:0]",
    "r := @[1:1]",
    "r := @[2:2]",
    "r := @[0:1]",
    "r := @[1:]",
    "r := rest(@..)",
    "r := rest(9, @..)",
    "[..r] := @",
    "[_, ..r] := @",
    "[_, _, ..r] := @",
    "r := @\nr += []",
    "r := @\nr += [9]",
];
const OBJ_BUILDS: [&str; 7] = [
    "r := {@..}",
    "r := {@.., \"z\": 9}",
    "r := {\"z\": 9, @..}",
    "{..r} := @",
    "{p, ..r} := @",
    "{p, q, ..r} := @",
    "r := {@.., @..}",
];

fn build_cases() -> Vec<Case> {
    let mut v = vec![];
    for (srcs, builds, name) in [(&LIST_SOURCES[..], &LIST_BUILDS[..], "keep"), (&OBJ_SOURCES[..], &OBJ_BUILDS[..], "ok")] {
        for b in builds {
            for s1 in srcs {
                for s2 in srcs {
                    // the same operation twice (operand reached in two ways): both results are new,
                    // distinct from each other and from the operand, which is unchanged; elements are shared
                    let first = b.replace('@', s1);
                    let second = b.replace('@', s2).replace("r :=", "r2 :=").replace("..r]", "..r2]").replace("..r}", "..r2}").replace("r +=", "r2 +=");
                    let probe = if name == "keep" {
                        "print(r === keep)\nprint(r2 === keep)\nprint(r === r2)\nprint(r !== r2)\nprint(r !== keep)\nprint(keep)\nprint(r)\nprint(r2)\nfor [i, e] in r {\nif e->type() == \"list\" {\ne[0] = 7\n}\n}\nprint(keep)\nprint(r2)\nr2 += [5]\nprint(r)\nprint(keep)\n"
                    } else {
                        "print(r === ok)\nprint(r2 === ok)\nprint(r === r2)\nprint(r !== r2)\nprint(r !== ok)\nprint(ok)\nprint(r)\nprint(r2)\nfor [k, e] in r {\nif e->type() == \"list\" {\ne[0] = 7\n}\n}\nprint(ok)\nprint(r2)\nr2.n = 5\nprint(r)\nprint(ok)\n"
                    };
                    v.push(Case::new(format!("{}{}\n{}\n{}", BUILD_SETUP, first, second, probe), 7, format!("build {} / {}", first.replace('\n', "; "), second.replace('\n', "; "))));
                }
            }
        }
    }
    // assigning a container that is equal to, but distinct from, the one already there replaces it:
    // every target form x list / object
    for (old, new) in [("[0]", "[0]"), ("{\"k\": 0}", "{\"k\": 0}"), ("[[0]]", "[[0]]"), ("[]", "[]"), ("{}", "{}")] {
        for (tname, setup, assign, read) in [
            ("variable", "t := OLD", "t = z", "t"),
            ("element", "t := [OLD, 1]", "t[0] = z", "t[0]"),
            ("property", "t := {\"p\": OLD}", "t.p = z", "t.p"),
            ("key", "t := {\"p\": OLD}", "t[\"p\"] = z", "t.p"),
            ("range of one", "t := [OLD, 1]", "t[0:1] = [z]", "t[0]"),
            ("whole range", "t := [OLD, OLD]", "t[:] = [z, z]", "t[1]"),
            ("range of two", "t := [1, OLD, OLD]", "t[1:3] = [z, z]", "t[2]"),
            ("list pattern", "t := [OLD, 1]", "[t[0]] = [z]", "t[0]"),
            ("object pattern", "t := {\"p\": OLD}", "{\"k\": t.p} = {\"k\": z}", "t.p"),
            ("for target", "t := [OLD, 1]", "for [_, t[0]] in [z] {\n}", "t[0]"),
            ("nested element", "t := [[OLD]]", "t[0][0] = z", "t[0][0]"),
        ] {
            // `u` is a second name for the target container, `hold` keeps it in a list
            let src = format!(
                "{}\nu := t\nhold := [t]\nwas := {}\nz := {}\n{}\nprint({} === z)\nprint({} === was)\nprint({} !== z)\nprint(t)\nprint(u === t)\nprint(hold[0] === t)\nprint(u)\n",
                setup.replace("OLD", old),
                read,
                new,
                assign,
                read,
                read,
                read
            );
            v.push(Case::new(src, 7, format!("assign an equal but distinct {} to a {}", new, tname)));
        }
    }
    v
}

impl Check for C05 {
    fn id(&self) -> &'static str {
        "C05"
    }

    fn run(&self, ctx: &mut Ctx) -> Result<(), MachineryError> {
        let depth = std::env::var("C05_DEPTH").ok().and_then(|s| s.parse().ok()).unwrap_or(ctx.tier.pick(4usize, 6usize));
        ctx.rule = format!(
            "breadth-first over all histories of <= {} operations from {} alias / copy / mutate / value operations on a := [1, [2]], b, c, o := {{\"k\": 3}} (bind to another name, store in a list / object, pass to a mutating function, return through a function, mutate through a closure, a loop pair, an element, a property; build with +, spread, range read, `..`, collect, +=, rest parameter, object spread / collect); states are merged when the reference heaps reachable from the variables are isomorphic; after every history every variable is printed and `===` is evaluated between all pairs of container values reachable to depth 2; non-trivial = a mutation after an alias or copy; plus the product of 20 list-building and 7 object-building operations, each applied twice to an operand reached in 7 (4) ways (variable, calls returning it, property, method, element), with identity, sharing and operand-unchanged probes, and 11 assignment forms x 5 equal-but-distinct containers",
            depth,
            OPS.len()
        );
        ctx.rule.push_str("; plus programs whose index, key or bound reads or writes, through an alias, the container it is applied to");
        let mut g_alias_mut = false;
        let stats = bfs(
            ctx,
            &Alpha,
            depth,
            |c, r, o| self.oracle(c, r, o),
            |_ctx, pairs| {
                for (st, j) in pairs {
                    if j.r.is_ok() && Alpha.nontrivial(st) && String::from_utf8_lossy(&j.r.stdout).contains("true") {
                        g_alias_mut = true;
                    }
                }
            },
        )?;
        let tp: Vec<Case> = super::evalorder::THIS_PROGRAMS.iter().enumerate().map(|(i, p)| Case::new(p.to_string(), 8, format!("mutation through `this` reaches the receiver of that call only, program {}", i))).collect();
        ctx.judge(tp, |c, r, o| self.oracle(c, r, o))?;
        let lp: Vec<Case> = LATE_CONTAINER_PROGRAMS.iter().map(|p| Case::new(p.to_string(), 8, "a function created before the container it mutates is declared".to_string())).collect();
        ctx.judge(lp, |c, r, o| self.oracle(c, r, o))?;
        let sp: Vec<Case> = super::evalorder::SELF_TARGET_PROGRAMS.iter().map(|p| Case::new(p.to_string(), 8, "targets, indices or bounds that reach the container being assigned".to_string())).collect();
        ctx.judge(sp, |c, r, o| self.oracle(c, r, o))?;
        let sr: Vec<Case> = super::evalorder::SELF_READ_PROGRAMS.iter().map(|p| Case::new(p.to_string(), 8, "an index, key or bound read through an alias of the container it is applied to".to_string())).collect();
        ctx.judge(sr, |c, r, o| self.oracle(c, r, o))?;
        let bc = build_cases();
        let n_build = bc.len();
        ctx.judge(bc, |c, r, o| self.oracle(c, r, o))?;
        ctx.guard("a mutation after an alias was observed through two identical containers", g_alias_mut);
        ctx.extra.insert(
            "bounds".into(),
            json!({"max_operations": depth, "completed_depth": stats.completed_depth, "operations": OPS.len(),
                   "levels(depth,generated,kept)": stats.levels, "dead_states": stats.dead, "merged_states": stats.merged, "build_and_assign_cases": n_build}),
        );
        Ok(())
    }

    fn oracle(&self, c: &Case, r: &RefOutcome, o: &Outcome) -> Verdict {
        if o.stdout != r.stdout {
            return viol(
                "aliasing",
                format!("values or identities differ from the reference store ({}): printed {:?}, reference {:?}", c.meta, o.out_str(), String::from_utf8_lossy(&r.stdout)),
            );
        }
        if r.is_ok() != (o.class == Class::Ok) {
            return viol(
                "termination",
                format!("{}: reference ends {}, run ended {:?} {}", c.meta, if r.is_ok() { "ok" } else { "with an error" }, o.class, o.msg),
            );
        }
        Verdict::Pass
    }
}
