//! C02 — evaluation never crashes: it completes or reports a diagnostic.
//! (1) Breadth-first exploration of alias-shape histories over a, b, c
//! (containers stored in themselves, in their comparand, on both sides of an
//! operator), merged on the canonical reference heap graph.  (2) The matrix
//! operator / op-assign form x ordered operand pairs over a pool of aliased
//! and cyclic shapes.  (3) Integer boundary pairs, multi-byte text around
//! interpolation slots and out-of-range slices, judged by the crash oracle.
//! Oracle: exit class in {ok, reported error}; never a panic, a signal or a
//! hang.  Where the program does not traverse a container reachable from
//! itself, the output must also equal the reference model's.
use super::Check;
use crate::engine::*;
use crate::explore::{bfs, Alphabet, CURSOR_MARK};
use crate::refm::eval::{run_prog_keep, Interp, RefOutcome, Val};
use crate::refm::parse::parse_prog;
use crate::subject::{Class, MachineryError, Outcome};
use serde_json::json;
use std::collections::HashMap;

pub struct C02;

const PRELUDE: &str = "fn f(p, q) {\np[0] = q\nprint(p == q)\n}\na := []\nb := null\nc := null\n";

const OPS: &[&str] = &[
    "a = []",
    "a = [[]]",
    "a = {}",
    "a = [1, [2]]",
    "b = a",
    "b = [a]",
    "b = {\"k\": a}",
    "a[0] = b",
    "a[0] = a",
    "a.k = b",
    "a.k = a",
    "a += [b]",
    "a += [a]",
    "a[0] += a",
    "a[0] += b",
    "a.k += a.k",
    "a[0:1] = a",
    "a[0:1] = b",
    "[..b] = a",
    "b = [a.., a..]",
    "b = {a.., a..}",
    "for e in a {\na += [e]\n}",
    "for e in a {\na[0] = e\n}",
    "print(a)",
    "print(a == b)",
    "print(a != b)",
    "print(a === b)",
    "print([a] == a)",
    "print(a == [a])",
    "print({\"k\": a} == a)",
    "f(a, a)",
    "f(a, b)",
    "c = [a, b]",
    "a = c",
    "b[0][0] = a",
    "print(b)",
    "print(c == a)",
    "a[0][0] = a",
    "b = a + a",
    "print(a[0] == a)",
    "[b, c] = a",
    "{\"k\": b} = a",
    "b = a[:]",
    "for [i, e] in a {\nprint(e == a)\n}",
    "a.k[0] = a",
    "b[0] += b",
    "b.k += [b]",
    "a[1] += a[1]",
    "[a[0]] = a",
    "[a[1], a[0]] = a",
    "[a[0], b] = a",
    "{\"k\": a.k} = a",
    "[b, [c]] = a",
    "[[b], c] = a",
    "f(a..)",
    "for [i, e] in a {\na[i] = a\n}",
];

#[derive(Clone)]
pub struct St {
    ops: Vec<u16>,
    text: String,
}

struct Alpha;

fn canon(it: &Interp) -> String {
    fn walk(it: &Interp, v: &Val, addrs: &mut HashMap<usize, usize>, out: &mut String) {
        match v {
            Val::Null => out.push('N'),
            Val::Bool(b) => out.push(if *b { 'T' } else { 'F' }),
            Val::Int(n) => out.push_str(&format!("i{}", n)),
            Val::Str(s) => out.push_str(&format!("s{:?}", s)),
            Val::List(a) => {
                if let Some(id) = addrs.get(a) {
                    out.push_str(&format!("@{}", id));
                    return;
                }
                let id = addrs.len();
                addrs.insert(*a, id);
                out.push_str(&format!("L{}[", id));
                for e in it.list(*a) {
                    walk(it, &e.v, addrs, out);
                    out.push(',');
                }
                out.push(']');
            }
            Val::Obj(a) => {
                if let Some(id) = addrs.get(a) {
                    out.push_str(&format!("@{}", id));
                    return;
                }
                let id = addrs.len();
                addrs.insert(*a, id);
                out.push_str(&format!("O{}{{", id));
                for (k, e) in it.obj(*a) {
                    out.push_str(k);
                    out.push(':');
                    walk(it, &e.v, addrs, out);
                    out.push(',');
                }
                out.push('}');
            }
            _ => out.push('f'),
        }
    }
    let mut out = String::new();
    let mut addrs = HashMap::new();
    for v in ["a", "b", "c"] {
        out.push_str(v);
        out.push('=');
        if let Some(sv) = it.top_var(v) {
            walk(it, &sv.v, &mut addrs, &mut out);
        }
        out.push(';');
    }
    out
}

impl Alphabet for Alpha {
    type St = St;
    fn init(&self) -> St {
        St { ops: vec![], text: PRELUDE.to_string() }
    }
    fn enabled(&self, st: &St) -> Vec<u16> {
        let last = st.ops.last().copied();
        (0..OPS.len() as u16).filter(|o| !(OPS[*o as usize].starts_with("print") && last == Some(*o))).collect()
    }
    fn apply(&self, st: &St, op: u16) -> St {
        let mut s = st.clone();
        s.ops.push(op);
        s.text.push_str(OPS[op as usize]);
        s.text.push('\n');
        s
    }
    fn program(&self, st: &St) -> String {
        format!("{}print(\"{}\")\nprint(a === b)\nprint(a == b)\nprint(a)\nprint(b)\n", st.text, CURSOR_MARK)
    }
    fn describe(&self, st: &St) -> String {
        st.ops.iter().map(|o| OPS[*o as usize].replace('\n', " ")).collect::<Vec<_>>().join(" ; ")
    }
    fn nontrivial(&self, st: &St) -> bool {
        st.ops.len() >= 2
    }
    fn key(&self, st: &St, _prog: &str, _r: &RefOutcome, _o: &Outcome) -> u64 {
        match parse_prog(&st.text) {
            Ok(p) => {
                let (_o, it) = run_prog_keep(&p, REF_BUDGET);
                h64(&canon(&it))
            }
            Err(_) => 0,
        }
    }
}

const SHAPES_SETUP: &str = "x := [1]\ny := [x]\nz := {\"k\": x}\nw := [x, x]\ns := [[1]]\ncyc := [0]\ncyc[0] = cyc\noc := {\"k\": 0}\noc.k = oc\nm := [x, z]\nd := [[x], [x]]\n";
const OPERANDS: [&str; 24] = [
    "x", "y", "z", "w", "s", "cyc", "oc", "m", "x[0]", "y[0]", "z.k", "w[0]", "w[1]", "cyc[0]", "oc.k", "[x]", "{\"k\": x}",
    "[cyc]", "y + y", "d", "d[0]", "[y, x]", "m[1]", "[oc]",
];
const PLACES: [&str; 9] = ["x", "y", "w[0]", "z.k", "cyc[0]", "oc.k", "m[0]", "y[0]", "d[0][0]"];
const BINOPS: [&str; 16] = ["+", "-", "*", "/", "%", "&&", "||", "==", "!=", "<", "<=", ">", ">=", "===", "!==", ".."];

fn matrix_cases() -> Vec<Case> {
    let mut v = vec![];
    for op in BINOPS {
        for l in OPERANDS {
            for r in OPERANDS {
                v.push(Case::new(format!("{}print(\"pre\")\nr := {} {} {}\nprint(\"post\")\n", SHAPES_SETUP, l, op, r), 2, format!("matrix {} {} {}", l, op, r)));
            }
        }
    }
    for op in ["+", "-", "*", "/", "%"] {
        for l in PLACES {
            for r in OPERANDS {
                v.push(Case::new(format!("{}print(\"pre\")\n{} {}= {}\nprint(\"post\")\nprint(x)\n", SHAPES_SETUP, l, op, r), 2, format!("matrix {} {}= {}", l, op, r)));
            }
        }
    }
    for l in PLACES {
        for r in OPERANDS {
            v.push(Case::new(format!("{}print(\"pre\")\n{} = {}\nprint(\"post\")\nprint(x == y)\nprint(w == d)\n", SHAPES_SETUP, l, r), 2, format!("matrix {} = {}", l, r)));
        }
    }
    for r in OPERANDS {
        for tmpl in [
            "print(@)\n",
            "for e in @ {\nprint(1)\n}\n",
            "q := [@.., @..]\nprint(1)\n",
            "q := {@.., @..}\nprint(1)\n",
            "[..q] := @\nprint(1)\n",
            "{..q} := @\nprint(1)\n",
            "w[0:1] = @\nprint(w == w)\n",
            "w[0:2] = @\nprint(w == d)\n",
            "q := @[:]\nprint(q == @)\n",
            "print($\"${@}\")\n",
            "print(@->type())\n",
            "print([@, @] == [@, @])\n",
            "fn g(..r) {\nreturn r\n}\nprint(g(@..) == @)\n",
            "[] := @\nprint(1)\n",
            "[] = @\nprint(1)\n",
            "{} := @\nprint(1)\n",
            "[p, []] := [1, @]\nprint(1)\n",
            "[[], ..p] := [@, @]\nprint(1)\n",
            "for [i, []] in [@] {\nprint(1)\n}\n",
            "fn g([], {}) {\nprint(1)\n}\ng(@, @)\n",
            "[_, ..p] := @\nprint(1)\n",
        ] {
            v.push(Case::new(format!("{}print(\"pre\")\n{}", SHAPES_SETUP, tmpl.replace('@', r)), 2, format!("matrix context {:?} with {}", tmpl.replace('\n', " "), r)));
        }
    }
    v
}

fn boundary_cases(tier: Tier) -> Vec<Case> {
    let mut v = vec![];
    let g = super::c06::grid(Tier::Quick);
    let step = tier.pick(3usize, 1usize);
    for (ai, a) in g.iter().enumerate() {
        for (bi, b) in g.iter().enumerate() {
            if (ai + bi) % step != 0 && !(*b == 0 || *b == -1 || *a == i64::MIN) {
                continue;
            }
            for op in ["+", "-", "*", "/", "%", "<", "<=", ">", ">=", "==", "!="] {
                v.push(Case::new(
                    format!("a := {}\nb := {}\nprint(a {} b)\n", super::c06::lit(*a), super::c06::lit(*b), op),
                    3,
                    format!("ints {} {} {}", a, op, b),
                ));
            }
        }
    }
    // arithmetic on literals only (what a parser might fold), also inside a slot
    {
        let lits = ["0", "1", "-1", "2", "9223372036854775807", "-9223372036854775807", "(-9223372036854775807 - 1)", "4611686018427387904"];
        for a in lits {
            for b in lits {
                for op in ["+", "-", "*", "/", "%", "<", "<=", ">", ">=", "==", "!="] {
                    v.push(Case::new(format!("print(\"pre\")\nprint({} {} {})\n", a, op, b), 3, format!("literals {} {} {}", a, op, b)));
                    v.push(Case::new(format!("print(\"pre\")\nx := [{} {} {}, 0]\ns := $\"${{\"ab\"[({} {} {}) * 0]}}\"\nprint(s)\n", a, op, b, a, op, b), 3, format!("literals {} {} {} in a list and a slot", a, op, b)));
                }
            }
        }
    }
    // ranges with far-apart or descending bounds, built and iterated directly
    let edge: Vec<i64> = vec![i64::MIN, i64::MIN + 1, -1, 0, 1, i64::MAX - 1, i64::MAX];
    for &a in &edge {
        for &b in &edge {
            if (b as i128) - (a as i128) > 4 {
                continue;
            }
            let (la, lb) = (super::c06::lit(a), super::c06::lit(b));
            v.push(Case::new(format!("n := 0\nfor e in {} .. {} {{\nn += 1\n}}\nprint(n)\n", la, lb), 3, format!("for over {} .. {}", a, b)));
            v.push(Case::new(format!("a := {}\nb := {}\nfor [i, e] in a .. b {{\nprint(i)\n}}\nprint([(a .. b)..])\nprint((a .. b)[:])\n", la, lb), 3, format!("uses of {} .. {}", a, b)));
        }
    }
    // diagnostics that quote program text: names of 0..90 bytes with a multi-byte character at
    // every offset parity, in every failing position that names a property, key or variable
    for n in 0..=90usize {
        for name in [format!("{}é{}", "a".repeat(n), "b".repeat(90 - n)), format!("{}{}", "a".repeat(n % 4), "€".repeat(n)), "k".repeat(n + 1)] {
            for tmpl in [
                "o := {}\nprint(o[\"@\"])\n",
                "o := {}\no[\"@\"] += 1\n",
                "o := {\"z\": 1}\n{\"@\": p} := o\n",
                "o := {\"@\": 1}\no[\"@\"] += \"s\"\n",
                "o := {\"@\": 1}\nprint(o[\"@\"][0])\n",
                "print(\"@\" + 1)\n",
                "print(\"@\"[500])\n",
                "print(\"@\"->nope())\n",
            ] {
                v.push(Case::new(format!("print(\"pre\")\n{}", tmpl.replace('@', &name)), 3, format!("diagnostic quoting a name of {} bytes", name.len())));
            }
            if name.is_ascii() {
                v.push(Case::new(format!("print(\"pre\")\nprint({})\n", name), 3, format!("undefined name of {} bytes", name.len())));
                v.push(Case::new(format!("print(\"pre\")\no := {{}}\nprint(o.{})\n", name), 3, format!("missing property of {} bytes", name.len())));
                v.push(Case::new(format!("print(\"pre\")\n{} := 1\n{} := 2\n", name, name), 3, format!("redeclared name of {} bytes", name.len())));
            }
        }
    }
    // hex escapes of every size class before, between and after slots; lexical errors of every kind
    // inside a slot; indices, bounds and pattern targets that read or write the container being
    // assigned to
    for esc in ["\\x41", "\\x7f", "\\x80", "\\xe9", "\\xff", "\\xc3\\xa9", "\\n\\xe9\\r"] {
        for tmpl in ["$\"@${x}\"", "$\"${x}@${x}\"", "$\"@@${x}@\"", "$\"é@${x + \"@\"}\"", "\"@\" + $\"@${x}\""] {
            v.push(Case::new(format!("x := \"v\"\nprint(\"pre\")\ns := {}\nprint(s->len())\nprint(s)\n", tmpl.replace('@', esc)), 3, format!("escape {} in {}", esc, tmpl)));
        }
    }
    for slot in ["99999999999999999999", "\"\\q\"", "\"$\"", "$\"$x\"", "\"\\xZZ\"", "\"\\x4\"", "1 ~ 2", "\"abc", "\\", "x +", "(x", "x)", ""] {
        v.push(Case::new(format!("x := \"v\"\nprint(\"pre\")\nprint($\"a${{{}}}b\")\nprint(\"post\")\n", slot), 3, format!("slot that does not lex or parse: {:?}", slot)));
    }
    for prog in super::evalorder::SELF_TARGET_PROGRAMS {
        v.push(Case::new(prog.to_string(), 3, "targets, indices or bounds that reach the container being assigned".to_string()));
    }
    // every byte slice of strings with multi-byte characters, in every position that takes a string
    for s in ["né", "€", "a😀b", "éé"] {
        let n = s.len();
        for a in 0..=n {
            for b in a..=n {
                if s.is_char_boundary(a) && s.is_char_boundary(b) {
                    continue;
                }
                for usage in [
                    "n := 0\nfor [i, c] in f {\nn += 1\n}\nprint(n)\n", "for c in f {\nprint(c[0])\n}\n", "print(f->len())\n", "print(f + f == f)\n", "print($\"<${f}>\"->len())\n", "o := {f: 1}\nprint(o[f])\n",
                    "o := {}\no[f] = 1\nfor [k, v] in o {\nprint(v)\n}\n", "print([f] == [f])\n", "print(f < \"z\")\n", "print(f[0:1]->len())\n", "print([f, 1])\n", "print({\"k\": f})\n", "x := [f..]\n", "print(f->type())\n", "xs := [1]\nprint(xs[f])\n", "print({\"a\": 1}[f])\n", "{f: q} := {\"a\": 1}\n",
                ] {
                    v.push(Case::new(format!("s := \"{}\"\nf := s[{}:{}]\nprint(\"pre\")\n{}print(\"post\")\n", s, a, b, usage), 3, format!("bytes {}..{} of {:?} used in {:?}", a, b, s, usage.replace('\n', " "))));
                }
            }
        }
    }
    for prog in super::evalorder::deep_print_programs() {
        v.push(Case::new(prog, 3, "a value nested many containers deep, printed".to_string()));
    }
    // `this` as a declared name: parameters, patterns and variables called `this`, reached plainly
    // and through an object
    for decl in ["fn f(this, s) {\nprint(s)\n}", "fn f(s, this) {\nprint(s)\n}", "fn f([this], s) {\nprint(s)\n}", "fn f({this}, s) {\nprint(s)\n}", "fn f(s, ..this) {\nprint(s)\n}", "f := fn (this, s) {\nprint(s)\n}", "fn f(a, s) {\nthis := 1\nprint(s)\n}", "fn f(a, s) {\nfor this in [1] {\nprint(s)\n}\n}", "fn f(a, s) {\n[this] := [1]\nprint(s)\n}"] {
        for call in ["f([1], \"direct\")", "o.f([1], \"via\")", "o[\"f\"]({\"this\": 1}, \"key\")", "g := o.f\ng([1], \"held\")", "l[0]([1], \"item\")", "f({\"this\": 2}, \"direct\")"] {
            v.push(Case::new(format!("{}\no := {{\"f\": f}}\nl := [o.f]\nprint(\"pre\")\n{}\nprint(\"post\")\n", decl, call), 3, format!("`this` declared by {:?}, called as {}", decl.replace('\n', " "), call)));
        }
    }
    for prog in super::evalorder::SELF_READ_PROGRAMS {
        v.push(Case::new(prog.to_string(), 3, "an index, key or bound that reads the container it is applied to".to_string()));
    }
    // text inside slots where a name or number touches a multi-byte character
    for slot in ["x€", "1é", "xé + 1", "x😀x", "é", "\"é\"x", "x.é", "x[€]", "x[\u{ff11}]", "\u{ff11}", "x + \u{b2}", "\u{bd}", "\u{663}", "1\u{ff11}", "x\u{ff11}", "\u{2167}", "\u{1d7ce}"] {
        v.push(Case::new(format!("x := \"v\"\nprint(\"pre\")\nprint($\"a${{{}}}b\")\n", slot), 3, format!("slot text {:?}", slot)));
    }
    // type functions stored in containers and reached through them
    for call in ["t.size()", "t.kind()", "t[\"size\"]()", "u[0]()", "u[1]()", "w := t.size\nw()", "w := u[0]\nw()", "w := \"abc\"->len\nw()", "w := [1]->type\nprint(w())"] {
        v.push(Case::new(format!("t := {{\"size\": \"abc\"->len, \"kind\": [1]->type}}\nu := [\"abc\"->len, 5->type]\nprint(\"pre\")\n{}\nprint(\"post\")\n", call), 3, format!("stored type function {}", call)));
    }
    // multi-byte text around slots, out-of-range slices and indices on strings and lists
    for t in ["é", "€", "😀", "aé", "é€"] {
        for tmpl in ["$\"@${x}\"", "$\"${x}@\"", "$\"@${x}@${x}@\"", "$\"${x + \"@\"}@\"", "$\"@${\"@\"}\""] {
            v.push(Case::new(format!("x := \"v\"\nprint({})\n", tmpl.replace('@', t)), 3, format!("text {:?}", tmpl.replace('@', t))));
        }
        for i in -1..=5 {
            for j in -1..=5 {
                v.push(Case::new(format!("s := \"{}\"\ni := {}\nj := {}\nt := s[i:j]\nprint(t == s)\n", t, i, j), 3, format!("slice {:?} {} {}", t, i, j)));
            }
            v.push(Case::new(format!("s := \"{}\"\ni := {}\nt := s[i]\nprint(t == s)\n", t, i), 3, format!("index {:?} {}", t, i)));
        }
    }
    for n in 0..=3 {
        let l = format!("[{}]", (0..n).map(|k| format!("{}", k)).collect::<Vec<_>>().join(", "));
        for i in -1..=5 {
            for j in -1..=5 {
                v.push(Case::new(format!("xs := {}\ni := {}\nj := {}\nprint(xs[i:j])\n", l, i, j), 3, format!("list slice {} {} {}", n, i, j)));
                v.push(Case::new(format!("xs := {}\ni := {}\nj := {}\nxs[i:j] = [9]\nprint(xs)\n", l, i, j), 3, format!("list slice assign {} {} {}", n, i, j)));
            }
        }
    }
    v
}

// (4) every feature nested inside every other: expression constructors with one hole, composed
// `depth` deep over a few leaves.  The setup declares what the constructors use.
const NEST_SETUP: &str = "fn id(p) {\nreturn p\n}\nfn tag(p) {\nreturn $\"<${p}>\"\n}\nfn wrap(p) {\nreturn [p]\n}\no := {\"m\": fn(p) {\nreturn p\n}, \"k\": [1]}\nxs := [1, [2]]\n";
const NEST_CTX: [&str; 33] = [
    "$\"a${\n@}b\"",
    "$\"a${@\n}b\"",
    "$\"${ @ }${\n@\n}\"",
    "[@]",
    "{\"k\": @}",
    "[@..]",
    "{@..}",
    "@ + @",
    "@ == @",
    "(@)",
    "-@",
    "!@",
    "@ && true",
    "id(@)",
    "tag(@)",
    "wrap(@)",
    "id(@..)",
    "o.m(@)",
    "o[\"m\"](@)",
    "$\"a${@}b\"",
    "$\"${@}${@}\"",
    "@[0]",
    "@.k",
    "@[0:1]",
    "@[:]",
    "xs[@]",
    "o[@]",
    "@->type()",
    "@->len()",
    "fn() {\nreturn @\n}()",
    "0 .. @",
    "[1, @, 3][1]",
    "{\"k\": @}.k",
];
const NEST_LEAVES: [&str; 9] = ["1", "0", "\"k\"", "\"é\"", "[1]", "{\"k\": \"k\"}", "null", "xs", "o"];

fn nesting_cases(tier: Tier) -> Vec<Case> {
    let depth = tier.pick(2usize, 3usize);
    let mut exprs: Vec<String> = NEST_LEAVES.iter().map(|s| s.to_string()).collect();
    for _ in 0..depth {
        let mut next = vec![];
        for c in NEST_CTX {
            for e in &exprs {
                next.push(c.replace('@', e));
            }
        }
        exprs = next;
    }
    let mut v = vec![];
    for e in &exprs {
        v.push(Case::new(format!("{}print(\"pre\")\nr := {}\nprint(r)\nprint(\"post\")\n", NEST_SETUP, e), 4, format!("nesting {}", e.replace('\n', " "))));
    }
    v
}

impl Check for C02 {
    fn id(&self) -> &'static str {
        "C02"
    }

    fn run(&self, ctx: &mut Ctx) -> Result<(), MachineryError> {
        let depth = std::env::var("C02_DEPTH").ok().and_then(|s| s.parse().ok()).unwrap_or(ctx.tier.pick(5usize, 7usize));
        ctx.rule = format!(
            "(1) breadth-first over all histories of <= {} operations from {} alias-shape operations on a, b, c (store a container in itself / in another / both ways, += and element += with the container on both sides, range assignment from itself, collect and spread of itself, loops that rebind or overwrite what they iterate, print, ==, !=, === against itself and wrappers of itself, a function that mutates one parameter and compares it with the other); states merged when the reference heap graphs (cycles included) are isomorphic; (2) 16 binary operators x 24^2 ordered operand pairs over aliased and cyclic shapes, 5 op-assign operators and plain assignment x 9 places x 24 operands, 21 contexts x 24 operands; (3) integer boundary pairs x 5 operators, multi-byte text around slots, out-of-range slices; (4) 30 one-hole expression constructors (literals, spreads, operators, calls of plain / interpolating / wrapping functions, methods, interpolation slots, indexing, ranges, type functions, immediately called function literals) composed 2 deep (thorough: 3) over 9 leaves; oracle: the run ends by completion or diagnostic, never a panic, signal or hang; non-trivial = all",
            depth,
            OPS.len()
        );
        ctx.rule.push_str("; plus comparisons over the boundary grid and between literals, values nested 1..24, 32, 40 and 64 containers deep and printed, `this` declared as a parameter / pattern item / collector / local / loop variable and called plainly and through an object, programs whose index, key or bound reads or writes the container it is applied to");
        let mut g_cyclic = false;
        let stats = bfs(
            ctx,
            &Alpha,
            depth,
            |c, r, o| self.oracle(c, r, o),
            |_ctx, pairs| {
                for (_st, j) in pairs {
                    if j.r.cyclic_touch {
                        g_cyclic = true;
                    }
                }
            },
        )?;
        let m = matrix_cases();
        let n_matrix = m.len();
        ctx.judge(m, |c, r, o| self.oracle(c, r, o))?;
        let b = boundary_cases(ctx.tier);
        let n_boundary = b.len();
        ctx.judge(b, |c, r, o| self.oracle(c, r, o))?;
        let nest = nesting_cases(ctx.tier);
        let n_nest = nest.len();
        ctx.judge(nest, |c, r, o| self.oracle(c, r, o))?;
        ctx.guard("a container reachable from itself was printed or compared", g_cyclic);
        ctx.extra.insert(
            "bounds".into(),
            json!({"max_operations": depth, "completed_depth": stats.completed_depth, "operations": OPS.len(),
                   "levels(depth,generated,kept)": stats.levels, "dead_states": stats.dead, "merged_states": stats.merged,
                   "matrix_cases": n_matrix, "boundary_cases": n_boundary, "nesting_cases": n_nest}),
        );
        Ok(())
    }

    fn oracle(&self, c: &Case, r: &RefOutcome, o: &Outcome) -> Verdict {
        // crashes are reported by the engine before this is called
        if !matches!(o.class, Class::Ok | Class::Err) {
            return viol("crash", format!("{:?}", o.class));
        }
        if !r.cyclic_touch {
            if o.stdout != r.stdout {
                return viol("output", format!("{}: printed {:?}, reference {:?}", c.meta, o.out_str(), String::from_utf8_lossy(&r.stdout)));
            }
            if r.is_ok() != (o.class == Class::Ok) {
                return viol("termination", format!("{}: reference ends {}, run ended {:?} {}", c.meta, if r.is_ok() { "ok" } else { "with an error" }, o.class, o.msg));
            }
        }
        Verdict::Pass
    }
}
