//! C07 — control flow: branches, loops, break/continue/return reach exactly
//! their target.  All nestings of the constructs up to a depth bound, with a
//! jump at the innermost position (bare, or armed to fire on the k-th reach),
//! every truth assignment of the conditions, jumps in sibling positions, and
//! loop bodies that mutate what is being iterated.  Oracle: exact print trace
//! and termination class of the reference interpreter.
use super::Check;
use crate::engine::*;
use crate::refm::eval::RefOutcome;
use crate::subject::{Class, MachineryError, Outcome};
use serde_json::json;

pub struct C07;

#[derive(Clone, Copy, Debug, PartialEq)]
pub enum K {
    Block,
    If(bool),
    /// condition, child in else
    IfElse(bool, bool),
    /// conditions, number of conditions (2|3), arm holding the child (n = the final else)
    ElseIf([bool; 3], u8, u8),
    /// a taken branch with an empty body before the child's `else` (0: if, 1: else-if)
    EmptyTaken(u8),
    /// an empty body in a loop / function around the construct is not special
    IfEmptyThen(bool),
    While,
    ForList,
    ForVar,
    ForStr,
    ForObj,
    ForRange,
    Call,
    CallAnon,
    Method,
}

impl K {
    pub fn is_loop(self) -> bool {
        matches!(self, K::While | K::ForList | K::ForVar | K::ForStr | K::ForObj | K::ForRange)
    }
    pub fn is_call(self) -> bool {
        matches!(self, K::Call | K::CallAnon | K::Method)
    }
    pub fn wrap(self, d: usize, child: &str) -> String {
        let b = |c: bool| if c { "true" } else { "false" };
        match self {
            K::Block => format!("{{\n{}}}\n", child),
            K::If(c) => format!("if {} {{\n{}}}\n", b(c), child),
            K::IfElse(c, in_else) => {
                if in_else {
                    format!("if {} {{\nprint(\"{} then\")\n}} else {{\n{}}}\n", b(c), d, child)
                } else {
                    format!("if {} {{\n{}}} else {{\nprint(\"{} else\")\n}}\n", b(c), child, d)
                }
            }
            K::ElseIf(conds, n, arm) => {
                let mut s = String::new();
                for i in 0..n as usize {
                    if i > 0 {
                        s.push_str(" else ");
                    }
                    s.push_str(&format!("if {} {{\n", b(conds[i])));
                    if arm as usize == i {
                        s.push_str(child);
                    } else {
                        s.push_str(&format!("print(\"{} arm{}\")\n", d, i));
                    }
                    s.push('}');
                }
                s.push_str(" else {\n");
                if arm == n {
                    s.push_str(child);
                } else {
                    s.push_str(&format!("print(\"{} else\")\n", d));
                }
                s.push_str("}\n");
                s
            }
            K::EmptyTaken(0) => format!("if true {{\n}} else {{\n{}}}\n", child),
            K::EmptyTaken(_) => format!("if false {{\nprint(\"{} no\")\n}} else if true {{\n}} else {{\n{}}}\n", d, child),
            K::IfEmptyThen(c) => format!("if {} {{\n}}\n{}", b(c), child),
            K::While => format!(
                "w{d} := 0\nwhile w{d} < 3 {{\nw{d} += 1\nprint(w{d})\n{child}}}\n",
                d = d,
                child = child
            ),
            K::ForList => format!("for e{d} in [\"a\", \"b\", \"c\"] {{\nprint(e{d})\n{child}}}\n", d = d, child = child),
            K::ForVar => format!(
                "xs{d} := [7, 8, 9]\nfor [i{d}, v{d}] in xs{d} {{\nprint(i{d})\nprint(v{d})\n{child}}}\n",
                d = d,
                child = child
            ),
            K::ForStr => format!("for e{d} in \"xyz\" {{\nprint(e{d})\n{child}}}\n", d = d, child = child),
            K::ForObj => format!(
                "for [k{d}, v{d}] in {{\"b\": 2, \"a\": 1, \"c\": 3}} {{\nprint(k{d})\nprint(v{d})\n{child}}}\n",
                d = d,
                child = child
            ),
            K::ForRange => format!(
                "for [i{d}, v{d}] in 5 .. 8 {{\nprint(i{d})\nprint(v{d})\n{child}}}\n",
                d = d,
                child = child
            ),
            K::Call => format!(
                "fn f{d}() {{\nprint(\"{d} in\")\n{child}print(\"{d} out\")\nreturn \"r{d}\"\n}}\nprint(f{d}())\n",
                d = d,
                child = child
            ),
            K::CallAnon => format!(
                "g{d} := fn () {{\nprint(\"{d} in\")\n{child}print(\"{d} out\")\n}}\nprint(g{d}())\n",
                d = d,
                child = child
            ),
            K::Method => format!(
                "o{d} := {{\"m\": fn () {{\nprint(\"{d} in\")\n{child}print(\"{d} out\")\nreturn \"m{d}\"\n}}}}\nprint(o{d}.m())\n",
                d = d,
                child = child
            ),
        }
    }
}

pub fn constructs(full: bool) -> Vec<K> {
    let mut v = vec![K::Block, K::If(true), K::If(false)];
    for c in [true, false] {
        for e in [false, true] {
            v.push(K::IfElse(c, e));
        }
    }
    for c1 in [true, false] {
        for c2 in [true, false] {
            for arm in 0..=2u8 {
                v.push(K::ElseIf([c1, c2, false], 2, arm));
            }
        }
    }
    if full {
        for c1 in [true, false] {
            for c2 in [true, false] {
                for c3 in [true, false] {
                    for arm in 0..=3u8 {
                        v.push(K::ElseIf([c1, c2, c3], 3, arm));
                    }
                }
            }
        }
    } else {
        // three-condition chains: the child's arm selected, and one assignment where it is not
        v.push(K::ElseIf([false, false, true], 3, 2));
        v.push(K::ElseIf([false, false, false], 3, 3));
        v.push(K::ElseIf([false, true, true], 3, 1));
        v.push(K::ElseIf([true, true, true], 3, 0));
        v.push(K::ElseIf([false, true, false], 3, 2));
        v.push(K::ElseIf([true, false, false], 3, 3));
    }
    v.extend_from_slice(&[
        K::EmptyTaken(0),
        K::EmptyTaken(1),
        K::IfEmptyThen(true),
        K::While,
        K::ForList,
        K::ForVar,
        K::ForStr,
        K::ForObj,
        K::ForRange,
        K::Call,
        K::CallAnon,
        K::Method,
    ]);
    v
}

pub fn core_constructs() -> Vec<K> {
    vec![
        K::Block,
        K::If(true),
        K::IfElse(false, true),
        K::ElseIf([false, true, false], 2, 1),
        K::ElseIf([false, false, false], 3, 3),
        K::While,
        K::ForList,
        K::ForObj,
        K::Call,
        K::CallAnon,
    ]
}

pub fn jumps() -> Vec<String> {
    let mut v = vec![String::new()];
    for j in ["break", "continue", "return \"v\""] {
        v.push(format!("{}\n", j));
        for k in 1..=3 {
            v.push(format!("if arm({}) {{\n{}\n}}\n", k, j));
        }
    }
    v
}

pub const PRELUDE: &str = "n := 0\nfn arm(k) {\nn = n + 1\nreturn n == k\n}\n";

/// program for a chain of constructs with `inner` at the innermost position and optional
/// sibling statements (level, before?, statement)
pub fn program(chain: &[K], inner: &str, sibling: Option<(usize, bool, &str)>) -> String {
    fn level(chain: &[K], d: usize, inner: &str, sibling: Option<(usize, bool, &str)>) -> String {
        if d == chain.len() {
            return format!("print(\"in\")\n{}print(\"after\")\n", inner);
        }
        let child = level(chain, d + 1, inner, sibling);
        // `t` is declared at every level: each construct opens a new scope, so after the
        // construct the level's own `t` must be visible again
        let mut s = format!("t := \"L{}\"\nprint(\"{} pre\")\n", d, d);
        let mut body = String::new();
        if let Some((l, before, st)) = sibling {
            if l == d && before {
                body.push_str(st);
            }
        }
        body.push_str(&child);
        if let Some((l, before, st)) = sibling {
            if l == d && !before {
                body.push_str(st);
            }
        }
        s.push_str(&chain[d].wrap(d, &body));
        s.push_str(&format!("print(\"{} post\")\nprint(t)\n", d));
        s
    }
    format!("{}{}print(\"end\")\n", PRELUDE, level(chain, 0, inner, sibling))
}

fn v_push(v: &mut Vec<(&'static str, String)>, src: String) {
    v.push(("what for binds", src));
}

fn mutating_bodies() -> Vec<(&'static str, String)> {
    let mut v: Vec<(&'static str, String)> = vec![];
    let lists = [
        ("overwrite later element", "xs := [1, 2, 3, 4]\nfor [i, x] in xs {\nprint(x)\nif i < 3 {\nxs[i + 1] = x * 10\n}\n}\nprint(xs)\n"),
        ("overwrite range", "xs := [1, 2, 3, 4]\nfor [i, x] in xs {\nprint(x)\nif i == 0 {\nxs[1:] = [7, 8, 9]\n}\n}\nprint(xs)\n"),
        ("overwrite earlier element", "xs := [1, 2, 3]\nfor [i, x] in xs {\nprint(x)\nxs[0] = 99\n}\nprint(xs)\n"),
        ("append by rebinding", "xs := [1, 2, 3]\nfor [i, x] in xs {\nprint(x)\nxs += [x]\n}\nprint(xs)\n"),
        ("reassign iterated variable", "xs := [1, 2, 3]\nfor [i, x] in xs {\nprint(x)\nxs = []\n}\nprint(xs)\n"),
        ("alias mutation", "xs := [1, 2, 3]\nys := xs\nfor [i, x] in xs {\nprint(x)\nys[2] = 0\n}\nprint(xs)\n"),
        ("nested element mutation is shared", "xs := [[1], [2], [3]]\nfor [i, x] in xs {\nprint(x[0])\nif i < 2 {\nxs[i + 1][0] = 50\n}\n}\n"),
        ("object add key", "o := {\"b\": 2, \"a\": 1}\nfor [k, v] in o {\nprint(k)\nprint(v)\no.c = 3\no[\"0\"] = 0\n}\nprint(o)\n"),
        ("object overwrite later key", "o := {\"b\": 2, \"a\": 1, \"c\": 3}\nfor [k, v] in o {\nprint(k)\nprint(v)\no.c = 30\no.b = 20\n}\nprint(o)\n"),
        ("object reassign", "o := {\"b\": 2, \"a\": 1}\nfor [k, v] in o {\nprint(k)\no = {}\n}\nprint(o)\n"),
        ("string rebinding", "s := \"abc\"\nfor [i, c] in s {\nprint(c)\ns += c\n}\nprint(s)\n"),
        ("pair is fresh per iteration", "ps := []\nfor p in [5, 6] {\nps += [p]\n}\nps[0][1] = 50\nprint(ps)\n"),
        ("range with non-zero start", "for [i, v] in 3 .. 6 {\nprint(i)\nprint(v)\n}\n"),
        ("range through variable", "r := 2 .. 5\nfor [i, v] in r {\nprint(i)\nprint(v)\n}\nfor e in -2 .. 1 {\nprint(e)\n}\n"),
        ("closures collected in a for loop", "fs := []\nfor [i, v] in [10, 20, 30] {\nfs += [fn () {\nreturn [i, v]\n}]\n}\nprint(fs[0]())\nprint(fs[1]())\nprint(fs[2]())\n"),
        ("closures collected in a for loop that continues", "fs := []\nfor [i, v] in [10, 20, 30] {\nd := v * 2\nfs += [fn () {\nreturn [i, d]\n}]\nif i == 1 {\ncontinue\n}\nd += 1\n}\nprint(fs[0]())\nprint(fs[1]())\nprint(fs[2]())\n"),
        ("closures collected in a for loop that breaks", "fs := []\nfor [i, v] in [10, 20, 30] {\nd := v\nfs += [fn () {\nreturn d\n}]\nif i == 1 {\nbreak\n}\n}\nprint(fs[0]())\nprint(fs[1]())\n"),
        ("closures collected in a while loop", "fs := []\nn := 0\nwhile n < 3 {\nn += 1\nd := n * 10\nfs += [fn () {\nd += 1\nreturn d\n}]\n}\nprint(fs[0]())\nprint(fs[2]())\nprint(fs[0]())\n"),
        ("function defined in a loop body", "for [i, v] in [1, 2] {\nfn double() {\nreturn v * 2\n}\nprint(double())\n}\n"),
        ("range bound changed by the body", "n := 3\nfor [i, v] in 0 .. n {\nprint(v)\nn += 2\n}\nprint(n)\nm := 0\nfor v in m .. 3 {\nm += 1\nprint([v, m])\n}\n"),
        ("range bound is a call", "calls := 0\nfn hi() {\ncalls += 1\nreturn 3\n}\nfor v in 0 .. hi() {\nprint(v)\n}\nprint(calls)\nfor [i, v] in hi() - 3 .. hi() - 1 {\nprint(v)\n}\nprint(calls)\n"),
        ("iterable is a call", "calls := 0\nfn items() {\ncalls += 1\nreturn [1, 2, 3]\n}\nfor v in items() {\nprint(v)\n}\nprint(calls)\nfor [k, v] in {\"a\": items()} {\nprint(v)\n}\nprint(calls)\nfor c in $\"${items()[0]->type()}\" {\nprint(c)\n}\nprint(calls)\n"),
        ("range bound shrinks", "n := 5\nfor v in 0 .. n {\nn = 1\nprint(v)\n}\nprint(n)\n"),
        ("range bound read from an element", "b := [4]\nfor v in 1 .. b[0] {\nb[0] = 2\nprint(v)\n}\nprint(b)\no := {\"hi\": 2}\nfor v in 0 .. o.hi {\no.hi += 5\nprint(v)\n}\nprint(o)\n"),
        ("range bounds in a function", "fn upto(n) {\nout := []\nfor v in 0 .. n {\nn -= 1\nout += [v]\n}\nreturn [out, n]\n}\nprint(upto(4))\n"),
        ("return null in a loop that ends the function", "fn first(xs) {\nfor x in xs {\nprint(x)\nreturn null\n}\n}\nprint(first([1, 2, 3]))\nfn firstw() {\nn := 0\nwhile true {\nn += 1\nprint(n)\nreturn null\n}\n}\nprint(firstw())\n"),
        ("return null under if in a loop that ends the function", "fn below(xs, lim) {\nfor [i, x] in xs {\nif x < lim {\nprint(x)\nreturn null\n} else {\nprint(\"skip\")\n}\n}\n}\nprint(below([5, 1, 0, 2], 3))\ng := fn (xs) {\n{\nfor x in xs {\n{\nprint(x)\nreturn null\n}\n}\n}\n}\nprint(g([7, 8]))\n"),
        ("bare values returned from a loop that ends the function", "fn f0(xs) {\nfor x in xs {\nprint(x)\nreturn 0\n}\n}\nfn ff(xs) {\nfor x in xs {\nprint(x)\nreturn false\n}\n}\nfn fe(xs) {\nfor x in xs {\nprint(x)\nreturn []\n}\n}\nprint([f0([1, 2]), ff([3, 4]), fe([5, 6])])\nfn nested(rows) {\nfor r in rows {\nfor c in r {\nprint(c)\nreturn null\n}\n}\n}\nprint(nested([[1, 2], [3]]))\n"),
        ("empty iterables", "for e in [] {\nprint(\"no\")\n}\nfor e in \"\" {\nprint(\"no\")\n}\nfor e in {} {\nprint(\"no\")\n}\nfor e in 3 .. 3 {\nprint(\"no\")\n}\nprint(\"done\")\n"),
    ];
    for (n, s) in lists {
        v.push((n, s.to_string()));
    }
    // what `for` binds for every kind of iterable: the pair [key, value] with the element / byte /
    // property at that key, in order
    for src in ["[]", "[7]", "[7, [8], \"s\"]", "\"\"", "\"abc\"", "\"é\"", "\"a€b\"", "\"😀!\"", "\"\\x7f\\n\"", "{}", "{\"b\": 1, \"a\": [2]}", "{\"é\": 1, \"z\": 2, \"\": 3, \"Z\": 4}", "{\"10\": 1, \"9\": 2, \"1\": 3, \"2\": 4, \"-1\": 5, \"a\": 6, \"01\": 7}", "0 .. 3", "-2 .. 0"] {
        let is_str = src.starts_with('"');
        let is_obj = src.starts_with('{');
        for target in ["p", "[k, v]", "[_, v]", "[k, _]", "[k, ..r]", "[..r]", "[_, ..r]", "w[0]", "ho.t", "[w[0], w[1]]", "[ho.a, ho.b]"] {
            let mut b = format!("s := {}\nn := 0\nacc := \"\"\nfor {} in s {{\nn += 1\n", src, target);
            if !["p", "[k, v]", "[_, v]", "[k, _]"].contains(&target) {
                // collecting targets and targets that are existing places: print what was bound
                let shown = match target {
                    "[k, ..r]" => "print([k, r])",
                    "[..r]" | "[_, ..r]" => "print(r)",
                    "w[0]" => "print(w[0])",
                    "ho.t" => "print(ho.t)",
                    "[w[0], w[1]]" => "print(w)",
                    _ => "print([ho.a, ho.b])",
                };
                if is_str {
                    continue; // byte values of multi-byte text cannot be printed
                }
                v_push(&mut v, format!("s := {}\nw := [0, 0, 0]\nho := {{\"a\": 0, \"b\": 0, \"t\": 0}}\nn := 0\nfor {} in s {{\nn += 1\n{}\n}}\nprint(n)\nprint(w)\nprint(ho)\n", src, target, shown));
                continue;
            }
            let (k, val) = match target {
                "p" => ("p[0]", "p[1]"),
                "[k, v]" => ("k", "v"),
                "[_, v]" => ("", "v"),
                _ => ("k", ""),
            };
            if !k.is_empty() {
                b.push_str(&format!("print({})\n", k));
            }
            if !val.is_empty() {
                if is_str {
                    b.push_str(&format!("acc += {v}\n", v = val));
                } else {
                    b.push_str(&format!("print({})\n", val));
                }
            }
            if !k.is_empty() && !val.is_empty() && !is_obj {
                b.push_str(&format!("print({} == s[{}])\n", val, k));
            }
            if !k.is_empty() && !val.is_empty() && is_obj {
                b.push_str(&format!("print({} == s[{}])\n", val, k));
            }
            b.push_str("}\nprint(n)\n");
            if is_str && !val.is_empty() {
                b.push_str("print(acc == s)\nprint(acc)\n");
            }
            v_push(&mut v, b);
        }
    }
    // a call that runs off the end of its body yields null, whatever the last statement was
    for body in ["g()", "g()\n", "1 + 2", "x", "[1]", "{\"k\": 1}", "x = 5", "y := 6", "if true {\ng()\n}", "for e in [1] {\ng()\n}", "{\ng()\n}", "print(g())", "fn inner() {\nreturn 3\n}", "g() + g()", "$\"${s}\""] {
        for head in ["fn f() {", "f := fn () {", "o := {\"f\": fn () {"] {
            let (close, call) = if head.starts_with("o :=") { ("}}", "o.f()") } else { ("}", "f()") };
            v_push(&mut v, format!("x := 1\ns := \"s\"\nfn g() {{\nreturn 7\n}}\n{}\n{}\n{}\nr := {}\nprint(r)\nprint([{}])\nprint({} == null)\n", head, body, close, call, call, call));
        }
    }
    // the condition of a `while` is evaluated again before every iteration, whatever kind of
    // expression it is
    for cond in [
        "s < 3", "3 > s", "$\"${t}\" == \"run\"", "\"run\" == t", "$\"${t}${t}\" == \"runrun\"", "f()", "xs[0] < 3", "o.n < 3", "o[\"n\"] < 3", "s < 3 && true", "true && s < 3", "[s][0] < 3", "(s < 3)",
        "{\"k\": s}.k < 3", "s * 1 < 3", "t->len() == 3", "g(s)", "s < lim", "[] == ys", "s != 3",
    ] {
        v_push(&mut v, format!(
            "s := 0\nt := \"run\"\nxs := [0]\nys := []\no := {{\"n\": 0}}\nlim := 3\nfn f() {{\nreturn s < 3\n}}\nfn g(p) {{\nreturn p < 3\n}}\nn := 0\nwhile {} {{\nn += 1\ns += 1\nxs[0] += 1\no.n += 1\nif s >= 3 {{\nt = \"stop!\"\nys += [1]\n}}\nif n > 10 {{\nbreak\n}}\n}}\nprint(n)\n",
            cond
        ));
    }
    // an endless-looking loop is left by a jump wherever the jump stands, and what follows the loop runs
    for exit in [
        "if i >= 3 {\nbreak\n}",
        "if i < 3 {\ncontinue\n} else {\nbreak\n}",
        "if i < 2 {\n} else if i < 3 {\n} else {\nbreak\n}",
        "if i < 3 {\n} else {\n{\nbreak\n}\n}",
        "if i < 3 {\n} else {\nif true {\nbreak\n}\n}",
        "for e in [1] {\nif i >= 3 {\nbreak\n}\n}\nif i >= 4 {\nbreak\n}",
        "if i >= 3 {\nreturn i * 10\n}",
        "if i < 3 {\n} else {\nreturn i * 10\n}",
        "k := fn () {\nreturn i >= 3\n}\nif k() {\nbreak\n}",
    ] {
        for head in ["while true {", "while 1 == 1 {", "while i < 100 {", "for e in 0 .. 50 {"] {
            v_push(&mut v, format!("fn lp() {{\ni := 0\n{}\ni += 1\n{}\n}}\nprint(\"after\")\nreturn i\n}}\nprint(lp())\nprint(\"end\")\n", head, exit));
            if !exit.contains("return") {
                v_push(&mut v, format!("i := 0\n{}\ni += 1\n{}\n}}\nprint(\"after\")\nprint(i)\n", head, exit));
            }
        }
    }
    // while: the condition is re-evaluated before every iteration, also after continue
    for k in 0..=4 {
        v.push((
            "while condition after continue",
            format!("i := 0\nwhile i < 3 {{\ni += 1\nif i == {} {{\ncontinue\n}}\nprint(i)\n}}\nprint(i)\n", k),
        ));
        v.push((
            "while bound changes",
            format!("i := 0\nm := 3\nwhile i < m {{\ni += 1\nif i == {} {{\nm = 5\n}}\nprint(i)\n}}\nprint(m)\n", k),
        ));
        v.push((
            "while break at",
            format!("i := 0\nwhile true {{\ni += 1\nif i == {} {{\nbreak\n}}\nif i > 5 {{\nbreak\n}}\nprint(i)\n}}\nprint(i)\n", k),
        ));
    }
    // call that runs off its end yields null; return value passes through
    v.push(("call runs off end", "fn f() {\nprint(1)\n}\nprint(f())\nfn g() {\nreturn [1]\nprint(2)\n}\nprint(g())\n".to_string()));
    v
}

impl Check for C07 {
    fn id(&self) -> &'static str {
        "C07"
    }

    fn run(&self, ctx: &mut Ctx) -> Result<(), MachineryError> {
        let thorough = ctx.tier == Tier::Thorough;
        let ks = constructs(thorough);
        let core = core_constructs();
        let js = jumps();
        let max_depth = 3;
        ctx.rule = format!(
            "all chains of depth 1..{} over {} construct variants (bare block, if with each truth value, if/else x child arm, else-if chains of 2 and 3 conditions x truth assignments x child arm, while, for over list literal / list variable / string / object / range, named / anonymous / method call){} x {} innermost statements (none, break / continue / return bare and armed to fire on the 1st, 2nd, 3rd reach); the same chains up to depth {} with the jump in a sibling position before / after the child at every level; {} loop bodies that mutate the iterated value; non-trivial = a jump statement is present",
            max_depth,
            ks.len(),
            if thorough { format!(" plus depth 4 over {} core constructs", core.len()) } else { String::new() },
            js.len(),
            ctx.tier.pick(2, 3),
            mutating_bodies().len()
        );
        ctx.rule.push_str("; iterables and range bounds evaluated once (bounds changed by the body, bounds and iterables that are calls, bounds read from elements and properties)");
        let mut batch: Vec<Case> = vec![];
        let mut skeletons = 0u64;
        let mut seen_pairs: std::collections::HashSet<(u8, u8)> = std::collections::HashSet::new();
        let flush = |ctx: &mut Ctx, batch: &mut Vec<Case>, this: &C07| -> Result<(), MachineryError> {
            if batch.is_empty() {
                return Ok(());
            }
            let b = std::mem::take(batch);
            ctx.judge(b, |c, r, o| this.oracle(c, r, o))?;
            Ok(())
        };
        // family 1: jump at the innermost position
        for depth in 1..=(if thorough { 4 } else { 3 }) {
            let set: &Vec<K> = if depth == 4 { &core } else { &ks };
            let n = set.len();
            let total = n.pow(depth as u32);
            for idx in 0..total {
                let mut chain = Vec::with_capacity(depth);
                let mut x = idx;
                for _ in 0..depth {
                    chain.push(set[x % n]);
                    x /= n;
                }
                skeletons += 1;
                for (ji, j) in js.iter().enumerate() {
                    let mut c = Case::new(program(&chain, j, None), 1, format!("chain {:?} inner {}", chain, ji));
                    c.nontrivial = ji != 0;
                    batch.push(c);
                    if ji != 0 {
                        let jk = ((ji - 1) / 4) as u8;
                        seen_pairs.insert((kind_code(*chain.last().unwrap()), jk));
                    }
                }
                if batch.len() >= 60_000 {
                    flush(ctx, &mut batch, self)?;
                    if ctx.over_cap() {
                        break;
                    }
                }
            }
            if ctx.capped {
                break;
            }
        }
        flush(ctx, &mut batch, self)?;
        // family 2: jump in a sibling position
        let sib_depth = ctx.tier.pick(2usize, 3usize);
        for depth in 1..=sib_depth {
            let set: &Vec<K> = if depth == 3 { &core } else { &ks };
            let n = set.len();
            for idx in 0..n.pow(depth as u32) {
                let mut chain = Vec::with_capacity(depth);
                let mut x = idx;
                for _ in 0..depth {
                    chain.push(set[x % n]);
                    x /= n;
                }
                for level in 0..depth {
                    for before in [true, false] {
                        for (ji, j) in js.iter().enumerate().skip(1) {
                            batch.push(Case::new(
                                program(&chain, "", Some((level, before, j))),
                                2,
                                format!("chain {:?} sibling level {} before {} stmt {}", chain, level, before, ji),
                            ));
                        }
                    }
                }
                if batch.len() >= 60_000 {
                    flush(ctx, &mut batch, self)?;
                }
            }
        }
        flush(ctx, &mut batch, self)?;
        // family 3: bodies that mutate the iterated value, loop-condition re-evaluation
        for (name, src) in mutating_bodies() {
            batch.push(Case::new(src, 3, format!("mutating body: {}", name)));
        }
        // jumps outside any loop / function at each depth of non-loop constructs
        for j in ["break\n", "continue\n", "return 1\n"] {
            batch.push(Case::new(format!("print(\"a\")\n{}print(\"b\")\n", j), 3, "top-level jump".to_string()));
            batch.push(Case::new(format!("print(\"a\")\n{{\n{{\n{}}}\n}}\nprint(\"b\")\n", j), 3, "top-level jump in blocks".to_string()));
            batch.push(Case::new(format!("print(\"a\")\nif true {{\n{}}}\nprint(\"b\")\n", j), 3, "top-level jump in if".to_string()));
        }
        // conditions are evaluated lazily, in order, each at most once per decision
        for c in super::evalorder::cases(3) {
            if c.meta.contains("`if ") || c.meta.contains("`while ") || c.meta.contains("`for ") || c.meta.contains("&&") || c.meta.contains("||") {
                batch.push(c);
            }
        }
        flush(ctx, &mut batch, self)?;
        ctx.guard("every construct x jump kind pair occurred", seen_pairs.len() >= 13 * 3);
        ctx.extra.insert(
            "bounds".into(),
            json!({"construct_variants": ks.len(), "core_constructs": core.len(), "max_depth": if thorough {4} else {3},
                   "innermost_statements": js.len(), "skeletons": skeletons, "sibling_depth": sib_depth}),
        );
        Ok(())
    }

    fn oracle(&self, c: &Case, r: &RefOutcome, o: &Outcome) -> Verdict {
        let ref_ok = r.is_ok();
        if o.stdout != r.stdout {
            return viol(
                "trace",
                format!("print trace differs from the documented control flow ({}): got {:?}, reference {:?}", c.meta, o.out_str(), String::from_utf8_lossy(&r.stdout)),
            );
        }
        if ref_ok != (o.class == Class::Ok) {
            return viol(
                "termination",
                format!("{}: reference ends {}, run ended {:?} {}", c.meta, if ref_ok { "ok" } else { "with an error" }, o.class, o.msg),
            );
        }
        Verdict::Pass
    }
}

fn kind_code(k: K) -> u8 {
    match k {
        K::Block => 0,
        K::If(_) => 1,
        K::IfElse(..) => 2,
        K::ElseIf(_, 2, _) => 3,
        K::ElseIf(..) => 4,
        K::EmptyTaken(_) => 14,
        K::IfEmptyThen(_) => 15,
        K::While => 5,
        K::ForList => 6,
        K::ForVar => 7,
        K::ForStr => 8,
        K::ForObj => 9,
        K::ForRange => 10,
        K::Call => 11,
        K::CallAnon => 12,
        K::Method => 13,
    }
}
