//! C03 — the front end accepts or cleanly rejects every input, before running
//! anything.  (1) All strings up to length N over an alphabet of every
//! character class the scanner distinguishes, run bare and after a first
//! statement that prints.  (2) Deviation-bounded: every byte-level and
//! token-level single edit (truncate, delete, duplicate, insert, replace,
//! swap) of a corpus of programs.  (3) Invalid UTF-8 through the CLI.
//! Oracle: the clean-rejection contract of the statement (never a panic or a
//! hang; a rejected file prints nothing, reports one line `L:C: message` with
//! L <= lines + 1) and agreement with the reference front end on whether the
//! file is a program at all.
use super::{parse_pos, Check};
use crate::engine::*;
use crate::layout::corpus;
use crate::refm::eval::RefOutcome;
use crate::refm::lex::{lex_raw, Tok};
use crate::refm::parse::parse_prog;
use crate::subject::{Class, MachineryError, Mode, Outcome};
use serde_json::json;

pub struct C03;

pub const SIGMA: [&str; 28] = [
    "a", "1", "_", "\"", "$", "\\", "{", "}", "(", ")", "[", "]", ".", ",", ":", ";", "=", "!", "&", "|", "-", ">", "+", "#", "x",
    "\n", " ", "é",
];
const SIGMA_SMALL: [&str; 12] = ["a", "1", "\"", "$", "\\", "{", ")", ".", "=", "!", "\n", "é"];

const T_BARE: u32 = 1;
const T_PREFIXED: u32 = 2;
const T_AST: u32 = 3;

fn count_lines(src: &str) -> u32 {
    let n = src.matches('\n').count() as u32;
    if src.ends_with('\n') {
        n
    } else {
        n + 1
    }
}

fn front_contract(c: &Case, o: &Outcome, ran_marker: bool) -> Verdict {
    // called when nothing of the program ran
    if o.class != Class::Err {
        return viol("contract", format!("{:?}: nothing ran but the run ended {:?}", c.src, o.class));
    }
    if ran_marker || !o.stdout.is_empty() {
        return viol("output-with-front-end-error", format!("{:?}: a lexical / syntax diagnostic and output occurred together: stdout {:?}, diagnostic {:?}", c.src, o.out_str(), o.msg));
    }
    // one diagnostic: a message may quote a token that contains a line break, but no
    // second located line and no stack trace may follow
    for l in o.msg.lines().skip(1) {
        if l.starts_with("case.sd:") || l == "Stacktrace:" {
            return viol("one-diagnostic", format!("{:?}: more than one diagnostic: {:?}", c.src, o.msg));
        }
    }
    match parse_pos(&o.msg) {
        Some(((l, _c), rest)) => {
            let lines = count_lines(&c.src);
            if l < 1 || l > lines + 1 {
                return viol("line-bound", format!("{:?}: reported line {} exceeds the {} lines of the file + 1: {:?}", c.src, l, lines, o.msg));
            }
            if rest.trim().is_empty() {
                return viol("format", format!("{:?}: empty message: {:?}", c.src, o.msg));
            }
            Verdict::Pass
        }
        None => viol("format", format!("{:?}: the diagnostic is not `<line>:<col>: <message>`: {:?}", c.src, o.msg)),
    }
}

impl Check for C03 {
    fn id(&self) -> &'static str {
        "C03"
    }

    fn run(&self, ctx: &mut Ctx) -> Result<(), MachineryError> {
        let max_len = ctx.tier.pick(4usize, 5usize);
        let corp = corpus();
        ctx.rule = format!(
            "(1) all strings of length 0..{} over the {}-character alphabet {:?} (every character class of the scanner, every first character of a multi-character symbol, one multi-byte character), each run bare and after `print(\"S\")` on the first line; (2) deviation bound k = 1 over a corpus of {} programs: truncation at every byte offset, deletion and duplication of every character, insertion before and replacement of every character by each of {} characters, deletion / duplication / swap of adjacent tokens, parsed with the real front end (hook ast) and, where the reference says the text is rejected or terminates, run; (2c) 20 characters outside the usual classes (NUL, controls, non-ASCII spaces and line separators, byte-order mark, combining and 4-byte characters, non-ASCII digits, numerals and letters) inserted at every offset of the short corpus programs; (2d) an unexpected token of every kind with 0..90 characters of ASCII / multi-byte content in 6 contexts; (2e) every string of length 0..3 over 13 characters as the text of an interpolation slot, and literal-only arithmetic over 10 edge literals, run to completion or a located diagnostic; (3b) files of more than 1, 2 and 5 MiB through the CLI, valid and with a syntax error at the end; (3) 1- and 2-byte invalid UTF-8 sequences inserted at every offset of short scripts through the CLI; non-trivial = every input that is not a program of the reference grammar",
            max_len,
            SIGMA.len(),
            SIGMA.join(""),
            corp.len(),
            ctx.tier.pick(SIGMA_SMALL.len(), SIGMA.len())
        );
        ctx.rule.push_str("; (3c) through the command itself: every string of length 0..2 (thorough 0..3) over the alphabet and every truncation of the short corpus programs, as written and with one and two final line breaks");
        let mut batch: Vec<Case> = vec![];
        let mut n_strings = 0u64;
        let n = SIGMA.len();
        for len in 0..=max_len {
            for idx in 0..n.pow(len as u32) {
                let mut s = String::new();
                let mut x = idx;
                for _ in 0..len {
                    s.push_str(SIGMA[x % n]);
                    x /= n;
                }
                n_strings += 1;
                let mut c = Case::new(s.clone(), T_BARE, String::new());
                c.no_ref = true;
                c.nontrivial = parse_prog(&s).is_err();
                batch.push(c);
                if len <= 4 || idx % 7 == 0 {
                    let mut c2 = Case::new(format!("print(\"S\")\n{}", s), T_PREFIXED, String::new());
                    c2.no_ref = true;
                    c2.nontrivial = c2.src.len() > 11;
                    batch.push(c2);
                }
                if batch.len() >= 200_000 {
                    ctx.judge(std::mem::take(&mut batch), |c, r, o| self.oracle(c, r, o))?;
                    if ctx.over_cap() {
                        break;
                    }
                }
            }
        }
        ctx.judge(std::mem::take(&mut batch), |c, r, o| self.oracle(c, r, o))?;
        // (2) deviations of the corpus
        let sigma: Vec<&str> = if ctx.tier == Tier::Thorough { SIGMA.to_vec() } else { SIGMA_SMALL.to_vec() };
        let max_bytes = ctx.tier.pick(110usize, 400usize);
        let mut n_dev = 0u64;
        let mut progs = 0u64;
        for (_name, src0) in &corp {
            if src0.len() > max_bytes {
                continue;
            }
            progs += 1;
            let src = format!("print(\"S\")\n{}", src0);
            let base = 11usize; // the first line stays intact
            let mut variants: Vec<String> = vec![];
            let idxs: Vec<(usize, char)> = src.char_indices().filter(|(i, _)| *i >= base).collect();
            for (i, ch) in &idxs {
                let end = i + ch.len_utf8();
                variants.push(src[..*i].to_string()); // truncate here
                variants.push(format!("{}{}", &src[..*i], &src[end..])); // delete
                variants.push(format!("{}{}{}", &src[..end], ch, &src[end..])); // duplicate
                for s in &sigma {
                    variants.push(format!("{}{}{}", &src[..*i], s, &src[*i..])); // insert
                    variants.push(format!("{}{}{}", &src[..*i], s, &src[end..])); // replace
                }
            }
            // token-level edits
            let (toks, _) = lex_raw(&src);
            let toks: Vec<_> = toks.into_iter().filter(|t| t.start >= base).collect();
            for w in 0..toks.len() {
                let t = &toks[w];
                variants.push(format!("{}{}", &src[..t.start], &src[t.end..])); // delete token
                variants.push(format!("{}{} {}{}", &src[..t.start], &src[t.start..t.end], &src[t.start..t.end], &src[t.end..])); // duplicate
                if let Some(u) = toks.get(w + 1) {
                    if t.tok != Tok::End || u.tok != Tok::End {
                        variants.push(format!("{}{}{}{}{}", &src[..t.start], &src[u.start..u.end], &src[t.end..u.start], &src[t.start..t.end], &src[u.end..]));
                    }
                }
            }
            for v in variants {
                n_dev += 1;
                let mut c = Case::new(v, T_AST, String::new());
                c.mode = Mode::Ast;
                c.no_ref = true;
                batch.push(c);
            }
            if batch.len() >= 200_000 {
                self.run_dev_batch(ctx, std::mem::take(&mut batch))?;
                if ctx.over_cap() {
                    break;
                }
            }
        }
        self.run_dev_batch(ctx, std::mem::take(&mut batch))?;
        // (2a) integer literals around the representable range, in every sign context
        for lit in ["9223372036854775807", "9223372036854775808", "9223372036854775809", "9_223_372_036_854_775_808", "18446744073709551615", "18446744073709551616", "18446744073709551617", "20000000000000000000", "99999999999999999999", "0000000000000000000000001", "1_", "1__0", "000"] {
            for ctxt in ["x := @\n", "x := -@\n", "x := - @\n", "x := 1 -@\n", "x := 1 - @\n", "x := [-@]\n", "x := (-@)\n", "f(-@)\n", "x := y -@\n", "x := -@ - 1\n", "x := 0 .. -@\n", "x[-@] = 1\n"] {
                let body = ctxt.replace('@', lit);
                let mut c = Case::new(format!("print(\"S\")\n{}", body), T_AST, String::new());
                c.mode = Mode::Ast;
                c.no_ref = true;
                batch.push(c);
                let mut c = Case::new(format!("print(\"S\")\n{}", body), T_PREFIXED, String::new());
                c.no_ref = true;
                batch.push(c);
            }
        }
        // (2c) characters outside the usual classes (NUL and other controls, non-ASCII spaces and
        // line separators, a byte-order mark, a 4-byte character) inserted at every offset of the
        // short corpus programs
        let exotic: [&str; 20] = ["\0", "\u{1}", "\u{7f}", "\t", "\r", "\u{b}", "\u{c}", "\u{85}", "\u{a0}", "\u{2028}", "\u{feff}", "\u{200b}", "\u{1f600}", "\u{300}", "\u{ff11}", "\u{b2}", "\u{bd}", "\u{663}", "\u{2167}", "\u{aa}"];
        let exo_max = ctx.tier.pick(60usize, 110usize);
        let mut n_exo = 0u64;
        for (_name, src0) in &corp {
            if src0.len() > exo_max {
                continue;
            }
            let src = format!("print(\"S\")\n{}", src0);
            for (i, _) in src.char_indices().filter(|(i, _)| *i >= 11).chain(std::iter::once((src.len(), ' '))) {
                for x in exotic {
                    let mut c = Case::new(format!("{}{}{}", &src[..i], x, &src[i..]), T_AST, String::new());
                    c.mode = Mode::Ast;
                    c.no_ref = true;
                    batch.push(c);
                    n_exo += 1;
                }
            }
            if batch.len() >= 200_000 {
                self.run_dev_batch(ctx, std::mem::take(&mut batch))?;
            }
        }
        self.run_dev_batch(ctx, std::mem::take(&mut batch))?;
        // (2d) an unexpected token of every kind and size: the diagnostic quotes the token, so long
        // and multi-byte tokens reach the message formatting
        for n in 0..=90usize {
            let toks = [
                format!("\"{}\"", "a".repeat(n)),
                format!("\"{}\"", "é".repeat(n)),
                format!("\"{}{}\"", "a".repeat(n % 4), "€".repeat(n)),
                format!("\"{}é{}\"", "a".repeat(n), "b".repeat(90 - n)),
                format!("$\"{}${{x}}é\"", "é".repeat(n)),
                format!("v{}", "a".repeat(n)),
                format!("1{}", "0".repeat(n % 19)),
                format!("1{}", "_0".repeat(n % 10)),
            ];
            for t in toks {
                for ctxt in ["x := 1 @\n", "x := [1 @]\n", "f(1 @)\n", "x := {\"k\" @}\n", "if true @ {\n}\n", "@ @\n"] {
                    let mut c = Case::new(format!("print(\"S\")\n{}", ctxt.replace('@', &t)), T_PREFIXED, String::new());
                    c.no_ref = true;
                    batch.push(c);
                }
            }
        }
        // (2e) the same front end lexes and parses the text of an interpolation slot when the literal
        // is evaluated: every string of length 0..3 over a small alphabet as slot text, run
        {
            let sa: [&str; 13] = ["x", "1", "\\\"", "$", "\\\\", "(", ")", ".", "+", "-", " ", "\n", "é"];
            let mut texts: Vec<String> = vec![String::new()];
            let mut level: Vec<String> = vec![String::new()];
            for _ in 0..3 {
                let mut next = vec![];
                for t in &level {
                    for a in sa {
                        next.push(format!("{}{}", t, a));
                    }
                }
                texts.extend(next.iter().cloned());
                level = next;
            }
            for t in texts {
                // braces are left out of the alphabet: they would end or extend the slot
                for (pre, post) in [("a", "b"), ("é€", "😀"), ("\\xe9", "\\n")] {
                    let mut c = Case::new(format!("print(\"S\")\nx := \"v\"\ny := $\"{}${{{}}}{}\"\nprint(\"E\")\n", pre, t, post), 12, format!("slot text {:?} between {:?} and {:?}", t, pre, post));
                    // whether a line break may follow the expression inside a slot is left open
                    c.no_ref = t.contains('\n');
                    batch.push(c);
                }
            }
            // slots that reach the front end again while they are evaluated: nested literals, calls
            // of functions that build their result with an interpolated literal, three levels deep
            for slot in ["$\\\"<${x}>\\\"", "w(x)", "w(w(x))", "w($\\\"${x}\\\")", "$\\\"${w($\\\"${x}\\\")}\\\"", "w(x) + w(x)", "[w(x)][0]", "{\\\"k\\\": w(x)}.k", "fn () {\n return w(x)\n }()"] {
                let c = Case::new(format!("print(\"S\")\nx := \"v\"\nfn w(p) {{\nreturn $\"[${{p}}]\"\n}}\ny := $\"a${{{}}}b${{{}}}\"\nprint(y)\nprint(\"E\")\n", slot.replace("\\\"", "\""), slot.replace("\\\"", "\"")), 12, format!("slot that evaluates more interpolation: {}", slot));
                batch.push(c);
            }
            // literal-only arithmetic (what a parser might fold), at the edges of the range
            let lits = ["0", "1", "-1", "2", "-2", "9223372036854775807", "-9223372036854775807", "(-9223372036854775807 - 1)", "4611686018427387904", "3037000500"];
            for a in lits {
                for b in lits {
                    for op in ["+", "-", "*", "/", "%"] {
                        let mut c = Case::new(format!("print(\"S\")\nprint({} {} {})\nprint({} {} {} {} {})\n", a, op, b, a, op, b, op, a), 12, format!("literal arithmetic {} {} {}", a, op, b));
                        c.no_ref = false;
                        batch.push(c);
                    }
                }
            }
        }
        // (2b) pumping: a unit repeated many times (flat repetition, no nesting)
        let units: [&str; 34] = [
            "\n", ";", " ", "\t", "\r\n", "# c\n", ";\n", "\n\n ", "x\n", "x;", "1\n", "\"a\"\n", "x := 1\n", "print(1)\n", "_", "1", "a", "é", "\"",
            "$", "\\", "(", ")", "[", "]", "{", "}", ".", ",", "=", "!", "&", "-", "+ 1",
        ];
        let reps: Vec<usize> = if ctx.tier == Tier::Thorough { vec![1_000, 20_000, 200_000] } else { vec![1_000, 20_000] };
        let mut n_pump = 0u64;
        for u in units {
            let mut reps = reps.clone();
            if ctx.tier == Tier::Thorough && ["\n", ";", "# c\n"].contains(&u) {
                reps.push(4_000_000);
            }
            for &n in &reps {
                let body: String = u.repeat(n);
                for (pre, post) in [("print(\"S\")\n", "\nprint(\"E\")\n"), ("print(\"S\")\nx := 1", "\n"), ("print(\"S\")\n", "\n)\n"), ("print(\"S\")\n", "\n&")] {
                    let src = format!("{}{}{}", pre, body, post);
                    let mut c = Case::new(src.clone(), 7, format!("{:?} repeated {} times", u, n));
                    c.mode = Mode::Tokens;
                    c.no_ref = true;
                    batch.push(c);
                    // only flat statement sequences are executed (no deep expression trees)
                    if ["\n", ";", " ", "\t", "\r\n", "# c\n", ";\n", "\n\n ", "x := 1\n", "print(1)\n", "1\n", "\"a\"\n"].contains(&u) && n <= 20_000 && !(u == "x := 1\n") {
                        let mut c = Case::new(src, 8, format!("{:?} repeated {} times (run)", u, n));
                        c.no_ref = true;
                        batch.push(c);
                    }
                    n_pump += 1;
                }
            }
        }
        ctx.judge(std::mem::take(&mut batch), |c, r, o| self.oracle(c, r, o))?;
        // (3) invalid UTF-8 through the CLI
        let mut n_utf = 0u64;
        let bad_seqs: Vec<Vec<u8>> = {
            let units: Vec<Vec<u8>> = vec![vec![0x80], vec![0xC3], vec![0xE2, 0x82], vec![0xFF]];
            let mut v = units.clone();
            for a in &units {
                for b in &units {
                    let mut x = a.clone();
                    x.extend(b);
                    v.push(x);
                }
            }
            v
        };
        let bin = ctx.bin.clone();
        let scripts: Vec<&String> = corp.iter().map(|c| &c.1).filter(|s| s.len() <= 40).take(ctx.tier.pick(6, 20)).collect();
        let mut jobs: Vec<(Vec<u8>, String)> = vec![];
        for s in scripts {
            let b = s.as_bytes();
            for off in 0..=b.len() {
                for seq in &bad_seqs {
                    let mut v = b[..off].to_vec();
                    v.extend(seq);
                    v.extend(&b[off..]);
                    if std::str::from_utf8(&v).is_ok() {
                        continue;
                    }
                    jobs.push((v, format!("bytes {:02x?} at offset {} of {:?}", seq, off, s)));
                }
            }
        }
        // (3b) files of a megabyte and more are read whole: a syntax error after 1 MiB, 2 MiB and
        // 5 MiB of blank and comment lines is reported, the same file without it runs to its end
        for mib in [1usize, 2, 5] {
            let filler = "# a comment line of some length, nothing else here\n".repeat(mib * 1024 * 1024 / 51 + 40);
            let good = format!("print(\"S\")\n{}print(\"E\")\n", filler);
            let bad = format!("print(\"S\")\n{}x := )\n", filler);
            let o = crate::subject::run_cli_at(&bin, good.as_bytes(), "case.sd")?;
            n_utf += 1;
            ctx.evaluations += 1;
            if o.code != Some(0) || o.stdout != b"S\nE\n" {
                let c = Case::new(format!("print(\"S\") + {} MiB of comment lines + print(\"E\")", mib), 9, format!("a valid file of more than {} MiB", mib));
                let oc = Outcome { class: Class::Err, stdout: o.stdout.clone(), msg: o.stderr_str() };
                ctx.report(&c, None, &oc, "large-file", format!("a valid file of more than {} MiB must run to its end: exit {:?}, stdout {:?}, stderr {:?}", mib, o.code, String::from_utf8_lossy(&o.stdout), o.stderr_str().chars().take(200).collect::<String>()));
            }
            let o = crate::subject::run_cli_at(&bin, bad.as_bytes(), "case.sd")?;
            n_utf += 1;
            ctx.evaluations += 1;
            if o.code != Some(103) || !o.stdout.is_empty() || !o.stderr_str().starts_with("case.sd:") {
                let c = Case::new(format!("print(\"S\") + {} MiB of comment lines + x := )", mib), 9, format!("a syntax error after more than {} MiB", mib));
                let oc = Outcome { class: Class::Err, stdout: o.stdout.clone(), msg: o.stderr_str() };
                ctx.report(&c, None, &oc, "large-file", format!("a syntax error after more than {} MiB must be reported before anything runs: exit {:?}, stdout {:?}, stderr {:?}", mib, o.code, String::from_utf8_lossy(&o.stdout), o.stderr_str().chars().take(200).collect::<String>()));
            }
        }
        // (3c) the path a user takes: the file is read by the command itself.  Every string of
        // length 0..2 (thorough: 0..3) over the alphabet and every truncation of the short corpus
        // programs, each as written and with a final line break, after a first line that prints
        let mut cli_cases: Vec<Case> = vec![];
        let cli_len = ctx.tier.pick(2usize, 3usize);
        let mut tails: Vec<String> = vec![];
        for len in 0..=cli_len {
            for idx in 0..n.pow(len as u32) {
                let mut s = String::new();
                let mut x = idx;
                for _ in 0..len {
                    s.push_str(SIGMA[x % n]);
                    x /= n;
                }
                tails.push(s);
            }
        }
        for (_n, s) in corp.iter().filter(|c| c.1.len() <= 60).take(ctx.tier.pick(8, 30)) {
            for (i, _) in s.char_indices() {
                tails.push(s[..i].to_string());
            }
        }
        for t in tails {
            for end in ["", "\n", "\n\n"] {
                let mut c = Case::new(format!("print(\"S\")\n{}{}", t, end), T_PREFIXED, "read by the command itself".to_string());
                c.no_ref = true;
                c.cli_path = Some("case.sd".to_string());
                c.nontrivial = true;
                cli_cases.push(c);
            }
        }
        let n_cli = cli_cases.len();
        ctx.judge_cli(cli_cases, |c, r, o| {
            let msg = o.stderr_str();
            let msg = msg.strip_prefix("case.sd:").unwrap_or(&msg).trim_end_matches('\n').to_string();
            let bo = Outcome { class: o.class(), stdout: o.stdout.clone(), msg };
            self.oracle(c, r, &bo)
        })?;
        n_utf += n_cli as u64;
        use rayon::prelude::*;
        let results: Vec<Result<Option<String>, MachineryError>> = jobs
            .par_iter()
            .map(|(bytes, what)| {
                let o = crate::subject::run_cli_at(&bin, bytes, "case.sd")?;
                let err = o.stderr_str();
                if o.code != Some(103) || !o.stdout.is_empty() {
                    return Ok(Some(format!("{}: a file that is not UTF-8 must be rejected with exit 103 and empty stdout; exit {:?} stdout {:?}", what, o.code, String::from_utf8_lossy(&o.stdout))));
                }
                if !err.starts_with("case.sd:") || err.matches('\n').count() != 1 || !err.to_lowercase().contains("utf-8") {
                    return Ok(Some(format!("{}: expected one line `case.sd: <read error>`: {:?}", what, err)));
                }
                Ok(None)
            })
            .collect();
        for (r, (bytes, what)) in results.into_iter().zip(jobs.iter()) {
            n_utf += 1;
            ctx.evaluations += 1;
            ctx.transitions += 1;
            ctx.states.insert(h64(&bytes));
            if let Some(d) = r? {
                let c = Case::new(String::from_utf8_lossy(bytes).to_string(), 9, what.clone());
                let o = Outcome { class: Class::Err, stdout: vec![], msg: d.clone() };
                ctx.report(&c, None, &o, "non-utf8-read-error", d);
            }
        }
        ctx.extra.insert(
            "bounds".into(),
            json!({"alphabet": SIGMA.len(), "max_length": max_len, "strings": n_strings, "deviation_k": 1, "deviated_programs": progs,
                   "deviation_inputs": n_dev, "pumped_inputs": n_pump, "edit_alphabet": sigma.len(), "invalid_utf8_inputs": n_utf, "exotic_character_insertions": n_exo}),
        );
        Ok(())
    }

    fn oracle(&self, c: &Case, _r: &RefOutcome, o: &Outcome) -> Verdict {
        match c.tag {
            T_BARE => {
                // no opinion on whether it runs; if nothing was printed and it failed, the
                // diagnostic must be well formed with a bounded line
                match o.class {
                    Class::Ok => {
                        if parse_prog(&c.src).is_err() {
                            return viol("accept-reject", format!("{:?} is not a program (reference front end: {:?}) but it was parsed and run", c.src, parse_prog(&c.src).err()));
                        }
                        Verdict::Pass
                    }
                    Class::Err => {
                        let ref_front = parse_prog(&c.src);
                        if ref_front.is_err() {
                            return front_contract(c, o, false);
                        }
                        // a runtime error of a valid program: position within the file
                        if let Some(((l, _), _)) = parse_pos(&o.msg) {
                            if l > count_lines(&c.src) + 1 {
                                return viol("line-bound", format!("{:?}: line {} out of range: {:?}", c.src, l, o.msg));
                            }
                        }
                        Verdict::Pass
                    }
                    _ => viol("crash", format!("{:?}", o.class)),
                }
            }
            T_PREFIXED => {
                let ran = o.out_str().starts_with("S\n");
                let ref_ok = parse_prog(&c.src).is_ok();
                if ran {
                    if !ref_ok {
                        return viol("accept-reject", format!("{:?}: the file has a lexical / syntax error (reference front end: {:?}) yet its first statement was executed", c.src, parse_prog(&c.src).err()));
                    }
                    Verdict::Pass
                } else {
                    if ref_ok {
                        return viol("accept-reject", format!("{:?}: the file is a program of the grammar, but its first statement did not run: {:?} {:?}", c.src, o.class, o.msg));
                    }
                    front_contract(c, o, false)
                }
            }
            T_AST => {
                let dump = o.out_str();
                let accepted = dump.starts_with("Ok(");
                if !accepted && !dump.starts_with("Err(") {
                    return viol("contract", format!("{:?}: the front end neither accepted nor rejected: {:?} {:?}", c.src, o.class, dump.chars().take(80).collect::<String>()));
                }
                let ref_ok = parse_prog(&c.src).is_ok();
                if accepted != ref_ok {
                    return viol("accept-reject", format!("{:?}: real front end {} the text, the reference front end {} it ({:?})", c.src, if accepted { "accepts" } else { "rejects" }, if ref_ok { "accepts" } else { "rejects" }, parse_prog(&c.src).err()));
                }
                Verdict::Pass
            }
            12 => {
                // the file itself is a program: its first statement runs, and whatever the slot text or
                // the arithmetic is, the run ends by completion or by one reported diagnostic
                if !o.out_str().starts_with("S\n") {
                    return viol("accept-reject", format!("{}: the file is a program, but its first statement did not run: {:?} {:?}", c.meta, o.class, o.msg));
                }
                if !c.no_ref && !matches!(_r.result, crate::refm::eval::RefResult::Front(_)) && (_r.is_ok() != (o.class == Class::Ok) || _r.stdout != o.stdout) {
                    return viol("slot-or-literal-evaluation", format!("{}: the run ended {:?} printing {:?}; the reference {} after printing {:?}", c.meta, o.class, o.out_str(), if _r.is_ok() { "completes" } else { "reports an error" }, String::from_utf8_lossy(&_r.stdout)));
                }
                match o.class {
                    Class::Ok => Verdict::Pass,
                    Class::Err => {
                        if parse_pos(o.msg.lines().next().unwrap_or("")).is_none() {
                            return viol("format", format!("{}: the diagnostic is not located: {:?}", c.meta, o.msg));
                        }
                        Verdict::Pass
                    }
                    _ => viol("crash", format!("{}: {:?}", c.meta, o.class)),
                }
            }
            7 => {
                // the scanner alone: it must get through the input (tokens or one lexical error)
                let dump = o.out_str();
                let last = dump.lines().last().unwrap_or("");
                let (raw, err) = lex_raw(&c.src);
                let want = crate::refm::lex::suppress_terminators(raw).len() + if err.is_some() { 1 } else { 0 };
                let got = dump.lines().count();
                if got != want {
                    return viol("pumping", format!("{}: the scanner produced {} tokens, the reference scanner {} (last line {:?})", c.meta, got, want, last.chars().take(80).collect::<String>()));
                }
                Verdict::Pass
            }
            8 => {
                let ran = o.out_str().starts_with("S\n");
                let ref_ok = parse_prog(&c.src).is_ok();
                if ran != ref_ok {
                    return viol("pumping", format!("{}: reference front end {} the text, but the first statement {}", c.meta, if ref_ok { "accepts" } else { "rejects" }, if ran { "ran" } else { "did not run" }));
                }
                if !ran {
                    return front_contract(c, o, false);
                }
                Verdict::Pass
            }
            _ => Verdict::Pass,
        }
    }
}

impl C03 {
    /// the deviated inputs are parsed (hook ast); the rejected ones are also run, to see
    /// that nothing executes and the diagnostic is well formed
    fn run_dev_batch(&self, ctx: &mut Ctx, batch: Vec<Case>) -> Result<(), MachineryError> {
        if batch.is_empty() {
            return Ok(());
        }
        let judged = ctx.judge(batch, |c, r, o| self.oracle(c, r, o))?;
        let mut runs: Vec<Case> = vec![];
        for j in judged {
            if j.o.out_str().starts_with("Err(") {
                let mut c = Case::new(j.case.src, T_PREFIXED, String::new());
                c.no_ref = true;
                runs.push(c);
            }
        }
        ctx.judge(runs, |c, r, o| self.oracle(c, r, o))?;
        Ok(())
    }
}
