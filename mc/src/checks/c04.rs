//! C04 — lexical scoping; closures capture their defining scope by reference.
//! Breadth-first exploration of all programs built from scope operations
//! (declare / assign / read x, open block / fn f / fn g / while / for, close,
//! call, return a closure, store a closure in an outer variable, guarded
//! recursion) up to a bound on the number of operations.  Every program is
//! closed by a fixed suffix that reads x at every open level and calls what was
//! defined.  Oracle: the reference interpreter with linked environments.
use super::Check;
use crate::engine::*;
use crate::explore::{bfs, Alphabet, CURSOR_MARK};
use crate::refm::eval::RefOutcome;
use crate::subject::{Class, MachineryError, Outcome};
use serde_json::json;

pub struct C04;

const DECL: u16 = 0;
const ASSIGN: u16 = 1;
const PRINT: u16 = 2;
const OPEN_BLOCK: u16 = 3;
const OPEN_F: u16 = 4;
const OPEN_G: u16 = 5;
const OPEN_WHILE: u16 = 6;
const OPEN_FOR: u16 = 7;
const CLOSE: u16 = 8;
const CALL_F: u16 = 9;
const CALL_G: u16 = 10;
const RET_CLOSURE: u16 = 11;
const H_CALLF: u16 = 12;
const H_CALL: u16 = 13;
const H_FN: u16 = 14;
const REC: u16 = 15;
const OPEN_IF: u16 = 16;
const H_ALIAS_F: u16 = 17;
const F_REASSIGN: u16 = 18;
const H_CALLS_F: u16 = 19;
const H_CALLS_G: u16 = 20;
const PRINT_SH: u16 = 21;
const H_METHOD: u16 = 22;
const F_METHOD: u16 = 23;
const CAPTURE_E: u16 = 24;
const N_OPS: u16 = 25;

const OP_NAMES: [&str; 25] = [
    "x := k", "x = k", "print(x)", "{", "fn f() {", "fn g() {", "while(2) {", "for(2) {", "}",
    "f()", "g()", "return closure", "h = f()", "h()", "h = closure", "guarded f()", "if true {",
    "h = f", "f = closure", "h = closure calling f", "h = closure calling g", "print({x}.x)",
    "ob.m = h; ob.m()", "ob.m = f; ob.m()", "first iteration: h = closure reading e and x",
];

#[derive(Clone, Copy, PartialEq, Debug)]
enum Open {
    Block,
    FnF,
    FnG,
    Loop,
    For,
}

#[derive(Clone)]
pub struct St {
    ops: Vec<u16>,
    text: String,
    open: Vec<(Open, usize, bool)>, // construct, ops inside so far, returned
    next_k: u32,
    f_def: bool,
    g_def: bool,
    f_top: bool,
    g_top: bool,
    h_set: bool,
    loops: u32,
    rec_used: bool,
}

struct Alpha {
    rich: bool,
}

impl Alphabet for Alpha {
    type St = St;

    fn init(&self) -> St {
        St {
            ops: vec![],
            text: String::from("x := 0\nh := null\nd := 0\nob := {}\n"),
            open: vec![],
            next_k: 1,
            f_def: false,
            g_def: false,
            f_top: false,
            g_top: false,
            h_set: false,
            loops: 0,
            rec_used: false,
        }
    }

    fn enabled(&self, st: &St) -> Vec<u16> {
        let mut v = vec![];
        let last = st.ops.last().copied();
        if let Some((_, _, true)) = st.open.last() {
            // after `return` only closing makes sense
            return vec![CLOSE];
        }
        let in_fn = st.open.iter().any(|o| matches!(o.0, Open::FnF | Open::FnG));
        let in_f = st.open.iter().any(|o| o.0 == Open::FnF);
        for op in 0..N_OPS {
            let ok = match op {
                DECL | ASSIGN => true,
                PRINT => last != Some(PRINT),
                PRINT_SH => last != Some(PRINT_SH) && last != Some(PRINT),
                OPEN_BLOCK | OPEN_WHILE | OPEN_FOR => st.open.len() < 4,
                OPEN_IF => self.rich && st.open.len() < 4,
                OPEN_F => !st.f_def && st.open.len() < 4,
                OPEN_G => st.f_def && !st.g_def && st.open.len() < 4,
                CLOSE => matches!(st.open.last(), Some((_, n, _)) if *n > 0),
                CALL_F => st.f_def && !in_f,
                CALL_G => st.g_def && !st.open.iter().any(|o| o.0 == Open::FnG),
                RET_CLOSURE => in_fn,
                H_CALLF => st.f_def && !in_f,
                H_CALL => st.h_set,
                H_FN => true,
                REC => in_f && !st.rec_used,
                H_ALIAS_F | F_REASSIGN | H_CALLS_F => self.rich && st.f_def && !in_f,
                H_CALLS_G => self.rich && st.g_def,
                H_METHOD => self.rich && st.h_set && last != Some(H_METHOD),
                F_METHOD => self.rich && st.f_def && !in_f && last != Some(F_METHOD),
                CAPTURE_E => self.rich && matches!(st.open.last(), Some((Open::For, _, _))),
                _ => false,
            };
            if ok {
                v.push(op);
            }
        }
        v
    }

    fn apply(&self, st: &St, op: u16) -> St {
        let mut s = st.clone();
        s.ops.push(op);
        if let Some(top) = s.open.last_mut() {
            top.1 += 1;
        }
        let k = s.next_k;
        let depth0 = st.open.is_empty();
        match op {
            DECL => {
                s.text.push_str(&format!("x := {}\n", k));
                s.next_k += 1;
            }
            ASSIGN => {
                s.text.push_str(&format!("x = {}\n", k));
                s.next_k += 1;
            }
            PRINT => s.text.push_str("print(x)\n"),
            PRINT_SH => s.text.push_str("print({x}.x)\n"),
            OPEN_BLOCK => {
                s.text.push_str("{\n");
                s.open.push((Open::Block, 0, false));
            }
            OPEN_IF => {
                s.text.push_str("if true {\n");
                s.open.push((Open::Block, 0, false));
            }
            OPEN_F => {
                s.text.push_str("fn f() {\n");
                s.open.push((Open::FnF, 0, false));
                s.f_def = true;
                s.f_top = depth0;
            }
            OPEN_G => {
                s.text.push_str("fn g() {\n");
                s.open.push((Open::FnG, 0, false));
                s.g_def = true;
                s.g_top = depth0;
            }
            OPEN_WHILE => {
                s.loops += 1;
                s.text.push_str(&format!("w{n} := 0\nwhile w{n} < 2 {{\nw{n} += 1\n", n = s.loops));
                s.open.push((Open::Loop, 0, false));
            }
            OPEN_FOR => {
                s.text.push_str("for e in [0, 1] {\n");
                s.open.push((Open::For, 0, false));
            }
            CLOSE => {
                s.open.pop();
                s.text.push_str("}\n");
            }
            CALL_F => s.text.push_str("f()\n"),
            CALL_G => s.text.push_str("g()\n"),
            RET_CLOSURE => {
                s.text.push_str(&format!("return fn () {{\nprint(x)\nx = {}\n}}\n", k));
                s.next_k += 1;
                if let Some(top) = s.open.last_mut() {
                    top.2 = true;
                }
            }
            H_CALLF => {
                s.text.push_str("h = f()\n");
                s.h_set = true;
            }
            H_CALL => s.text.push_str("h()\n"),
            H_FN => {
                s.text.push_str(&format!("h = fn () {{\nprint(x)\nx = {}\n}}\n", k));
                s.next_k += 1;
                s.h_set = true;
            }
            H_ALIAS_F => {
                s.text.push_str("h = f\n");
                s.h_set = true;
            }
            F_REASSIGN => {
                s.text.push_str(&format!("f = fn () {{\nprint(\"f2\")\nprint(x)\nx = {}\n}}\n", k));
                s.next_k += 1;
            }
            H_CALLS_F => {
                s.text.push_str("h = fn () {\nprint(\"via h\")\nf()\n}\n");
                s.h_set = true;
            }
            H_CALLS_G => {
                s.text.push_str("h = fn () {\nprint(\"via h\")\ng()\n}\n");
                s.h_set = true;
            }
            H_METHOD => s.text.push_str("ob.m = h\nob.m()\n"),
            F_METHOD => s.text.push_str("ob.m = f\nob.m()\n"),
            CAPTURE_E => {
                s.text.push_str(&format!("if e[1] == 0 {{\nh = fn () {{\nprint(e)\nprint(x)\nx = {}\n}}\n}}\n", k));
                s.next_k += 1;
                s.h_set = true;
            }
            REC => {
                s.text.push_str("if d < 2 {\nd += 1\nf()\n}\n");
                s.rec_used = true;
            }
            _ => {}
        }
        s
    }

    fn program(&self, st: &St) -> String {
        let mut p = st.text.clone();
        p.push_str(&format!("print(\"{}\")\n", CURSOR_MARK));
        for _ in st.open.iter().rev() {
            p.push_str("print(x)\n}\n");
        }
        p.push_str("print(x)\n");
        if st.f_top {
            p.push_str("f()\nprint(x)\n");
        }
        if st.g_top {
            p.push_str("g()\nprint(x)\n");
        }
        if st.h_set {
            p.push_str("h()\nprint(x)\nh()\nprint(x)\n");
        }
        p
    }

    fn describe(&self, st: &St) -> String {
        st.ops.iter().map(|o| OP_NAMES[*o as usize]).collect::<Vec<_>>().join(" ; ")
    }

    fn nontrivial(&self, st: &St) -> bool {
        let opens = st.ops.iter().any(|o| matches!(*o, OPEN_BLOCK | OPEN_F | OPEN_G | OPEN_WHILE | OPEN_FOR | OPEN_IF));
        let writes = st.ops.iter().any(|o| matches!(*o, DECL | ASSIGN | RET_CLOSURE | H_FN | CAPTURE_E));
        opens && writes
    }
}

// ----- a second, narrower exploration that goes deeper: use / shadow / define / call around blocks -----

#[derive(Clone)]
pub struct RSt {
    ops: Vec<u16>,
    text: String,
    open: Vec<usize>, // operations inside each open construct so far
    next_k: u32,
    r_def: bool,
}

const R_NAMES: [&str; 10] = ["print(x)", "x := k", "x = k", "fn r() { print(x); x = k }", "r()", "{", "}", "for(2) {", "[x] = [k]", "{..x} = {\"a\": k}"];

struct Res;

impl Alphabet for Res {
    type St = RSt;
    fn init(&self) -> RSt {
        RSt { ops: vec![], text: String::from("x := 0\n"), open: vec![], next_k: 1, r_def: false }
    }
    fn enabled(&self, st: &RSt) -> Vec<u16> {
        let last = st.ops.last().copied();
        (0..10u16)
            .filter(|op| match *op {
                0 => last != Some(0),
                3 => !st.r_def,
                4 => st.r_def,
                5 | 7 => st.open.len() < 3,
                6 => matches!(st.open.last(), Some(n) if *n > 0),
                _ => true,
            })
            .collect()
    }
    fn apply(&self, st: &RSt, op: u16) -> RSt {
        let mut s = st.clone();
        s.ops.push(op);
        if let Some(top) = s.open.last_mut() {
            *top += 1;
        }
        let k = s.next_k;
        match op {
            0 => s.text.push_str("print(x)\n"),
            1 => {
                s.text.push_str(&format!("x := {}\n", k));
                s.next_k += 1;
            }
            2 => {
                s.text.push_str(&format!("x = {}\n", k));
                s.next_k += 1;
            }
            3 => {
                s.text.push_str(&format!("fn r() {{\nprint(x)\nx = {}\n}}\n", k));
                s.next_k += 1;
                s.r_def = true;
            }
            4 => s.text.push_str("r()\n"),
            5 => {
                s.text.push_str("{\n");
                s.open.push(0);
            }
            6 => {
                s.open.pop();
                s.text.push_str("}\n");
            }
            7 => {
                s.text.push_str("for e in [0, 1] {\n");
                s.open.push(0);
            }
            8 => {
                s.text.push_str(&format!("[x] = [{}]\n", k));
                s.next_k += 1;
            }
            _ => {
                s.text.push_str(&format!("{{..x}} = {{\"a\": {}}}\n", k));
                s.next_k += 1;
            }
        }
        s
    }
    fn program(&self, st: &RSt) -> String {
        let mut p = st.text.clone();
        p.push_str(&format!("print(\"{}\")\n", CURSOR_MARK));
        for _ in st.open.iter().rev() {
            p.push_str("print(x)\n}\n");
        }
        p.push_str("print(x)\n");
        p
    }
    fn describe(&self, st: &RSt) -> String {
        st.ops.iter().map(|o| R_NAMES[*o as usize]).collect::<Vec<_>>().join(" ; ")
    }
}

fn has_subseq(ops: &[u16], pat: &[u16]) -> bool {
    let mut i = 0;
    for o in ops {
        if i < pat.len() && *o == pat[i] {
            i += 1;
        }
    }
    i == pat.len()
}

impl Check for C04 {
    fn id(&self) -> &'static str {
        "C04"
    }

    fn run(&self, ctx: &mut Ctx) -> Result<(), MachineryError> {
        let depth = std::env::var("C04_DEPTH").ok().and_then(|s| s.parse().ok()).unwrap_or(ctx.tier.pick(6usize, 8usize));
        let alpha = Alpha { rich: true };
        ctx.rule = format!(
            "breadth-first over all well-formed histories of <= {} scope operations from {{x := k, x = k, print(x), open block / fn f / fn g / while(2 iterations) / for(2 elements){}, close, f(), g(), return a closure reading and writing x, h = f(), h(), h = closure, h = f, f = closure, closures calling f / g, the shorthand {{x}}, a function stored in an object and called as a method, a closure created in the first iteration of a for loop that reads the loop target, guarded recursive f()}} on top of `x := 0; h := null`; each program is completed by reading x at every open level, closing, and calling f, g, h at top level; dead states (failure before the cursor is first reached) are not expanded; plus a narrower exploration to a greater depth (<= {} operations from {{print(x), x := k, x = k, fn r reading and writing x, r(), open block, close, for(2), [x] = [k], {{..x}} = {{..}}}}); non-trivial = at least one scope-opening operation and one write of x",
            depth,
            if alpha.rich { " / if" } else { "" },
            ctx.tier.pick(6usize, 9usize)
        );
        let mut g_closure_outlives = false;
        let mut g_late_decl = false;
        let mut g_rec = false;
        let mut g_loop_decl = false;
        let stats = bfs(
            ctx,
            &alpha,
            depth,
            |c, r, o| self.oracle(c, r, o),
            |_ctx, pairs| {
                for (st, j) in pairs {
                    if !j.r.is_ok() {
                        continue;
                    }
                    let ops = &st.ops;
                    if has_subseq(ops, &[OPEN_BLOCK, H_FN, CLOSE]) || has_subseq(ops, &[OPEN_F, RET_CLOSURE, CLOSE, H_CALLF]) {
                        g_closure_outlives = true;
                    }
                    if has_subseq(ops, &[OPEN_F, PRINT, CLOSE, DECL]) || has_subseq(ops, &[OPEN_F, ASSIGN, CLOSE, DECL]) {
                        g_late_decl = true;
                    }
                    if ops.contains(&REC) {
                        g_rec = true;
                    }
                    if has_subseq(ops, &[OPEN_WHILE, DECL]) || has_subseq(ops, &[OPEN_FOR, DECL]) {
                        g_loop_decl = true;
                    }
                }
            },
        )?;
        let rdepth = std::env::var("C04_RDEPTH").ok().and_then(|s| s.parse().ok()).unwrap_or(ctx.tier.pick(6usize, 9usize));
        let rstats = bfs(ctx, &Res, rdepth, |c, r, o| self.oracle(c, r, o), |_c, _p| {})?;
        ctx.extra.insert(
            "resolution_bounds".into(),
            json!({"max_operations": rdepth, "completed_depth": rstats.completed_depth, "operations": R_NAMES.len(), "levels(depth,generated,kept)": rstats.levels, "dead_states": rstats.dead}),
        );
        let tp: Vec<Case> = super::evalorder::THIS_PROGRAMS.iter().enumerate().map(|(i, p)| Case::new(p.to_string(), 30, format!("`this` is resolved where the function was created, program {}", i))).collect();
        ctx.judge(tp, |c, r, o| self.oracle(c, r, o))?;
        ctx.guard("a closure was called after its defining scope ended", g_closure_outlives);
        ctx.guard("a function used a variable declared after the function was defined", g_late_decl);
        ctx.guard("recursion re-entered a scope", g_rec);
        ctx.guard("a loop iteration re-declared a name", g_loop_decl);
        ctx.extra.insert(
            "bounds".into(),
            json!({"max_operations": depth, "completed_depth": stats.completed_depth, "operations": OP_NAMES.len(),
                   "levels(depth,generated,kept)": stats.levels, "dead_states": stats.dead, "merged_states": stats.merged}),
        );
        Ok(())
    }

    fn oracle(&self, c: &Case, r: &RefOutcome, o: &Outcome) -> Verdict {
        if o.stdout != r.stdout {
            return viol(
                "resolution",
                format!("a variable use resolved differently from lexical scoping ({}): printed {:?}, reference {:?}", c.meta, o.out_str(), String::from_utf8_lossy(&r.stdout)),
            );
        }
        if r.is_ok() != (o.class == Class::Ok) {
            return viol(
                "termination",
                format!("{}: reference ends {}, run ended {:?} {}", c.meta, if r.is_ok() { "ok" } else { "with an error" }, o.class, o.msg),
            );
        }
        Verdict::Pass
    }
}
