//! C04 — lexical scoping; closures capture their defining scope by reference.
//! Breadth-first exploration of all programs built from scope operations
//! (declare / assign / read x, open block / fn f / fn g / while / for, close,
//! call, return a closure, store a closure in an outer variable, guarded
//! recursion) up to a bound on the number of operations.  Every program is
//! closed by a fixed suffix that reads x at every open level and calls what was
//! defined.  Oracle: the reference interpreter with linked environments.
use super::Check;
use crate::engine::*;
use crate::explore::{bfs, Alphabet, CURSOR_MARK};
use crate::refm::eval::RefOutcome;
use crate::subject::{Class, MachineryError, Outcome};
use serde_json::json;

pub struct C04;

/// fixed programs: a variable updated by a call between two reads in one statement; scopes after
/// a loop left by break / continue
const SCOPE_PROGRAMS: &[&str] = &[
    "n := 0\nfn next() {\nn += 1\nreturn $\"${\"abcdef\"[n]}\"\n}\nprint($\"${next()}-${next()}\")\nprint(next() + next())\nprint([next(), next()])\n",
    "x := \"p\"\nfn setx() {\nx = \"q\"\nreturn \"\"\n}\nprint($\"${x}${setx()}${x}\")\nx = \"p\"\nprint(x + setx() + x)\n",
    "x := 0\nfor e in [1, 2] {\nx := 10\nbreak\n}\nprint(x)\nfor e in [1, 2] {\nx := 20\ncontinue\n}\nprint(x)\ni := 0\nwhile i < 2 {\ni += 1\nx := 30\nif i == 1 {\ncontinue\n}\nbreak\n}\nprint(x)\nx := 5\n",
    "fs := []\nfn lp(i) {\nsq := i * i\nfs += [fn () {\nsq += 1\nreturn [i, sq]\n}]\nif i < 2 {\nreturn lp(i + 1)\n}\nreturn null\n}\nlp(0)\nprint(fs[0]())\nprint(fs[1]())\nprint(fs[2]())\nprint(fs[0]())\n",
    "fn count(n, acc) {\nstep := fn () {\nreturn n\n}\nif n == 0 {\nreturn acc\n}\nreturn count(n - 1, acc + [step])\n}\nfor [i, s] in count(3, []) {\nprint(s())\n}\n",
    "level := 1\n{\nlevel := level + 1\nprint(level)\n{\nlevel := level * 10\nprint(level)\n}\n}\nprint(level)\nfn f(item) {\n{\nitem := item\nreturn item\n}\n}\nprint(f(7))\n",
    "total := 5\nfn peek() {\nreturn total\n}\n{\nfn peek2() {\nreturn total\n}\ntotal := peek2() + peek() + 1\nprint(total)\nprint(peek2())\n}\nprint(total)\n",
    "greet := \"nobody\"\nfn outer(name) {\n{\npunct := \"!\"\nreturn fn () {\nreturn $\"hello, ${name}${punct}\"\n}\n}\n}\nprint(outer(\"ann\")())\nfn later() {\nf := null\n{\nf = fn () {\nreturn $\"${v}\"\n}\n}\nv := \"late\"\nreturn f()\n}\nprint(later())\n",
    "x := 1\ny := 2\n{\n[x, y] := [y, x]\nprint([x, y])\n}\nprint([x, y])\nfn f(x, y) {\n{\n[y, x] := [x + 10, y + 10]\nreturn [x, y]\n}\n}\nprint(f(3, 4))\n{\n{q, \"r\": x} := {\"q\": x, \"r\": y}\nprint([q, x])\n}\n",
    "fn f(print) {\nreturn print * 2\n}\nr := f(4)\nfn g() {\nprint := 5\nreturn print + 1\n}\nr2 := g()\nh := fn (len, type) {\nreturn [len, type]\n}\nr3 := h(1, 2)\nprint([r, r2, r3])\n",
    "fn wrap() {\nprint := fn (v) {\nreturn v\n}\nreturn print(\"quiet\")\n}\nr := wrap()\nprint(r)\n",
    "best := null\nother := null\n{\nfn best() {\nreturn \"inner\"\n}\nprint(best())\n}\nprint(best)\nfn run() {\nfn other() {\nreturn 1\n}\nreturn other()\n}\nprint(run())\nprint(other)\nfor e in [1] {\nfn best() {\nreturn \"loop\"\n}\n}\nprint(best)\n",
    "total := 100\nfn outer() {\ntotal := 0\nfn add(n) {\ntotal += n\nreturn total\n}\nreturn add\n}\na := outer()\nfn caller() {\ntotal := 50\nreturn a(1) + a(2)\n}\nprint(caller())\nprint(total)\nfn plain() {\nreturn total\n}\nfn shadow() {\ntotal := 7\n{\ntotal := 8\nreturn plain()\n}\n}\nprint(shadow())\n",
    "x := 0\nfn f() {\nfor e in [1, 2] {\nx := 10\nif e[1] == 1 {\ncontinue\n}\nbreak\n}\nx = 7\nreturn fn () {\nreturn x\n}\n}\nprint(f()())\nprint(x)\n",
];

const DECL: u16 = 0;
const ASSIGN: u16 = 1;
const PRINT: u16 = 2;
const OPEN_BLOCK: u16 = 3;
const OPEN_F: u16 = 4;
const OPEN_G: u16 = 5;
const OPEN_WHILE: u16 = 6;
const OPEN_FOR: u16 = 7;
const CLOSE: u16 = 8;
const CALL_F: u16 = 9;
const CALL_G: u16 = 10;
const RET_CLOSURE: u16 = 11;
const H_CALLF: u16 = 12;
const H_CALL: u16 = 13;
const H_FN: u16 = 14;
const REC: u16 = 15;
const OPEN_IF: u16 = 16;
const H_ALIAS_F: u16 = 17;
const F_REASSIGN: u16 = 18;
const H_CALLS_F: u16 = 19;
const H_CALLS_G: u16 = 20;
const PRINT_SH: u16 = 21;
const H_METHOD: u16 = 22;
const F_METHOD: u16 = 23;
const CAPTURE_E: u16 = 24;
const N_OPS: u16 = 25;

const OP_NAMES: [&str; 25] = [
    "x := k", "x = k", "print(x)", "{", "fn f() {", "fn g() {", "while(2) {", "for(2) {", "}",
    "f()", "g()", "return closure", "h = f()", "h()", "h = closure", "guarded f()", "if true {",
    "h = f", "f = closure", "h = closure calling f", "h = closure calling g", "print({x}.x)",
    "ob.m = h; ob.m()", "ob.m = f; ob.m()", "first iteration: h = closure reading e and x",
];

#[derive(Clone, Copy, PartialEq, Debug)]
enum Open {
    Block,
    FnF,
    FnG,
    Loop,
    For,
}

#[derive(Clone)]
pub struct St {
    ops: Vec<u16>,
    text: String,
    open: Vec<(Open, usize, bool)>, // construct, ops inside so far, returned
    next_k: u32,
    f_def: bool,
    g_def: bool,
    f_top: bool,
    g_top: bool,
    h_set: bool,
    loops: u32,
    rec_used: bool,
}

struct Alpha {
    rich: bool,
    /// `if true {` as a fourth block-like construct: thorough tier only (it behaves like `{`)
    ifs: bool,
}

impl Alphabet for Alpha {
    type St = St;

    fn init(&self) -> St {
        St {
            ops: vec![],
            text: String::from("x := 0\nh := null\nd := 0\nob := {}\n"),
            open: vec![],
            next_k: 1,
            f_def: false,
            g_def: false,
            f_top: false,
            g_top: false,
            h_set: false,
            loops: 0,
            rec_used: false,
        }
    }

    fn enabled(&self, st: &St) -> Vec<u16> {
        let mut v = vec![];
        let last = st.ops.last().copied();
        if let Some((_, _, true)) = st.open.last() {
            // after `return` only closing makes sense
            return vec![CLOSE];
        }
        let in_fn = st.open.iter().any(|o| matches!(o.0, Open::FnF | Open::FnG));
        let in_f = st.open.iter().any(|o| o.0 == Open::FnF);
        for op in 0..N_OPS {
            let ok = match op {
                DECL | ASSIGN => true,
                PRINT => last != Some(PRINT),
                PRINT_SH => last != Some(PRINT_SH) && last != Some(PRINT),
                OPEN_BLOCK | OPEN_WHILE | OPEN_FOR => st.open.len() < 4,
                OPEN_IF => self.ifs && st.open.len() < 4,
                OPEN_F => !st.f_def && st.open.len() < 4,
                OPEN_G => st.f_def && !st.g_def && st.open.len() < 4,
                CLOSE => matches!(st.open.last(), Some((_, n, _)) if *n > 0),
                CALL_F => st.f_def && !in_f,
                CALL_G => st.g_def && !st.open.iter().any(|o| o.0 == Open::FnG),
                RET_CLOSURE => in_fn,
                H_CALLF => st.f_def && !in_f,
                H_CALL => st.h_set,
                H_FN => true,
                REC => in_f && !st.rec_used,
                H_ALIAS_F | F_REASSIGN | H_CALLS_F => self.rich && st.f_def && !in_f,
                H_CALLS_G => self.rich && st.g_def,
                H_METHOD => self.rich && st.h_set && last != Some(H_METHOD),
                F_METHOD => self.rich && st.f_def && !in_f && last != Some(F_METHOD),
                CAPTURE_E => self.rich && matches!(st.open.last(), Some((Open::For, _, _))),
                _ => false,
            };
            if ok {
                v.push(op);
            }
        }
        v
    }

    fn apply(&self, st: &St, op: u16) -> St {
        let mut s = st.clone();
        s.ops.push(op);
        if let Some(top) = s.open.last_mut() {
            top.1 += 1;
        }
        let k = s.next_k;
        let depth0 = st.open.is_empty();
        match op {
            DECL => {
                s.text.push_str(&format!("x := {}\n", k));
                s.next_k += 1;
            }
            ASSIGN => {
                s.text.push_str(&format!("x = {}\n", k));
                s.next_k += 1;
            }
            PRINT => s.text.push_str("print(x)\n"),
            PRINT_SH => s.text.push_str("print({x}.x)\n"),
            OPEN_BLOCK => {
                s.text.push_str("{\n");
                s.open.push((Open::Block, 0, false));
            }
            OPEN_IF => {
                s.text.push_str("if true {\n");
                s.open.push((Open::Block, 0, false));
            }
            OPEN_F => {
                s.text.push_str("fn f() {\n");
                s.open.push((Open::FnF, 0, false));
                s.f_def = true;
                s.f_top = depth0;
            }
            OPEN_G => {
                s.text.push_str("fn g() {\n");
                s.open.push((Open::FnG, 0, false));
                s.g_def = true;
                s.g_top = depth0;
            }
            OPEN_WHILE => {
                s.loops += 1;
                s.text.push_str(&format!("w{n} := 0\nwhile w{n} < 2 {{\nw{n} += 1\n", n = s.loops));
                s.open.push((Open::Loop, 0, false));
            }
            OPEN_FOR => {
                s.text.push_str("for e in [0, 1] {\n");
                s.open.push((Open::For, 0, false));
            }
            CLOSE => {
                s.open.pop();
                s.text.push_str("}\n");
            }
            CALL_F => s.text.push_str("f()\n"),
            CALL_G => s.text.push_str("g()\n"),
            RET_CLOSURE => {
                s.text.push_str(&format!("return fn () {{\nprint(x)\nx = {}\n}}\n", k));
                s.next_k += 1;
                if let Some(top) = s.open.last_mut() {
                    top.2 = true;
                }
            }
            H_CALLF => {
                s.text.push_str("h = f()\n");
                s.h_set = true;
            }
            H_CALL => s.text.push_str("h()\n"),
            H_FN => {
                s.text.push_str(&format!("h = fn () {{\nprint(x)\nx = {}\n}}\n", k));
                s.next_k += 1;
                s.h_set = true;
            }
            H_ALIAS_F => {
                s.text.push_str("h = f\n");
                s.h_set = true;
            }
            F_REASSIGN => {
                s.text.push_str(&format!("f = fn () {{\nprint(\"f2\")\nprint(x)\nx = {}\n}}\n", k));
                s.next_k += 1;
            }
            H_CALLS_F => {
                s.text.push_str("h = fn () {\nprint(\"via h\")\nf()\n}\n");
                s.h_set = true;
            }
            H_CALLS_G => {
                s.text.push_str("h = fn () {\nprint(\"via h\")\ng()\n}\n");
                s.h_set = true;
            }
            H_METHOD => s.text.push_str("ob.m = h\nob.m()\n"),
            F_METHOD => s.text.push_str("ob.m = f\nob.m()\n"),
            CAPTURE_E => {
                s.text.push_str(&format!("if e[1] == 0 {{\nh = fn () {{\nprint(e)\nprint(x)\nx = {}\n}}\n}}\n", k));
                s.next_k += 1;
                s.h_set = true;
            }
            REC => {
                s.text.push_str("if d < 2 {\nd += 1\nf()\n}\n");
                s.rec_used = true;
            }
            _ => {}
        }
        s
    }

    fn program(&self, st: &St) -> String {
        let mut p = st.text.clone();
        p.push_str(&format!("print(\"{}\")\n", CURSOR_MARK));
        for _ in st.open.iter().rev() {
            p.push_str("print(x)\n}\n");
        }
        p.push_str("print(x)\n");
        if st.f_top {
            p.push_str("f()\nprint(x)\n");
        }
        if st.g_top {
            p.push_str("g()\nprint(x)\n");
        }
        if st.h_set {
            p.push_str("h()\nprint(x)\nh()\nprint(x)\n");
        }
        p
    }

    fn describe(&self, st: &St) -> String {
        st.ops.iter().map(|o| OP_NAMES[*o as usize]).collect::<Vec<_>>().join(" ; ")
    }

    fn nontrivial(&self, st: &St) -> bool {
        let opens = st.ops.iter().any(|o| matches!(*o, OPEN_BLOCK | OPEN_F | OPEN_G | OPEN_WHILE | OPEN_FOR | OPEN_IF));
        let writes = st.ops.iter().any(|o| matches!(*o, DECL | ASSIGN | RET_CLOSURE | H_FN | CAPTURE_E));
        opens && writes
    }
}

// ----- a second, narrower exploration that goes deeper: use / shadow / define / call around blocks -----

#[derive(Clone)]
pub struct RSt {
    ops: Vec<u16>,
    text: String,
    open: Vec<usize>, // operations inside each open construct so far
    loops: Vec<bool>, // is the construct a loop
    next_k: u32,
    r_def: bool,
}

const R_NAMES: [&str; 13] = ["print(x)", "x := k", "x = k", "fn r() { print(x); x = k }", "r()", "{", "}", "for(2) {", "[x] = [k]", "{..x} = {\"a\": k}", "break", "if e[1] == 0 { continue }", "x := x + 100"];

struct Res;

impl Alphabet for Res {
    type St = RSt;
    fn init(&self) -> RSt {
        RSt { ops: vec![], text: String::from("x := 0\n"), open: vec![], loops: vec![], next_k: 1, r_def: false }
    }
    fn enabled(&self, st: &RSt) -> Vec<u16> {
        let last = st.ops.last().copied();
        (0..13u16)
            .filter(|op| match *op {
                10 | 11 => st.loops.last() == Some(&true) && last != Some(10) && last != Some(*op),
                0 => last != Some(0),
                3 => !st.r_def,
                4 => st.r_def,
                5 | 7 => st.open.len() < 3,
                6 => matches!(st.open.last(), Some(n) if *n > 0),
                _ => true,
            })
            .collect()
    }
    fn apply(&self, st: &RSt, op: u16) -> RSt {
        let mut s = st.clone();
        s.ops.push(op);
        if let Some(top) = s.open.last_mut() {
            *top += 1;
        }
        let k = s.next_k;
        match op {
            0 => s.text.push_str("print(x)\n"),
            1 => {
                s.text.push_str(&format!("x := {}\n", k));
                s.next_k += 1;
            }
            2 => {
                s.text.push_str(&format!("x = {}\n", k));
                s.next_k += 1;
            }
            3 => {
                s.text.push_str(&format!("fn r() {{\nprint(x)\nx = {}\n}}\n", k));
                s.next_k += 1;
                s.r_def = true;
            }
            4 => s.text.push_str("r()\n"),
            5 => {
                s.text.push_str("{\n");
                s.open.push(0);
                s.loops.push(false);
            }
            6 => {
                s.open.pop();
                s.loops.pop();
                s.text.push_str("}\n");
            }
            7 => {
                s.text.push_str("for e in [0, 1] {\n");
                s.open.push(0);
                s.loops.push(true);
            }
            12 => s.text.push_str("x := x + 100\n"),
            10 => s.text.push_str("break\n"),
            11 => s.text.push_str("if e[1] == 0 {\ncontinue\n}\n"),
            8 => {
                s.text.push_str(&format!("[x] = [{}]\n", k));
                s.next_k += 1;
            }
            _ => {
                s.text.push_str(&format!("{{..x}} = {{\"a\": {}}}\n", k));
                s.next_k += 1;
            }
        }
        s
    }
    fn program(&self, st: &RSt) -> String {
        let mut p = st.text.clone();
        p.push_str(&format!("print(\"{}\")\n", CURSOR_MARK));
        for _ in st.open.iter().rev() {
            p.push_str("print(x)\n}\n");
        }
        p.push_str("print(x)\n");
        p
    }
    fn describe(&self, st: &RSt) -> String {
        st.ops.iter().map(|o| R_NAMES[*o as usize]).collect::<Vec<_>>().join(" ; ")
    }
}

// ----- consistent renaming of a declared variable never changes what a program prints -----

/// (variant, old name, new name) for every simply declared name of `src` and three fresh spellings
fn rename_variants(src: &str) -> Vec<(String, String, String)> {
    use crate::refm::lex::{lex_raw, Tok};
    let (toks, err) = lex_raw(src);
    if err.is_some() {
        return vec![];
    }
    let is_sym = |t: Option<&crate::refm::lex::Token>, x: &str| matches!(t, Some(tt) if matches!(&tt.tok, Tok::Sym(s) if *s == x));
    let mut cands: Vec<String> = vec![];
    for (i, t) in toks.iter().enumerate() {
        if let Tok::Ident(name) = &t.tok {
            let prev = if i > 0 { toks.get(i - 1) } else { None };
            let next = toks.get(i + 1);
            let declared = is_sym(next, ":=") && (prev.is_none() || matches!(prev, Some(p) if p.tok == Tok::End) || is_sym(prev, "{"));
            let fn_name = matches!(prev, Some(p) if p.tok == Tok::Kw("fn"));
            if (declared || fn_name) && name != "this" && name != "_" && !cands.contains(name) {
                cands.push(name.clone());
            }
        }
    }
    let mut out = vec![];
    'cand: for name in cands {
        // the name must not be tied to a property name (shorthand) or occur inside a slot
        for (i, t) in toks.iter().enumerate() {
            match &t.tok {
                Tok::Ident(n) if *n == name => {
                    let prev = if i > 0 { toks.get(i - 1) } else { None };
                    let next = toks.get(i + 1);
                    let p_sh = is_sym(prev, "{") || is_sym(prev, ",");
                    let n_sh = is_sym(next, "}") || is_sym(next, ",");
                    if p_sh && n_sh {
                        continue 'cand;
                    }
                }
                Tok::Interp(_) => {
                    if src[t.start..t.end].contains(name.as_str()) {
                        continue 'cand;
                    }
                }
                _ => {}
            }
        }
        let spellings = vec![format!("_{}", name), format!("{}_r", name), format!("{}Z9", name), "_".repeat(2) + &name];
        for new in spellings {
            if toks.iter().any(|t| matches!(&t.tok, Tok::Ident(n) if *n == new)) {
                continue;
            }
            let mut v = String::new();
            let mut last = 0usize;
            for (i, t) in toks.iter().enumerate() {
                if let Tok::Ident(n) = &t.tok {
                    let prev = if i > 0 { toks.get(i - 1) } else { None };
                    if *n == name && !is_sym(prev, ".") && !is_sym(prev, "->") {
                        v.push_str(&src[last..t.start]);
                        v.push_str(&new);
                        last = t.end;
                    }
                }
            }
            v.push_str(&src[last..]);
            out.push((v, name.clone(), new));
        }
    }
    out
}

/// message text with positions erased and the new name written back as the old one
fn msg_shape(msg: &str, new: &str, old: &str) -> String {
    let m = msg.replace(new, old);
    let mut out = String::new();
    let b: Vec<char> = m.chars().collect();
    let mut i = 0;
    while i < b.len() {
        if b[i].is_ascii_digit() {
            while i < b.len() && (b[i].is_ascii_digit() || b[i] == ':') {
                i += 1;
            }
            out.push('#');
        } else {
            out.push(b[i]);
            i += 1;
        }
    }
    out
}

fn has_subseq(ops: &[u16], pat: &[u16]) -> bool {
    let mut i = 0;
    for o in ops {
        if i < pat.len() && *o == pat[i] {
            i += 1;
        }
    }
    i == pat.len()
}

impl Check for C04 {
    fn id(&self) -> &'static str {
        "C04"
    }

    fn run(&self, ctx: &mut Ctx) -> Result<(), MachineryError> {
        let depth = std::env::var("C04_DEPTH").ok().and_then(|s| s.parse().ok()).unwrap_or(ctx.tier.pick(6usize, 8usize));
        let alpha = Alpha { rich: true, ifs: ctx.tier == Tier::Thorough };
        ctx.rule = format!(
            "breadth-first over all well-formed histories of <= {} scope operations from {{x := k, x = k, print(x), open block / fn f / fn g / while(2 iterations) / for(2 elements){}, close, f(), g(), return a closure reading and writing x, h = f(), h(), h = closure, h = f, f = closure, closures calling f / g, the shorthand {{x}}, a function stored in an object and called as a method, a closure created in the first iteration of a for loop that reads the loop target, guarded recursive f()}} on top of `x := 0; h := null`; each program is completed by reading x at every open level, closing, and calling f, g, h at top level; dead states (failure before the cursor is first reached) are not expanded; plus a narrower exploration to a greater depth (<= {} operations from {{print(x), x := k, x = k, fn r reading and writing x, r(), open block, close, for(2), [x] = [k], {{..x}} = {{..}}}}); non-trivial = at least one scope-opening operation and one write of x",
            depth,
            if alpha.ifs { " / if" } else { "" },
            ctx.tier.pick(6usize, 9usize)
        );
        ctx.rule.push_str("; plus programs about which declaration a name reaches (pattern keys that read names bound earlier in the same pattern, non-functions shadowing a called function, declared functions that outlive their scope, names read, captured and then shadowed)");
        let mut g_closure_outlives = false;
        let mut g_late_decl = false;
        let mut g_rec = false;
        let mut g_loop_decl = false;
        let stats = bfs(
            ctx,
            &alpha,
            depth,
            |c, r, o| self.oracle(c, r, o),
            |_ctx, pairs| {
                for (st, j) in pairs {
                    if !j.r.is_ok() {
                        continue;
                    }
                    let ops = &st.ops;
                    if has_subseq(ops, &[OPEN_BLOCK, H_FN, CLOSE]) || has_subseq(ops, &[OPEN_F, RET_CLOSURE, CLOSE, H_CALLF]) {
                        g_closure_outlives = true;
                    }
                    if has_subseq(ops, &[OPEN_F, PRINT, CLOSE, DECL]) || has_subseq(ops, &[OPEN_F, ASSIGN, CLOSE, DECL]) {
                        g_late_decl = true;
                    }
                    if ops.contains(&REC) {
                        g_rec = true;
                    }
                    if has_subseq(ops, &[OPEN_WHILE, DECL]) || has_subseq(ops, &[OPEN_FOR, DECL]) {
                        g_loop_decl = true;
                    }
                }
            },
        )?;
        let rdepth = std::env::var("C04_RDEPTH").ok().and_then(|s| s.parse().ok()).unwrap_or(ctx.tier.pick(6usize, 9usize));
        let rstats = bfs(ctx, &Res, rdepth, |c, r, o| self.oracle(c, r, o), |_c, _p| {})?;
        ctx.extra.insert(
            "resolution_bounds".into(),
            json!({"max_operations": rdepth, "completed_depth": rstats.completed_depth, "operations": R_NAMES.len(), "levels(depth,generated,kept)": rstats.levels, "dead_states": rstats.dead}),
        );
        // renaming: every simply declared name of every corpus program under four fresh spellings
        {
            let corp = crate::layout::corpus();
            let mut cases = vec![];
            let mut pairs: Vec<(String, String, String, String)> = vec![];
            for (_name, src) in &corp {
                let vs = rename_variants(src);
                if vs.is_empty() {
                    continue;
                }
                let mut c = Case::new(src.clone(), 31, "original".to_string());
                c.no_ref = true;
                cases.push(c);
                for (v, old, new) in vs {
                    let mut c = Case::new(v.clone(), 31, format!("{} renamed to {}", old, new));
                    c.no_ref = true;
                    cases.push(c);
                    pairs.push((src.clone(), v, old, new));
                }
            }
            let n_ren = pairs.len();
            let judged = ctx.judge(cases, |_c, _r, _o| Verdict::Pass)?;
            let by_src: std::collections::HashMap<&str, &Judged> = judged.iter().map(|j| (j.case.src.as_str(), j)).collect();
            for (b, v, old, new) in &pairs {
                let (jb, jv) = match (by_src.get(b.as_str()), by_src.get(v.as_str())) {
                    (Some(x), Some(y)) => (*x, *y),
                    _ => continue,
                };
                if jb.o.class != jv.o.class || jb.o.stdout != jv.o.stdout || msg_shape(&jb.o.msg, "\u{0}", "\u{0}") != msg_shape(&jv.o.msg, new, old) {
                    let mut c = jv.case.clone();
                    c.companion = Some(b.clone());
                    ctx.report(&c, None, &jv.o, "renaming", format!("renaming {} to {} changed the behaviour: {:?} printing {:?} ({}); the original gives {:?} printing {:?} ({})", old, new, jv.o.class, jv.o.out_str(), jv.o.msg.lines().next().unwrap_or(""), jb.o.class, jb.o.out_str(), jb.o.msg.lines().next().unwrap_or("")));
                }
            }
            ctx.extra.insert("renamed_programs".into(), json!(n_ren));
        }
        let sp: Vec<Case> = SCOPE_PROGRAMS.iter().enumerate().map(|(i, p)| Case::new(p.to_string(), 30, format!("scope program {}", i))).collect();
        ctx.judge(sp, |c, r, o| self.oracle(c, r, o))?;
        let sc: Vec<Case> = super::evalorder::SCOPING_PROGRAMS.iter().enumerate().map(|(i, p)| Case::new(p.to_string(), 30, format!("which declaration a name reaches, program {}", i))).collect();
        ctx.judge(sc, |c, r, o| self.oracle(c, r, o))?;
        let tp: Vec<Case> = super::evalorder::THIS_PROGRAMS.iter().enumerate().map(|(i, p)| Case::new(p.to_string(), 30, format!("`this` is resolved where the function was created, program {}", i))).collect();
        ctx.judge(tp, |c, r, o| self.oracle(c, r, o))?;
        ctx.guard("a closure was called after its defining scope ended", g_closure_outlives);
        ctx.guard("a function used a variable declared after the function was defined", g_late_decl);
        ctx.guard("recursion re-entered a scope", g_rec);
        ctx.guard("a loop iteration re-declared a name", g_loop_decl);
        ctx.extra.insert(
            "bounds".into(),
            json!({"max_operations": depth, "completed_depth": stats.completed_depth, "operations": OP_NAMES.len(),
                   "levels(depth,generated,kept)": stats.levels, "dead_states": stats.dead, "merged_states": stats.merged}),
        );
        Ok(())
    }

    fn oracle(&self, c: &Case, r: &RefOutcome, o: &Outcome) -> Verdict {
        if o.stdout != r.stdout {
            return viol(
                "resolution",
                format!("a variable use resolved differently from lexical scoping ({}): printed {:?}, reference {:?}", c.meta, o.out_str(), String::from_utf8_lossy(&r.stdout)),
            );
        }
        if r.is_ok() != (o.class == Class::Ok) {
            return viol(
                "termination",
                format!("{}: reference ends {}, run ended {:?} {}", c.meta, if r.is_ok() { "ok" } else { "with an error" }, o.class, o.msg),
            );
        }
        Verdict::Pass
    }
}
