//! C08 — expressions group by fixed operator tiers, left to right; parentheses
//! override.  (1) All operator sequences up to length N over the 15 binary
//! operators and `..`, with every operand form for short sequences and three
//! spacing styles: the real parser's tree (hook `ast`) must equal the
//! reference parser's tree.  (2) All expression trees up to M operator nodes
//! over one operator per tier (all operators at the root pair): printed with
//! only the necessary parentheses, the real parser must return the same tree;
//! (3) every placement of redundant parentheses leaves it unchanged.
//! (4) Evaluation-level reading: operands chosen so that groupings differ.
use super::Check;
use crate::dbg::conv_prog_dump;
use crate::engine::*;
use crate::refm::ast::dump_prog;
use crate::refm::eval::RefOutcome;
use crate::refm::parse::parse_prog;
use crate::subject::{Class, MachineryError, Mode, Outcome};
use serde_json::json;

pub struct C08;

const OPS: [&str; 16] =
    ["*", "/", "%", "==", "!=", "<", "<=", ">", ">=", "===", "!==", "+", "-", "&&", "||", ".."];

fn tier(op: &str) -> u8 {
    match op {
        ".." => 5,
        "&&" | "||" => 4,
        "+" | "-" => 3,
        _ => 2,
    }
}

const OPERANDS: [&str; 14] = [
    "a", "1", "-2", "f(a)", "a[i]", "a[i:j]", "a.k", "a->type", "-2->type", "-2[0]", "f(a)(b)", "a[:]", "\"s\"", "[a, b][0]",
];

const T_SEQ: u32 = 1; // tree must equal the reference parser's tree
const T_TREE: u32 = 2; // meta carries the expected canonical tree
const T_EVAL: u32 = 3;

#[derive(Clone, Debug)]
enum E {
    Leaf(&'static str),
    Bin(&'static str, Box<E>, Box<E>),
}

impl E {
    fn canon(&self) -> String {
        match self {
            E::Leaf(s) => format!("(var {})", s),
            E::Bin(op, l, r) => format!("({} {} {})", op, l.canon(), r.canon()),
        }
    }
    fn tier(&self) -> u8 {
        match self {
            E::Leaf(_) => 0,
            E::Bin(op, _, _) => tier(op),
        }
    }
    /// print with only the necessary parentheses; `extra` lists sub-expression indices
    /// (pre-order) that get redundant parentheses
    fn print(&self, extra: u64, counter: &mut u32) -> String {
        let my = *counter;
        *counter += 1;
        let s = match self {
            E::Leaf(s) => s.to_string(),
            E::Bin(op, l, r) => {
                let ls = l.print(extra, counter);
                let rs = r.print(extra, counter);
                // left child: parentheses when it binds looser; right child: looser or equal
                let lp = l.tier() > self.tier();
                let rp = r.tier() >= self.tier();
                format!(
                    "{} {} {}",
                    if lp { format!("({})", ls) } else { ls },
                    op,
                    if rp { format!("({})", rs) } else { rs }
                )
            }
        };
        if extra & (1 << my) != 0 {
            format!("({})", s)
        } else {
            s
        }
    }
    fn size(&self) -> u32 {
        match self {
            E::Leaf(_) => 1,
            E::Bin(_, l, r) => 1 + l.size() + r.size(),
        }
    }
}

/// all trees with `n` operator nodes; the two topmost levels range over all operators,
/// deeper levels over one representative per tier; leaves are relabelled a, b, c, ... in order
fn trees(n: usize, reps: &[&'static str], all: &[&'static str], full_levels: u8) -> Vec<E> {
    fn shapes(n: usize, reps: &[&'static str], all: &[&'static str], level: u8, full_levels: u8) -> Vec<E> {
        if n == 0 {
            return vec![E::Leaf("_")];
        }
        let ops: &[&'static str] = if level < full_levels { all } else { reps };
        let mut out = vec![];
        for left in 0..n {
            let ls = shapes(left, reps, all, level + 1, full_levels);
            let rs = shapes(n - 1 - left, reps, all, level + 1, full_levels);
            for op in ops {
                for l in &ls {
                    for r in &rs {
                        out.push(E::Bin(op, Box::new(l.clone()), Box::new(r.clone())));
                    }
                }
            }
        }
        out
    }
    fn relabel(e: &E, ctr: &mut usize) -> E {
        const NAMES: [&str; 8] = ["a", "b", "c", "d", "e", "g", "h", "k"];
        match e {
            E::Leaf(_) => {
                let n = NAMES[*ctr % NAMES.len()];
                *ctr += 1;
                E::Leaf(n)
            }
            E::Bin(op, l, r) => {
                let l2 = relabel(l, ctr);
                let r2 = relabel(r, ctr);
                E::Bin(op, Box::new(l2), Box::new(r2))
            }
        }
    }
    shapes(n, reps, all, 0, full_levels).iter().map(|t| relabel(t, &mut 0)).collect()
}

fn seq_text(operands: &[&str], ops: &[&str], style: u8) -> String {
    let mut s = String::new();
    for (i, o) in operands.iter().enumerate() {
        if i > 0 {
            match style {
                0 => s.push_str(&format!(" {} ", ops[i - 1])),
                1 => s.push_str(ops[i - 1]),
                _ => s.push_str(&format!(" {}", ops[i - 1])),
            }
        }
        s.push_str(o);
    }
    s
}

/// the Debug dump with every `(line, col)` pair erased
pub fn erase_positions(d: &str) -> String {
    let b: Vec<char> = d.chars().collect();
    let mut out = String::new();
    let mut i = 0;
    while i < b.len() {
        if b[i] == '(' {
            // ( digits , space* digits )  with optional whitespace / newlines (pretty or compact Debug)
            let mut j = i + 1;
            let skip_ws = |j: &mut usize| {
                while *j < b.len() && b[*j].is_whitespace() {
                    *j += 1;
                }
            };
            skip_ws(&mut j);
            let d0 = j;
            while j < b.len() && b[j].is_ascii_digit() {
                j += 1;
            }
            if j > d0 && j < b.len() && b[j] == ',' {
                j += 1;
                skip_ws(&mut j);
                let d1 = j;
                while j < b.len() && b[j].is_ascii_digit() {
                    j += 1;
                }
                if j > d1 {
                    if j < b.len() && b[j] == ',' {
                        j += 1;
                    }
                    skip_ws(&mut j);
                    if j < b.len() && b[j] == ')' {
                        out.push_str("(@)");
                        i = j + 1;
                        continue;
                    }
                }
            }
        }
        out.push(b[i]);
        i += 1;
    }
    out
}

impl Check for C08 {
    fn id(&self) -> &'static str {
        "C08"
    }

    fn run(&self, ctx: &mut Ctx) -> Result<(), MachineryError> {
        let max_seq = ctx.tier.pick(3usize, 4usize);
        let max_tree = ctx.tier.pick(4usize, 5usize);
        ctx.rule = format!(
            "(1) all operator sequences e0 o1 e1 .. on en, n <= {}, over the 15 binary operators and `..`; every assignment of {} operand forms (name, literal, negative literal, call, index, range index, property, type property, postfix forms on a negative literal, chained calls, string, list literal) for n <= 2 in three spacing styles, one varied operand for larger n; the real parser's tree (hook ast) must equal the reference parser's tree, and a text one parser rejects the other must reject; the same for 11 statements followed by a line that begins with a negative literal, an operator or a postfix form; (2) all expression trees with <= {} operator nodes over one operator per tier (all 16 at the two topmost levels), printed with only the necessary parentheses: the real parser must return the tree itself; (3) every subset (<= 64 per tree) of redundant parenthesis placements leaves the tree unchanged, as do 1..64 and selected numbers up to 5000 of nested redundant pairs; (4) all operator pairs evaluated, bare and with either grouping parenthesised, on 13 operand triples for which the groupings print different values and on 10 triples at the edges of the 64-bit range where the grouping decides whether an intermediate result overflows, and inside nested interpolation slots; non-trivial = all",
            max_seq,
            OPERANDS.len(),
            max_tree
        );
        let mut cases: Vec<Case> = vec![];
        // set when a dump could not be read; a machinery failure at the end unless the relational
        // comparison found a violation in the meantime
        let unreadable_msg: std::cell::RefCell<Option<String>> = std::cell::RefCell::new(None);
        let flush = |ctx: &mut Ctx, cases: &mut Vec<Case>, this: &C08| -> Result<(), MachineryError> {
            if cases.is_empty() {
                return Ok(());
            }
            let judged = ctx.judge(std::mem::take(cases), |c, r, o| this.oracle(c, r, o))?;
            let mut unreadable: Option<String> = None;
            for j in &judged {
                if j.case.mode == Mode::Ast && j.o.class == Class::Ok {
                    if let Err(e) = conv_prog_dump(&j.o.out_str()) {
                        unreadable = Some(format!("cannot read the AST dump ({}): {}", e, j.o.out_str().chars().take(300).collect::<String>()));
                        break;
                    }
                }
            }
            if let Some(msg) = unreadable {
                // The dump uses names this engine does not know (the syntax tree types changed).
                // The relational half of the property needs no knowledge of the node kinds: all
                // parenthesisations of one tree must give the same dump once positions are erased.
                let mut first: std::collections::HashMap<&str, (String, &Judged)> = std::collections::HashMap::new();
                let mut found = false;
                for j in judged.iter().filter(|j| j.case.tag == T_TREE && j.o.class == Class::Ok) {
                    let norm = erase_positions(&j.o.out_str());
                    match first.get(j.case.meta.as_str()) {
                        None => {
                            first.insert(j.case.meta.as_str(), (norm, j));
                        }
                        Some((n0, j0)) => {
                            if *n0 != norm {
                                let mut rc = j.case.clone();
                                rc.companion = Some(j0.case.src.clone());
                                ctx.report(
                                    &rc,
                                    None,
                                    &j.o,
                                    "redundant-parentheses",
                                    format!("{:?} and {:?} differ only in redundant parentheses but parse to different trees (dumps compared with positions erased)", j0.case.src, j.case.src),
                                );
                                found = true;
                                break;
                            }
                        }
                    }
                }
                if !found && unreadable_msg.borrow().is_none() {
                    *unreadable_msg.borrow_mut() = Some(msg);
                }
            }
            Ok(())
        };
        // (1) operator sequences
        let no = OPS.len();
        let nf = OPERANDS.len();
        let nf2 = ctx.tier.pick(8usize, OPERANDS.len());
        let mut n_seq = 0u64;
        for n in 1..=max_seq {
            for oidx in 0..no.pow(n as u32) {
                let mut ops = vec![];
                let mut x = oidx;
                for _ in 0..n {
                    ops.push(OPS[x % no]);
                    x /= no;
                }
                if n <= 2 {
                    let nf = if n == 2 { nf2 } else { nf };
                    for fidx in 0..nf.pow(n as u32 + 1) {
                        let mut operands = vec![];
                        let mut y = fidx;
                        for _ in 0..=n {
                            operands.push(OPERANDS[y % nf]);
                            y /= nf;
                        }
                        for style in 0..3u8 {
                            if style > 0 && n == 2 && fidx % 7 != 0 {
                                continue;
                            }
                            let mut c = Case::new(format!("x := {}\n", seq_text(&operands, &ops, style)), T_SEQ, format!("sequence ops {:?} operands {:?} style {}", ops, operands, style));
                            c.mode = Mode::Ast;
                            c.no_ref = true;
                            cases.push(c);
                            n_seq += 1;
                        }
                    }
                } else {
                    // one varied operand, the others plain names
                    for pos in 0..=n {
                        for f in 0..nf {
                            let mut operands: Vec<&str> = ["a", "b", "c", "d", "e"][..=n].to_vec();
                            operands[pos] = OPERANDS[f];
                            let mut c = Case::new(format!("x := {}\n", seq_text(&operands, &ops, 0)), T_SEQ, format!("sequence ops {:?} operands {:?}", ops, operands));
                            c.mode = Mode::Ast;
                            c.no_ref = true;
                            cases.push(c);
                            n_seq += 1;
                        }
                    }
                }
                if cases.len() >= 100_000 {
                    flush(ctx, &mut cases, self)?;
                }
            }
        }
        flush(ctx, &mut cases, self)?;
        // (2) + (3) trees
        let reps: [&'static str; 4] = ["*", "+", "&&", ".."];
        let all: Vec<&'static str> = OPS.to_vec();
        let mut n_trees = 0u64;
        for n in 1..=max_tree {
            let ts = trees(n, &reps, &all, if n + 2 <= max_tree { 2 } else if n + 1 == max_tree { 1 } else { 0 });
            for t in ts {
                n_trees += 1;
                let expected = format!("[(declare (var x) {})]", t.canon());
                let sites = t.size();
                let subsets: Vec<u64> = if sites <= 6 {
                    (0..(1u64 << sites)).collect()
                } else {
                    // the low 5 sites exhaustively, every single site, every pair of adjacent
                    // sites, and all sites
                    let mut v: Vec<u64> = (0..32u64).collect();
                    for i in 0..sites {
                        v.push(1 << i);
                        if i + 1 < sites {
                            v.push((1 << i) | (1 << (i + 1)));
                        }
                    }
                    v.push((1u64 << sites) - 1);
                    v.sort();
                    v.dedup();
                    v
                };
                for extra in subsets {
                    let mut ctr = 0;
                    let text = t.print(extra, &mut ctr);
                    let mut c = Case::new(format!("x := {}\n", text), T_TREE, expected.clone());
                    c.mode = Mode::Ast;
                    c.no_ref = true;
                    c.nontrivial = true;
                    cases.push(c);
                }
                if cases.len() >= 100_000 {
                    flush(ctx, &mut cases, self)?;
                    if ctx.over_cap() {
                        break;
                    }
                }
            }
        }
        flush(ctx, &mut cases, self)?;
        // (1b) a statement that begins with a negative literal (or with an operator-led line) after a
        // complete statement: the line break ends the first statement, the `-` negates the literal
        for first in ["y := a", "y := 7", "y := a + b", "y := f(a)", "y := xs[0]", "y := (a)", "print(a)", "y := \"s\"", "y := -1", "y := a .. b", "y := o.k"] {
            for second in ["-2", "-2 + a", "- 2", "-2 .. 5", "-a", "(-2)", "+ 2", "* 2", ".. 2", "[0]", "(a)", ".k", "->type()", "== 2", "&& true"] {
                let mut c = Case::new(format!("{}\n{}\nz := 1\n", first, second), T_SEQ, format!("statement {:?} followed by the line {:?}", first, second));
                c.mode = Mode::Ast;
                c.no_ref = true;
                cases.push(c);
            }
        }
        flush(ctx, &mut cases, self)?;
        // (3a) redundant parentheses around operands that span lines (function literals with several
        // statements, literals with line breaks, calls with continuation breaks): same tree
        for inner in [
            "fn () {\ny := 1\nreturn y\n}",
            "fn (p) {\nprint(p)\n-1 .. p\nreturn p\n}",
            "fn () {\nif a {\nreturn 1\n}\nreturn 2\n}",
            "[\n1,\n2\n]",
            "{\n\"k\": 1,\n\"l\": fn () {\nq := 2\nreturn q\n}\n}",
            "f(\na,\nb)",
            "a +\nb",
            "$\"l1\nl2 ${a}\"",
        ] {
            for ctxt in ["x := @\n", "x := @ + 1\n", "x := [@]\n", "x := f(@)\n", "x := {\"k\": @}\n", "return @\n", "x := @ == @\n"] {
                if inner.contains(" +\n") && (ctxt.contains("@ +") || ctxt.contains("@ ==")) {
                    continue; // the parentheses are not redundant there
                }
                let base = ctxt.replace('@', inner);
                for wrapped in [format!("({})", inner), format!("(({}))", inner), format!("( {} )", inner), format!("(\n{})", inner)] {
                    if wrapped.starts_with("(\n") && !ctxt.starts_with("x := @") {
                        continue;
                    }
                    let text = ctxt.replace('@', &wrapped);
                    let expected = match parse_prog(&base) {
                        Ok(p) => dump_prog(&p),
                        Err(_) => continue,
                    };
                    let mut c = Case::new(text, T_TREE, expected);
                    c.mode = Mode::Ast;
                    c.no_ref = true;
                    cases.push(c);
                }
            }
            // called immediately, with and without parentheses around the callee
            if inner.starts_with("fn") {
                cases.push(Case::new(format!("a := true\nprint(({})(5))\nprint(\"end\")\n", inner), T_EVAL, "a parenthesised multi-line function literal called immediately".to_string()));
            }
        }
        flush(ctx, &mut cases, self)?;
        // (3c) parentheses around the whole expression of a statement: iterable, condition, returned
        // value, right-hand side, argument, index -- same tree, and the same behaviour when the body
        // changes what the expression read
        for e in ["a .. b", "a + b", "f(a)", "a", "a == b", "a .. b + 1", "xs[a]"] {
            for ctxt in ["for e in @ {\nprint(e)\n}\n", "if @ {\nprint(1)\n}\n", "while @ {\nbreak\n}\n", "return @\n", "x := @\n", "x = @\n", "x += @\n", "print(@)\n", "xs[@] = 1\n", "x := xs[@]\n", "x := xs[@:]\n", "x := [@, 1]\n", "x := {\"k\": @}\n", "x := f(@, 1)\n"] {
                let base = ctxt.replace('@', e);
                let expected = match parse_prog(&base) {
                    Ok(p) => dump_prog(&p),
                    Err(_) => continue,
                };
                for w in [format!("({})", e), format!("(({}))", e), format!("( {} )", e)] {
                    let mut c = Case::new(ctxt.replace('@', &w), T_TREE, expected.clone());
                    c.mode = Mode::Ast;
                    c.no_ref = true;
                    cases.push(c);
                }
            }
        }
        for (lo, hi) in [("0", "todo"), ("0", "todo + 1"), ("todo - 3", "todo")] {
            for w in ["@", "(@)", "((@))"] {
                let r = w.replace('@', &format!("{} .. {}", lo, hi));
                cases.push(Case::new(format!("todo := 5\nfor [_, i] in {} {{\nprint(i)\ntodo -= 1\n}}\nprint(todo)\nn := 3\nwhile {} {{\nn -= 1\n}}\nprint(n)\n", r, w.replace('@', "n > 0")), T_EVAL, format!("iterable {} and a body that changes its bound", r)));
            }
        }
        flush(ctx, &mut cases, self)?;
        // (3b) any number of redundant parentheses: n pairs around a name, around a whole operation
        // and around its right operand leave the tree unchanged (n up to 64, then selected sizes)
        let mut depths: Vec<usize> = (1..=64).collect();
        depths.extend([100, 128, 199, 200, 201, 255, 256, 257, 500, 1000, 5000]);
        for &n in &depths {
            let (o, cl) = ("(".repeat(n), ")".repeat(n));
            for (text, expected) in [
                (format!("x := {}a{}\n", o, cl), "[(declare (var x) (var a))]".to_string()),
                (format!("x := {}a + b{}\n", o, cl), "[(declare (var x) (+ (var a) (var b)))]".to_string()),
                (format!("x := a * {}b + c{}\n", o, cl), "[(declare (var x) (* (var a) (+ (var b) (var c))))]".to_string()),
                (format!("x := {}a{} + {}b{}\n", o, cl, o, cl), "[(declare (var x) (+ (var a) (var b)))]".to_string()),
            ] {
                let mut c = Case::new(text, T_TREE, expected);
                c.mode = Mode::Ast;
                c.no_ref = true;
                cases.push(c);
            }
            if n <= 1000 {
                cases.push(Case::new(format!("a := 2\nb := 3\nc := 4\nprint(a * {}b + c{})\nprint({}a{} - {}b{} - c)\n", o, cl, o, cl, o, cl), T_EVAL, format!("eval under {} redundant parentheses", n)));
            }
        }
        flush(ctx, &mut cases, self)?;
        // (4) evaluation-level reading
        let triples: [(&str, &str, &str); 13] = [("7", "3", "2"), ("2", "2", "3"), ("-7", "3", "-2"), ("1", "0", "1"), ("5", "5", "1"), ("true", "true", "true"), ("true", "true", "false"), ("true", "false", "true"), ("true", "false", "false"), ("false", "true", "true"), ("false", "true", "false"), ("false", "false", "true"), ("false", "false", "false")];
        for o1 in &OPS {
            for o2 in &OPS {
                for (a, b, c3) in triples {
                    cases.push(Case::new(format!("print({} {} {} {} {})\n", a, o1, b, o2, c3), T_EVAL, format!("eval {} {} on {} {} {}", o1, o2, a, b, c3)));
                    cases.push(Case::new(format!("a := {}\nb := {}\nc := {}\nprint(a {} b {} c)\n", a, b, c3, o1, o2), T_EVAL, format!("eval {} {} on variables {} {} {}", o1, o2, a, b, c3)));
                    cases.push(Case::new(format!("a := {}\nb := {}\nc := {}\nprint((a {} b) {} c)\nprint(a {} (b {} c))\n", a, b, c3, o1, o2, o1, o2), T_EVAL, format!("eval parenthesised {} {} on variables {} {} {}", o1, o2, a, b, c3)));
                }
            }
        }
        // the same at the edges of the integer range, where the grouping decides whether an
        // intermediate result overflows; each grouping is its own program so that a reported
        // overflow in one does not hide the other
        let max = "9223372036854775807";
        let min = "-9223372036854775807 - 1";
        let edge: [(&str, &str, &str); 10] = [
            (max, "1", "-1"),
            ("-1", max, "1"),
            (min, "-1", "1"),
            ("1", min, "-1"),
            (max, max, min),
            (min, max, "1"),
            ("2", max, "0"),
            (min, "-1", "-1"),
            ("-1", min, "-1"),
            ("3037000500", "3037000500", "-1"),
        ];
        for o1 in &OPS {
            for o2 in &OPS {
                for (a, b, c3) in edge {
                    let pre = format!("a := {}\nb := {}\nc := {}\n", a, b, c3);
                    cases.push(Case::new(format!("{}print(a {} b {} c)\n", pre, o1, o2), T_EVAL, format!("eval {} {} at the edge {} | {} | {}", o1, o2, a, b, c3)));
                    cases.push(Case::new(format!("{}print((a {} b) {} c)\n", pre, o1, o2), T_EVAL, format!("eval left-parenthesised {} {} at the edge {} | {} | {}", o1, o2, a, b, c3)));
                    cases.push(Case::new(format!("{}print(a {} (b {} c))\n", pre, o1, o2), T_EVAL, format!("eval right-parenthesised {} {} at the edge {} | {} | {}", o1, o2, a, b, c3)));
                }
            }
        }
        // groupings inside interpolation slots, two slots of one literal holding nested literals at
        // the same slot-relative position but with different groupings
        for o1 in ["+", "-", "*", "/", "%"] {
            for o2 in ["+", "-", "*", "/", "%"] {
                for (a, b, c3) in [("7", "3", "2"), ("2", "2", "3"), ("9", "4", "2"), ("1", "1", "1")] {
                    cases.push(Case::new(
                        format!(
                            "d := \"0123456789\"\na := {}\nb := {}\nc := {}\nprint($\"${{$\"<${{d[(a {} b) {} c]}}>\"}} ${{$\"<${{d[a {} (b {} c)]}}>\"}}\")\nprint($\"${{d[a {} b {} c]}}\")\n",
                            a, b, c3, o1, o2, o1, o2, o1, o2
                        ),
                        T_EVAL,
                        format!("eval {} {} inside nested slots on {} {} {}", o1, o2, a, b, c3),
                    ));
                }
            }
        }
        flush(ctx, &mut cases, self)?;
        if let Some(msg) = unreadable_msg.borrow().clone() {
            if ctx.violation_count == 0 {
                return Err(MachineryError(msg));
            }
        }
        ctx.extra.insert(
            "bounds".into(),
            json!({"operators": OPS.len(), "max_sequence_length": max_seq, "operand_forms": OPERANDS.len(), "sequences": n_seq,
                   "max_tree_operator_nodes": max_tree, "trees": n_trees, "redundant_paren_subsets_cap": 64}),
        );
        Ok(())
    }

    fn replay_group(&self, c: &Case, pool: &crate::subject::Pool) -> Result<Option<Verdict>, MachineryError> {
        let base = match &c.companion {
            Some(b) => b.clone(),
            None => return Ok(None),
        };
        let reqs = [crate::subject::Req { mode: Mode::Ast, label: "case.sd", src: &base }, crate::subject::Req { mode: Mode::Ast, label: "case.sd", src: &c.src }];
        let o = pool.run(&reqs)?;
        println!("companion: {:?} -> {}", base, o[0].out_str().trim());
        println!("variant:   {:?} -> {}", c.src, o[1].out_str().trim());
        if o[0].class == o[1].class && erase_positions(&o[0].out_str()) == erase_positions(&o[1].out_str()) {
            return Ok(Some(Verdict::Pass));
        }
        Ok(Some(viol("redundant-parentheses", format!("{:?} and {:?} differ only in redundant parentheses but parse to different trees", base, c.src))))
    }

    fn oracle(&self, c: &Case, r: &RefOutcome, o: &Outcome) -> Verdict {
        match c.tag {
            T_EVAL => {
                if o.stdout != r.stdout || r.is_ok() != (o.class == Class::Ok) {
                    return viol("grouping-value", format!("{}: printed {:?} ({:?}), reference {:?}", c.meta, o.out_str(), o.class, String::from_utf8_lossy(&r.stdout)));
                }
                Verdict::Pass
            }
            T_SEQ | T_TREE => {
                let got = match conv_prog_dump(&o.out_str()) {
                    Ok(x) => x.map(|x| x.0),
                    Err(_) => return Verdict::Pass, // reported as machinery failure by the caller
                };
                let want: Option<String> = if c.tag == T_TREE {
                    Some(c.meta.clone())
                } else {
                    parse_prog(&c.src).ok().map(|p| dump_prog(&p))
                };
                match (got, want) {
                    (Some(g), Some(w)) => {
                        if g != w {
                            return viol("grouping", format!("{:?} parsed as {} but the tiers give {}", c.src.trim(), g, w));
                        }
                    }
                    (None, Some(w)) => return viol("valid-expression-rejected", format!("{:?} was rejected; the tiers give {}", c.src.trim(), w)),
                    (Some(g), None) => return viol("invalid-expression-accepted", format!("{:?} is not an expression of the grammar but parsed as {}", c.src.trim(), g)),
                    (None, None) => {}
                }
                Verdict::Pass
            }
            _ => Verdict::Pass,
        }
    }
}
