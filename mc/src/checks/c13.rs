//! C13 — destructuring, spread and collect are inverse, lossless
//! rearrangements.  Complete product: all list patterns up to a width bound
//! over {name, `_`, nested list, nested list with collect, nested object,
//! shorthand object} x {no rest, `..r`, `.._`} x source lengths 0..5, all
//! object patterns over ordered key subsets x entry forms x rest x all source
//! key subsets, each in declaration, assignment, for-target and parameter
//! position; mismatched shapes; malformed patterns; spread laws; argument
//! splits.  Oracle: length/key rules written from the statement + reference
//! binder + round-trip laws evaluated by the subject.
use super::Check;
use crate::engine::*;
use crate::refm::eval::RefOutcome;
use crate::subject::{Class, MachineryError, Outcome};
use serde_json::json;

pub struct C13;

const T_EXPECT_OK: u32 = 1;
const T_EXPECT_ERR: u32 = 2;
const T_REF: u32 = 3;

#[derive(Clone, Copy, PartialEq)]
enum It {
    Name,
    Under,
    L2,
    LC,
    O1,
    OSh,
}
const ITEMS: [It; 6] = [It::Name, It::Under, It::L2, It::LC, It::O1, It::OSh];

struct Pat {
    text: String,
    names: Vec<String>,
    n_plain: usize,
    rest: Option<String>, // Some(name) / Some("_")
    items: Vec<It>,
    dup: bool,
}

fn list_pattern(items: &[It], rest: u8) -> Pat {
    let mut parts = vec![];
    let mut names = vec![];
    let mut k = 0;
    let mut fresh = |names: &mut Vec<String>| {
        let n = format!("v{}", k);
        k += 1;
        names.push(n.clone());
        n
    };
    let mut sh_count = 0;
    for it in items {
        match it {
            It::Name => parts.push(fresh(&mut names)),
            It::Under => parts.push("_".to_string()),
            It::L2 => {
                let a = fresh(&mut names);
                let b = fresh(&mut names);
                parts.push(format!("[{}, {}]", a, b));
            }
            It::LC => {
                let a = fresh(&mut names);
                let b = fresh(&mut names);
                parts.push(format!("[{}, ..{}]", a, b));
            }
            It::O1 => {
                let a = fresh(&mut names);
                parts.push(format!("{{\"k\": {}}}", a));
            }
            It::OSh => {
                sh_count += 1;
                if sh_count == 1 {
                    names.push("k".to_string());
                }
                parts.push("{k}".to_string());
            }
        }
    }
    let rest_name = match rest {
        1 => {
            parts.push("..r".to_string());
            names.push("r".to_string());
            Some("r".to_string())
        }
        2 => {
            parts.push(".._".to_string());
            Some("_".to_string())
        }
        _ => None,
    };
    Pat {
        text: format!("[{}]", parts.join(", ")),
        names,
        n_plain: items.len(),
        rest: rest_name,
        items: items.to_vec(),
        dup: sh_count > 1,
    }
}

fn elem_for(it: Option<It>, i: usize) -> String {
    match it {
        Some(It::L2) => format!("[{}, {}]", 10 + i, 20 + i),
        Some(It::LC) => format!("[{}, {}, {}]", 10 + i, 20 + i, 30 + i),
        Some(It::O1) | Some(It::OSh) => format!("{{\"k\": {}}}", 10 + i),
        _ => format!("{}", 10 + i),
    }
}

const PREDECL: &str = "v0 := null\nv1 := null\nv2 := null\nv3 := null\nv4 := null\nv5 := null\nv6 := null\nv7 := null\nv8 := null\nv9 := null\nv10 := null\nv11 := null\nv12 := null\nv13 := null\nv14 := null\nv15 := null\nk := null\nr := null\na := null\nb := null\nc := null\nn0 := null\nn1 := null\nn2 := null\n";

fn in_position(pos: usize, pat: &str, src: &str, prints: &str) -> String {
    match pos {
        0 => format!("S := {}\nprint(\"pre\")\n{} := S\n{}print(\"end\")\n", src, pat, prints),
        1 => format!("{}S := {}\nprint(\"pre\")\n{} = S\n{}print(\"end\")\n", PREDECL, src, pat, prints),
        2 => format!("S := {}\nprint(\"pre\")\nfor [_, {}] in [S, S] {{\n{}}}\nprint(\"end\")\n", src, pat, prints),
        _ => format!("S := {}\nprint(\"pre\")\nfn f({}) {{\n{}}}\nf(S)\nprint(\"end\")\n", src, pat, prints),
    }
}

fn list_cases(max_width: usize, out: &mut Vec<Case>) {
    let n = ITEMS.len();
    for w in 0..=max_width {
        for idx in 0..n.pow(w as u32) {
            let mut items = vec![];
            let mut x = idx;
            for _ in 0..w {
                items.push(ITEMS[x % n]);
                x /= n;
            }
            for rest in 0..3u8 {
                let p = list_pattern(&items, rest);
                for m in 0..=(max_width + 1).max(5) {
                    let src_items: Vec<String> = (0..m).map(|i| elem_for(items.get(i).copied(), i)).collect();
                    let src = format!("[{}]", src_items.join(", "));
                    let len_ok = if p.rest.is_some() { m >= p.n_plain } else { m == p.n_plain };
                    let ok = len_ok && !p.dup;
                    let mut prints = String::new();
                    for nm in &p.names {
                        prints.push_str(&format!("print({})\n", nm));
                    }
                    if p.rest.as_deref() == Some("r") {
                        prints.push_str(&format!("print((S[:{}] + r) == S)\nprint(r === S)\n", p.n_plain));
                    }
                    for pos in 0..4 {
                        let src_p = in_position(pos, &p.text, &src, &prints);
                        let tag = if ok { T_EXPECT_OK } else { T_EXPECT_ERR };
                        out.push(Case::new(src_p, tag, format!("list pattern {} <- length {} position {}", p.text, m, pos)));
                    }
                    // a nested item facing a plain int: shape mismatch
                    if len_ok && !p.dup && pos_of_nested(&items).is_some() && m > 0 {
                        let bad_i = pos_of_nested(&items).unwrap();
                        if bad_i < m {
                            let mut bad = src_items.clone();
                            bad[bad_i] = "7".to_string();
                            let srcb = format!("[{}]", bad.join(", "));
                            out.push(Case::new(
                                in_position(0, &p.text, &srcb, &prints),
                                T_EXPECT_ERR,
                                format!("list pattern {} <- element {} of the wrong kind", p.text, bad_i),
                            ));
                        }
                    }
                }
                // the pattern itself as a `for` target: it destructures the pair [index, element]
                {
                    let e = elem_for(items.get(1).copied(), 1);
                    let len_ok = if p.rest.is_some() { 2 >= p.n_plain } else { 2 == p.n_plain };
                    let first_ok = matches!(items.first(), None | Some(It::Name) | Some(It::Under));
                    let ok = len_ok && first_ok && !p.dup;
                    let mut prints = String::new();
                    for nm in &p.names {
                        prints.push_str(&format!("print({})\n", nm));
                    }
                    let src = format!("print(\"pre\")\nfor {} in [{}, {}] {{\n{}}}\nprint(\"end\")\n", p.text, e, e, prints);
                    out.push(Case::new(src, if ok { T_EXPECT_OK } else { T_EXPECT_ERR }, format!("for target {} over elements {}", p.text, e)));
                    // over an object and a string
                    if w <= 2 {
                        let src = format!("print(\"pre\")\nfor {} in {{\"q\": {}}} {{\n{}}}\nprint(\"end\")\n", p.text, e, prints);
                        out.push(Case::new(src, if ok { T_EXPECT_OK } else { T_EXPECT_ERR }, format!("for target {} over object values {}", p.text, e)));
                    }
                }
                // non-list sources
                for bad in ["null", "5", "\"ab\"", "{\"k\": 1}", "print"] {
                    out.push(Case::new(in_position(0, &p.text, bad, ""), T_EXPECT_ERR, format!("list pattern {} <- {}", p.text, bad)));
                }
            }
        }
    }
}

fn pos_of_nested(items: &[It]) -> Option<usize> {
    items.iter().position(|i| matches!(i, It::L2 | It::LC | It::O1 | It::OSh))
}

fn object_cases(out: &mut Vec<Case>, thorough: bool) {
    let keys = ["a", "b", "c"];
    // ordered selections of distinct keys, size 0..3
    let mut sels: Vec<Vec<usize>> = vec![vec![]];
    for i in 0..3 {
        sels.push(vec![i]);
        for j in 0..3 {
            if j != i {
                sels.push(vec![i, j]);
                for l in 0..3 {
                    if l != i && l != j {
                        sels.push(vec![i, j, l]);
                    }
                }
            }
        }
    }
    let extras = ["x", "y"];
    for sel in &sels {
        let forms = 4usize.pow(sel.len() as u32);
        for f in 0..forms {
            for rest in 0..3u8 {
                let mut parts = vec![];
                let mut names: Vec<String> = vec![];
                let mut rebuild = vec![];
                let mut x = f;
                for (pi, ki) in sel.iter().enumerate() {
                    let key = keys[*ki];
                    match x % 4 {
                        0 => {
                            parts.push(key.to_string());
                            names.push(key.to_string());
                            rebuild.push(format!("\"{}\": {}", key, key));
                        }
                        1 => {
                            let n = format!("n{}", pi);
                            parts.push(format!("\"{}\": {}", key, n));
                            names.push(n.clone());
                            rebuild.push(format!("\"{}\": {}", key, n));
                        }
                        2 => {
                            parts.push(format!("\"{}\": _", key));
                            rebuild.push(format!("\"{}\": S[\"{}\"]", key, key));
                        }
                        _ => {
                            let n = format!("n{}", pi);
                            parts.push(format!("\"{}\": [{}, _]", key, n));
                            names.push(n.clone());
                            rebuild.push(format!("\"{}\": S[\"{}\"]", key, key));
                        }
                    }
                    x /= 4;
                }
                let has_nested = {
                    let mut y = f;
                    let mut any = false;
                    for _ in sel {
                        if y % 4 == 3 {
                            any = true;
                        }
                        y /= 4;
                    }
                    any
                };
                match rest {
                    1 => {
                        parts.push("..r".to_string());
                        names.push("r".to_string());
                        rebuild.push("r..".to_string());
                    }
                    2 => parts.push(".._".to_string()),
                    _ => {}
                }
                let pat = format!("{{{}}}", parts.join(", "));
                // sources: every subset of {a, b, c, x, y}
                for mask in 0..32u32 {
                    if !thorough && sel.len() == 3 && mask.count_ones() < 2 {
                        continue;
                    }
                    let mut entries = vec![];
                    let mut have = [false; 3];
                    for (bi, k) in keys.iter().chain(extras.iter()).enumerate() {
                        if mask & (1 << bi) != 0 {
                            let is_nested_key = {
                                let mut y = f;
                                let mut nested = false;
                                for ki in sel {
                                    if keys[*ki] == *k && y % 4 == 3 {
                                        nested = true;
                                    }
                                    y /= 4;
                                }
                                nested
                            };
                            if is_nested_key {
                                entries.push(format!("\"{}\": [{}, 0]", k, 10 + bi));
                            } else {
                                entries.push(format!("\"{}\": {}", k, 10 + bi));
                            }
                            if bi < 3 {
                                have[bi] = true;
                            }
                        }
                    }
                    // entries in descending order (construction order must not matter)
                    entries.reverse();
                    let src = format!("{{{}}}", entries.join(", "));
                    let ok = sel.iter().all(|ki| have[*ki]);
                    let mut prints = String::new();
                    for nm in &names {
                        prints.push_str(&format!("print({})\n", nm));
                    }
                    if rest == 1 {
                        prints.push_str(&format!("print({{{}}} == S)\nprint(r === S)\n", rebuild.join(", ")));
                    }
                    let positions: &[usize] = if has_nested || thorough || sel.len() < 3 { &[0, 1, 2, 3] } else { &[0, 3] };
                    for pos in positions {
                        out.push(Case::new(
                            in_position(*pos, &pat, &src, &prints),
                            if ok { T_EXPECT_OK } else { T_EXPECT_ERR },
                            format!("object pattern {} <- {} position {}", pat, src, pos),
                        ));
                    }
                }
                for bad in ["null", "5", "\"ab\"", "[1]", "print"] {
                    out.push(Case::new(in_position(0, &pat, bad, ""), T_EXPECT_ERR, format!("object pattern {} <- {}", pat, bad)));
                }
            }
        }
    }
}

fn malformed_cases(out: &mut Vec<Case>) {
    let bad = [
        ("[a, a] := [1, 2]", "name bound twice"),
        ("[a, [a]] := [1, [2]]", "name bound twice (nested)"),
        ("[a, ..a] := [1, 2]", "name bound twice (collect)"),
        ("{a, \"b\": a} := {\"a\": 1, \"b\": 2}", "name bound twice (object)"),
        ("{a, ..a} := {\"a\": 1, \"b\": 2}", "name bound twice (object collect)"),
        ("[a, {\"k\": a}] := [1, {\"k\": 2}]", "name bound twice (mixed)"),
        ("a := 0\nb := 0\n[a, a] = [1, 2]", "name bound twice (assignment)"),
        ("a := 0\n{a, ..a} = {\"a\": 1, \"b\": 2}", "name bound twice (assignment, object collect)"),
        ("a := 0\n[a, ..a] = [1, 2]", "name bound twice (assignment, collect)"),
        ("r := 0\n{\"k\": r, ..r} = {\"k\": 1, \"z\": 2}", "name bound twice (assignment, rename + collect)"),
        ("b := 0\nr := 0\n[{b, ..r}, r] = [{\"b\": 1}, 2]", "name bound twice across nesting"),
        ("fn f(a, a) {\n}\nf(1, 2)", "duplicate parameter"),
        ("f := fn (a, a) {\n}\nf(1, 2)", "duplicate parameter (anonymous)"),
        ("for [a, a] in [5] {\n}", "name bound twice (for)"),
        ("{..r, a} := {\"a\": 1, \"b\": 2}", "collect not last"),
        ("{..r, ..s} := {\"a\": 1}", "two collects"),
        ("xs := [1]\n[xs.., b] := [1, 2]", "spread in list pattern"),
        ("o := {}\n{o..} := {\"a\": 1}", "spread in object pattern"),
        ("fn f([a..]) {\n}\nf([1])", "spread in parameter pattern"),
        ("fn f({a..}) {\n}\nf({})", "spread in parameter pattern (object)"),
        ("x := [1, ..[2]]", "collect outside a pattern"),
        ("x := {\"a\": 1, ..{}}", "collect outside a pattern (object)"),
        ("print([..[1]])", "collect outside a pattern (argument)"),
        ("fn f(..r) {\n}\nf(1, ..[2])", "collect in an argument list"),
        ("fn f(..r) {\n}\nf(..[2])", "collect as the only argument"),
        ("[a, b] := [1]", "too few"),
        ("[a] := [1, 2]", "too many"),
        ("[a, b, ..r] := [1]", "too few for collect"),
        ("{a} := {}", "missing property"),
        ("{\"a\": [x]} := {\"a\": 1}", "nested source of the wrong kind"),
        ("{5: x} := {\"a\": 1}", "computed name is not a string"),
        ("{a + 1} := {\"a\": 1}", "shorthand is not a name"),
    ];
    for (src, what) in bad {
        out.push(Case::new(format!("print(\"pre\")\n{}\nprint(\"end\")\n", src), T_EXPECT_ERR, format!("malformed: {}", what)));
    }
}

fn spread_cases(out: &mut Vec<Case>) {
    let lit = |n: usize, base: usize| -> String { format!("[{}]", (0..n).map(|i| format!("{}", base + i)).collect::<Vec<_>>().join(", ")) };
    for n in 0..=3 {
        for m in 0..=3 {
            let src = format!(
                "xs := {}\nys := {}\nprint([xs.., ys..] == xs + ys)\nprint([xs.., 99, ys..])\nprint([xs..] === xs)\nprint([xs.., xs..])\n",
                lit(n, 10),
                lit(m, 20)
            );
            out.push(Case::new(src, T_REF, format!("list spread law {} {}", n, m)));
            // f(xs..) behaves as f(xs[0], .., xs[n-1])
            let direct: Vec<String> = (0..n).map(|i| format!("xs[{}]", i)).collect();
            let src = format!(
                "fn f(..r) {{\nprint(r)\nreturn r\n}}\nxs := {}\nys := {}\na := f(xs.., ys..)\nb := f({})\nprint(a == b)\nprint(a === xs)\nc := f(xs..)\nprint(c == xs)\nprint(c === xs)\nc[0:{}] = ys[0:{}]\nprint(xs)\n",
                lit(n, 10),
                lit(m, 20),
                direct.iter().cloned().chain((0..m).map(|i| format!("ys[{}]", i))).collect::<Vec<_>>().join(", "),
                n.min(m),
                n.min(m)
            );
            out.push(Case::new(src, T_REF, format!("argument spread law {} {}", n, m)));
        }
    }
    for bad in ["null", "5", "\"ab\"", "{\"a\": 1}"] {
        out.push(Case::new(format!("v := {}\nprint(\"pre\")\nprint([1, v..])\n", bad), T_EXPECT_ERR, format!("spread of {}", bad)));
        out.push(Case::new(format!("fn f(..r) {{\n}}\nv := {}\nprint(\"pre\")\nf(v..)\n", bad), T_EXPECT_ERR, format!("argument spread of {}", bad)));
    }
    // the right-hand side is evaluated completely before anything is bound
    for perm in [[1usize, 2, 0], [2, 0, 1], [1, 0, 2], [0, 2, 1], [2, 1, 0]] {
        let names = ["p", "q", "r"];
        let rhs: Vec<&str> = perm.iter().map(|i| names[*i]).collect();
        out.push(Case::new(format!("p := 1\nq := 2\nr := 3\n[p, q, r] = [{}]\nprint([p, q, r])\n", rhs.join(", ")), T_REF, format!("simultaneous assignment {:?}", perm)));
        out.push(Case::new(format!("xs := [1, 2, 3]\n[xs[0], xs[1], xs[2]] = [xs[{}], xs[{}], xs[{}]]\nprint(xs)\n", perm[0], perm[1], perm[2]), T_REF, format!("simultaneous element assignment {:?}", perm)));
        out.push(Case::new(format!("o := {{\"p\": 1, \"q\": 2, \"r\": 3}}\n{{\"p\": o.{}, \"q\": o.{}, \"r\": o.{}}} = {{\"p\": o.p, \"q\": o.q, \"r\": o.r}}\nprint(o)\n", names[perm[0]], names[perm[1]], names[perm[2]]), T_REF, format!("simultaneous property assignment {:?}", perm)));
    }
    out.push(Case::new("fn third(_, _, c) {\nreturn c\n}\nprint(third(1, 2, 3))\nfn tail(_, .._) {\nreturn 1\n}\nprint(tail(1, 2, 3))\ng := fn (_, [_, _], .._) {\nreturn 2\n}\nprint(g(1, [2, 3]))\nfor [_, _] in [1, 2] {\nprint(\"i\")\n}\n".to_string(), T_REF, "several discards in one parameter list".to_string()));
    out.push(Case::new("a := 1\nb := 2\n[a, b] = [b, a + b]\nprint([a, b])\n[a, b] := [b, a]\n".to_string(), T_REF, "fibonacci step then redeclaration".to_string()));
    // object spread round trip
    for mask in 0..8u32 {
        let mut e = vec![];
        for (i, k) in ["a", "b", "c"].iter().enumerate() {
            if mask & (1 << i) != 0 {
                e.push(format!("\"{}\": {}", k, i + 1));
            }
        }
        let src = format!("o := {{{}}}\np := {{o..}}\nprint(p == o)\nprint(p === o)\n{{..q}} := o\nprint(q == o)\nprint(q === o)\nq.z = 1\nprint(o)\n", e.join(", "));
        out.push(Case::new(src, T_REF, format!("object spread law {}", mask)));
    }
}

impl Check for C13 {
    fn id(&self) -> &'static str {
        "C13"
    }

    fn run(&self, ctx: &mut Ctx) -> Result<(), MachineryError> {
        let width = ctx.tier.pick(4usize, 6usize);
        let thorough = ctx.tier == Tier::Thorough;
        ctx.rule = format!(
            "complete product: list patterns of width 0..{} over {{name, _, [n, n], [n, ..n], {{\"k\": n}}, {{k}}}} x {{no rest, ..r, .._}} x source lengths 0..max(5, width + 1) x 4 binding positions (declaration, assignment, for target, parameter), a wrong-kind element under each nested item, non-list sources; object patterns over every ordered selection of <= 3 of the keys a, b, c x 4 entry forms (shorthand, rename, rename to _, nested list) x rest x all 32 source key subsets of {{a, b, c, x, y}} x binding positions, non-object sources; 30 malformed patterns; spread laws for all length pairs 0..3; argument splits of 0..5 arguments over parameter lists of arity 0..4 with and without rest; 20 programs whose targets are elements of the source or whose literal source reads the targets (swaps, rotations); non-trivial = all (distinct tuples)",
            width
        );
        ctx.rule.push_str("; bound functions through argument spreads, literal spreads and concatenation; 21 parameter lists (repeated names inside one pattern, literals, collectors, discards) x 5 function forms, defined and never called; pattern keys that read names bound earlier in the same pattern");
        let mut cases = vec![];
        list_cases(width, &mut cases);
        let n_list = cases.len();
        object_cases(&mut cases, thorough);
        let n_obj = cases.len() - n_list;
        malformed_cases(&mut cases);
        spread_cases(&mut cases);
        for mut c in super::c14::arity_cases_pub() {
            c.tag = T_REF;
            cases.push(c);
        }
        // targets that are elements or properties of the source itself, swaps and rotations through
        // a literal, patterns over a source that a target's index expression reads (T_REF)
        for src in [
            "xs := [1, 2, 3]\n[xs[2], xs[0], xs[1]] = xs\nprint(xs)\n",
            "xs := [1, 2, 3]\n[_, xs[0], ..t] = xs\nprint(xs)\nprint(t)\n",
            "xs := [1, 2, 3]\n[h, xs[2], _] = xs\nprint(xs)\nprint(h)\n",
            "xs := [1, 2, 3]\n[h, ..xs[0:1]] = xs\nprint(xs)\n",
            "xs := [0, 2, 1]\n[xs[xs[0]], xs[xs[1]], _] = xs\nprint(xs)\n",
            "g := {\"row\": [1, 2, 3]}\n[h, g.row[2], _] = g.row\nprint(g)\nprint(h)\n",
            "o := {\"a\": 1, \"b\": 2}\n{\"a\": o.b, \"b\": o.a} = o\nprint(o)\n",
            "o := {\"a\": 1, \"b\": 2}\n{\"a\": o.c, ..r} = o\nprint(o)\nprint(r)\n",
            "o := {\"a\": [1], \"b\": 2}\n{\"a\": [o.b]} = o\nprint(o)\n",
            "xs := [1, 2]\nfor [xs[1], xs[0]] in [[5, 6], xs] {\nprint(xs)\n}\n",
            "xs := [[1, 2], [3, 4]]\nfor [i, [xs[0][0], v]] in xs {\nprint(v)\n}\nprint(xs)\n",
            "a := 1\nb := 2\n[a, b] = [b, a]\nprint([a, b])\n",
            "a := 1\nb := 2\nc := 3\n[a, b, c] = [c, a, b]\nprint([a, b, c])\n",
            "a := 1\nb := 1\ni := 0\nwhile i < 5 {\n[a, b, i] = [b, a + b, i + 1]\n}\nprint([a, b])\n",
            "xs := [1, 2, 3]\n[xs[0], xs[1], xs[2]] = [xs[1], xs[2], xs[0]]\nprint(xs)\n",
            "o := {\"a\": 1, \"b\": 2}\n{\"a\": o.b, \"b\": o.a} = {\"a\": o.a, \"b\": o.b}\nprint(o)\n",
            "a := 1\nb := 2\n{a, b} = {\"a\": b, \"b\": a}\nprint([a, b])\n",
            "a := 1\nb := 2\n[a, [b]] = [b, [a]]\nprint([a, b])\n",
            "[p, q] := [1, 2]\n[q, p] := [p, q]\n",
            "a := [1]\n[a, b] := [a + [2], a]\nprint(b)\n",
            "id := \"7\"\no := {\"user_7\": \"Jo\", \"z\": 1}\n{$\"user_${id}\": name, ..r} := o\nprint(name)\nprint(r)\nfn f({$\"user_${id}\": n}) {\nreturn n\n}\nprint(f(o))\nfor [_, {$\"user_${id}\": m}] in [o] {\nprint(m)\n}\n",
            "k := \"a\"\no := {\"a\": 1, \"b\": 2}\n{k + \"\": p} := o\nprint(p)\n",
            "fn rest(..r) {\nreturn r\n}\nfn bump(l) {\nl[0] = 9\nreturn 0\n}\nxs := [1, 2]\nprint(rest(xs.., bump(xs)))\nys := [1, 2]\nprint([ys.., bump(ys)])\nzs := [1, 2]\nprint([bump(zs), zs..])\n",
            "fn grow(l) {\nl += [5]\nreturn l\n}\nxs := [1]\nprint([xs.., grow(xs)..])\nprint(xs)\n",
            "o := {\"a\": 1}\nfn setb(p) {\np.b = 2\nreturn 0\n}\nprint({o.., \"z\": setb(o)})\nprint({\"z\": setb(o), o..})\n",
        ] {
            cases.push(Case::new(src.to_string(), T_REF, "targets or literal items that read what is being bound".to_string()));
        }
        // markers in the wrong place: spread and collect on one item, a collect that is not last
        // (patterns and parameter lists), a spread in a pattern -- all reported
        for bad in [
            "[a, ..r..] := [1, 2]\n",
            "[..r..] := [1, 2]\n",
            "[a, ..r..] = [1, 2]\n",
            "for [i, ..r..] in [[1, 2]] {\n}\n",
            "[[..r..]] := [[1]]\n",
            "fn f(..init, last) {\n}\nf(1, 2)\n",
            "fn f(..a, ..b) {\n}\nf(1)\n",
            "g := fn (.._, x, ..rest) {\n}\ng(1, 2, 3)\n",
            "g := fn (..init, last) {\nreturn last\n}\nprint(g(1, 2))\n",
            "fn f(a.., b) {\n}\nf(1, 2)\n",
            "fn f(a, b..) {\n}\nf(1, 2)\n",
            "{..r.., a} := {\"a\": 1}\n",
            "{a, ..r..} := {\"a\": 1}\n",
            "[..r, a] := [1, 2]\n",
            "{..r, a} := {\"a\": 1}\n",
        ] {
            cases.push(Case::new(format!("r := 0\na := 0\nprint(\"pre\")\n{}print(\"accepted\")\n", bad), T_EXPECT_ERR, format!("misplaced marker {:?}", bad.replace('\n', " "))));
        }
        // what a pattern bound in one iteration or call stays what it was
        for prog in [
            "ps := []\nfor p in [5, 6, 7] {\nps += [p]\n}\nprint(ps)\nqs := []\nfor [i, ..r] in [[1, 2], [3]] {\nqs += [r]\n}\nprint(qs)\nfs := []\nfor p in {\"a\": 1, \"b\": 2} {\nfs += [fn () {\nreturn p\n}]\n}\nprint([fs[0](), fs[1]()])\n",
            "keep := []\nfn f(..r) {\nkeep += [r]\nreturn r\n}\nf(1)\nf(2, 3)\nprint(keep)\nfn g([a, ..t], {k, ..m}) {\nkeep += [t, m]\n}\ng([1, 2], {\"k\": 0, \"z\": 9})\ng([3], {\"k\": 1})\nprint(keep)\n",
        ] {
            cases.push(Case::new(prog.to_string(), T_REF, "values bound by patterns kept past their iteration or call".to_string()));
        }
        // the round trips hold every time they are evaluated, not only the first
        for prog in [
            "o := {\"a\": 1, \"k\": 2, \"z\": 3}\n{a, \"k\": b, ..rest} := o\nprint({\"a\": a, \"k\": b, rest..} == o)\nprint({\"a\": a, \"k\": b, rest..} == o)\nprint(rest)\nprint({rest.., rest..})\nprint(o)\nc := {o..}\nd := {o..}\nprint(c == d)\nprint(o)\n",
            "xs := [1, 2, 3]\n[p, ..rest] := xs\nprint([p] + rest == xs)\nprint([p, rest..] == xs)\nprint([p, rest..] == xs)\nprint(rest)\nprint([xs.., xs..])\nprint([xs.., xs..] == xs + xs)\nprint(xs)\n",
            "fn f(a, b, c) {\nreturn [a, b, c]\n}\nxs := [1, 2, 3]\nprint(f(xs..))\nprint(f(xs..) == f(xs[0], xs[1], xs[2]))\nprint(xs)\n",
        ] {
            cases.push(Case::new(prog.to_string(), T_REF, "round trips evaluated repeatedly".to_string()));
        }
        // patterns nest: an object pattern inside an object or list pattern, with collects at
        // both levels; the collected rest of each level is that level's remainder
        for pat in [
            "{\"pos\": {x, y}, ..rest}",
            "{\"pos\": {x, ..inner}, ..rest}",
            "{\"pos\": {x, y}, \"size\": s, ..rest}",
            "{\"owner\": {\"name\": n}, ..rest}",
            "{\"pos\": {x, ..inner}, \"owner\": {\"name\": n, ..more}, ..rest}",
            "{\"l\": [{x}, ..tail], ..rest}",
            "[{x, ..inner}, ..tail]",
            "[{\"pos\": {y, ..deep}, ..mid}, ..tail]",
            "{\"pos\": {\"x\": _, ..inner}, .._}",
        ] {
            for (src, name) in [
                ("{\"pos\": {\"x\": 1, \"y\": 2}, \"size\": 3, \"owner\": {\"name\": \"Jo\", \"age\": 4}, \"l\": [{\"x\": 5, \"z\": 6}, 7]}", "object"),
                ("[{\"x\": 1, \"pos\": {\"y\": 2, \"w\": 3}, \"k\": 4}, 5, 6]", "list"),
            ] {
                if (name == "list") != pat.starts_with('[') {
                    continue;
                }
                let names: Vec<&str> = ["x", "y", "s", "n", "inner", "more", "rest", "tail", "deep", "mid"].iter().copied().filter(|n| {
                    let b = pat.as_bytes();
                    pat.match_indices(n).any(|(i, _)| {
                        let before = if i == 0 { b' ' } else { b[i - 1] };
                        let after = *b.get(i + n.len()).unwrap_or(&b' ');
                        !(before as char).is_ascii_alphanumeric() && before != b'"' && !(after as char).is_ascii_alphanumeric() && after != b'"'
                    })
                }).collect();
                let prints: String = names.iter().map(|n| format!("print({})\n", n)).collect();
                cases.push(Case::new(format!("S := {}\nprint(\"pre\")\n{} := S\n{}", src, pat, prints), T_REF, format!("nested pattern {} on an {}", pat, name)));
                cases.push(Case::new(format!("S := {}\nprint(\"pre\")\nfn f({}) {{\n{}}}\nf(S)\n", src, pat, prints), T_REF, format!("nested parameter pattern {} on an {}", pat, name)));
                cases.push(Case::new(format!("S := {}\nprint(\"pre\")\nfor [_, {}] in [S] {{\n{}}}\n", src, pat, prints), T_REF, format!("nested for pattern {} on an {}", pat, name)));
            }
        }
        for prog in super::evalorder::SELF_TARGET_PROGRAMS {
            cases.push(Case::new(prog.to_string(), T_REF, "targets, indices or bounds that reach the container being assigned".to_string()));
        }
        for prog in super::evalorder::BOUND_ROUTE_PROGRAMS {
            cases.push(Case::new(prog.to_string(), T_REF, "items keep what they are through spreads, slices, patterns and collects".to_string()));
        }
        // parameter lists of every length are checked where the function is defined
        for params in ["[a, a]", "{k, \"j\": k}", "[a, ..a]", "{\"x\": 0}", "[1]", "[a, [b, a]]", "{\"p\": [q, q]}", "a, a", "a, [a]", "[a], {a}", "a, ..a", "..a", "[..a, b]", "{..r, k}", "[a, \"s\"]", "null", "[]", "{}", "_", "[_, _]", "{\"k\": _, \"j\": _}"] {
            for form in ["fn f(@) {\nprint(\"body\")\n}\n", "f := fn (@) {\nprint(\"body\")\n}\n", "fn f(@) {\n}\n", "o := {\"m\": fn (@) {\n}}\n", "fn outer() {\nfn f(@) {\n}\nreturn 1\n}\n"] {
                cases.push(Case::new(format!("print(\"pre\")\n{}print(\"after\")\n", form.replace('@', params)), T_REF, format!("parameter list ({}) in {:?}, never called", params, form.replace('\n', " "))));
            }
        }
        // the split of arguments over parameters and a collector does not depend on how the function is reached
        for np in 0..=3usize {
            for rest in [false, true] {
                for na in 0..=5usize {
                    let mut ps: Vec<String> = (0..np).map(|i| format!("p{}", i)).collect();
                    if rest {
                        ps.push("..r".to_string());
                    }
                    let mut names: Vec<String> = (0..np).map(|i| format!("p{}", i)).collect();
                    if rest {
                        names.push("r".to_string());
                    }
                    let args: Vec<String> = (1..=na).map(|i| (i * 10).to_string()).collect();
                    for call in ["o.m(ARGS)", "o[\"m\"](ARGS)", "h := o.m\nh(ARGS)", "o.m([ARGS]..)", "o.via(ARGS)", "l[0](ARGS)"] {
                        let src = format!("o := {{\"id\": \"O\", \"m\": fn ({}) {{\nprint([{}])\nreturn this.id\n}}, \"via\": fn (..all) {{\nreturn this.m(all..)\n}}}}\nl := [o.m]\nprint(\"pre\")\n{}\nprint(\"post\")\n", ps.join(", "), names.join(", "), call.replace("ARGS", &args.join(", ")));
                        cases.push(Case::new(src, T_REF, format!("{} arguments over {} parameters{} through {}", na, np, if rest { " and a collector" } else { "" }, call.replace('\n', "; "))));
                    }
                }
            }
        }
        cases.push(Case::new(super::evalorder::SCOPING_PROGRAMS[0].to_string(), T_REF, "pattern keys that read names bound earlier in the same pattern".to_string()));
        let total = cases.len();
        let mut n_ok = 0;
        let mut n_err = 0;
        for c in &cases {
            match c.tag {
                T_EXPECT_OK => n_ok += 1,
                T_EXPECT_ERR => n_err += 1,
                _ => {}
            }
        }
        for chunk in cases.chunks(80_000) {
            let judged = ctx.judge(chunk.to_vec(), |c, r, o| self.oracle(c, r, o))?;
            // the statement-derived expectation and the reference binder must agree
            for j in &judged {
                let exp = match j.case.tag {
                    T_EXPECT_OK => Some(true),
                    T_EXPECT_ERR => Some(false),
                    _ => None,
                };
                if let Some(e) = exp {
                    if e != j.r.is_ok() {
                        return Err(MachineryError(format!(
                            "C13: statement rule and reference binder disagree on {} ({:?}): rule says ok={}, reference {}",
                            j.case.meta, j.case.src, e, ref_summary(&j.r)
                        )));
                    }
                }
            }
        }
        ctx.guard("both matching and mismatching shapes explored", n_ok > 0 && n_err > 0);
        ctx.extra.insert(
            "bounds".into(),
            json!({"list_pattern_width": width, "source_lengths": "0..5", "binding_positions": 4,
                   "list_cases": n_list, "object_cases": n_obj, "total_cases": total,
                   "expected_to_bind": n_ok, "expected_to_fail": n_err}),
        );
        Ok(())
    }

    fn oracle(&self, c: &Case, r: &RefOutcome, o: &Outcome) -> Verdict {
        match c.tag {
            T_EXPECT_OK => {
                if o.class != Class::Ok {
                    return viol("matching-shape-rejected", format!("{}: shapes match but the run ended {:?}: {}", c.meta, o.class, o.msg));
                }
            }
            T_EXPECT_ERR => {
                if o.class != Class::Err {
                    return viol("mismatch-accepted", format!("{}: a shape mismatch / malformed pattern must be a reported error; the run ended {:?} printing {:?}", c.meta, o.class, o.out_str()));
                }
            }
            _ => {
                if r.is_ok() != (o.class == Class::Ok) {
                    return viol("termination", format!("{}: reference ends {}, run ended {:?} {}", c.meta, if r.is_ok() { "ok" } else { "with an error" }, o.class, o.msg));
                }
            }
        }
        if o.stdout != r.stdout {
            return viol(
                "binding",
                format!("{}: printed {:?}, reference {:?}", c.meta, o.out_str(), String::from_utf8_lossy(&r.stdout)),
            );
        }
        Verdict::Pass
    }
}
