//! Evaluation-order programs shared by C01 and C14: every construct with two or more operand
//! positions, each position filled by a call that prints its number and then returns a fitting
//! value or fails.  All 2^k succeed/fail assignments are generated, so the printed trace shows the
//! order in which the positions are evaluated and which failure is reported first.
use crate::engine::Case;

pub const SETUP: &str = "fn t(n, v) {\nprint(n)\nreturn v\n}\nfn ft(n) {\nprint(n)\nreturn undefined_zz\n}\nfn add(a, b) {\nreturn [a, b]\n}\nfn rest(..r) {\nreturn r\n}\nxs := [10, 20, 30]\no := {\"k\": 1, \"m\": fn (a) {\nreturn a\n}}\nr := null\ns := null\n";

/// (construct with holes @1..@3, values the holes return when they succeed)
pub const CONSTRUCTS: &[(&str, &[&str])] = &[
    ("r = @1 + @2", &["1", "2"]),
    ("r = @1 - @2 * @3", &["1", "2", "3"]),
    ("r = @1 * @2 + @3", &["1", "2", "3"]),
    ("r = @1 == @2", &["1", "2"]),
    ("r = @1 < @2", &["1", "2"]),
    ("r = @1 / @2", &["1", "0"]),
    ("r = @1 + @2", &["1", "\"a\""]),
    ("r = @1 && @2", &["true", "true"]),
    ("r = @1 && @2", &["false", "true"]),
    ("r = @1 || @2", &["true", "true"]),
    ("r = @1 || @2", &["false", "true"]),
    ("r = @1 && @2 || @3", &["false", "true", "true"]),
    ("r = @1 .. @2", &["0", "2"]),
    ("r = [@1, @2, @3]", &["1", "2", "3"]),
    ("r = [@1.., @2]", &["[1]", "2"]),
    ("r = [@1, @2..]", &["1", "[2]"]),
    ("r = {\"a\": @1, \"b\": @2}", &["1", "2"]),
    ("r = {@1: 1, @2: 2}", &["\"a\"", "\"b\""]),
    ("r = {@1: @2, @3: 4}", &["\"a\"", "1", "\"b\""]),
    ("r = {@1.., \"b\": @2}", &["{\"a\": 1}", "2"]),
    ("r = {\"b\": @1, @2..}", &["2", "{\"a\": 1}"]),
    ("r = add(@1, @2)", &["1", "2"]),
    ("r = add(@1.., @2)", &["[1]", "2"]),
    ("r = add(@1, @2..)", &["1", "[2]"]),
    ("r = rest(@1, @2.., @3)", &["1", "[2]", "3"]),
    ("r = @1(@2, @3)", &["add", "1", "2"]),
    ("r = @1(@2)", &["5", "1"]),
    ("r = @1(@2, @3)", &["o.m", "1", "2"]),
    ("r = o.m(@1)", &["1"]),
    ("r = @1.m(@2)", &["o", "1"]),
    ("r = o[@1](@2)", &["\"m\"", "5"]),
    ("r = @1[@2](@3)", &["o", "\"m\"", "5"]),
    ("r = @1[@2]", &["xs", "1"]),
    ("r = @1[@2]", &["xs", "9"]),
    ("r = @1[@2:@3]", &["xs", "0", "2"]),
    ("r = @1[@2:@3]", &["xs", "2", "1"]),
    ("r = @1.k", &["o"]),
    ("xs[@1] = @2", &["0", "5"]),
    ("xs[@1] = @2", &["7", "5"]),
    ("xs[@1] += @2", &["0", "5"]),
    ("xs[@1] += @2", &["0", "\"a\""]),
    ("xs[@1:@2] = @3", &["0", "1", "[7]"]),
    ("o[@1] = @2", &["\"k\"", "5"]),
    ("o[@1] += @2", &["\"k\"", "5"]),
    ("o[@1] += @2", &["\"zz\"", "5"]),
    ("@1[@2] = @3", &["xs", "0", "5"]),
    ("@1[@2] += @3", &["xs", "0", "5"]),
    ("@1.k = @2", &["o", "5"]),
    ("@1.k += @2", &["o", "5"]),
    ("@1[@2][@3] = 4", &["[xs]", "0", "1"]),
    ("r = $\"a${@1}b${@2}\"", &["\"x\"", "\"y\""]),
    ("r = $\"${@1}${@2}\"", &["\"x\"", "5"]),
    ("r = $\"${@1}${@2}\"", &["5", "\"y\""]),
    ("r = $\"a${@1}b${@2}c${@3}\"", &["\"x\"", "null", "\"z\""]),
    ("[r, s] = [@1, @2]", &["1", "2"]),
    ("[xs[@1], xs[@2]] = [@3, 9]", &["0", "1", "5"]),
    ("[xs[@1], r] = @2", &["0", "[1, 2]"]),
    ("{\"k\": xs[@1]} = @2", &["0", "{\"k\": 3}"]),
    ("q := @1", &["1"]),
    ("for e in @1 {\nprint(\"body\")\n}", &["[1]"]),
    ("for xs[@1] in @2 {\nprint(\"body\")\n}", &["0", "[1]"]),
    ("if @1 {\nprint(\"b1\")\n} else if @2 {\nprint(\"b2\")\n} else {\nprint(\"b3\")\n}", &["true", "true"]),
    ("if @1 {\nprint(\"b1\")\n} else if @2 {\nprint(\"b2\")\n} else {\nprint(\"b3\")\n}", &["false", "true"]),
    ("if @1 {\nprint(\"b1\")\n} else if @2 {\nprint(\"b2\")\n} else if @3 {\nprint(\"b3\")\n}", &["false", "false", "true"]),
    ("if @1 {\nprint(\"b1\")\n} else if @2 {\nprint(\"b2\")\n} else if @3 {\nprint(\"b3\")\n}", &["false", "true", "true"]),
    ("while @1 {\nprint(\"body\")\nbreak\n}", &["true"]),
    ("fn q() {\nreturn @1 + @2\n}\nr = q()", &["1", "2"]),
    ("r = add(add(@1, @2), @3)", &["1", "2", "3"]),
    ("r = add(@1, add(@2, @3))", &["1", "2", "3"]),
    ("r = [@1, [@2, @3]]", &["1", "2", "3"]),
    ("r = (@1 + @2)->type()", &["1", "2"]),
    ("r = print(@1)", &["1"]),
    // an operator applied to an ill-typed pair stops the chain there: later operands are not reached
    ("r = @1 * @2 + @3", &["1", "\"a\"", "3"]),
    ("r = @1 - @2 - @3", &["1", "null", "3"]),
    ("r = @1 + @2 - @3", &["\"a\"", "1", "3"]),
    ("r = @1 && @2 && @3", &["true", "5", "true"]),
    ("r = @1 || @2 || @3", &["false", "null", "true"]),
    ("r = @1 == @2 == @3", &["1", "\"a\"", "true"]),
    ("r = @1 / @2 + @3", &["1", "0", "3"]),
    ("r = @1 % @2 * @3", &["1", "0", "3"]),
    ("r = @1 + @2 + @3", &["[1]", "2", "[3]"]),
    ("r = @1 * @2 * @3", &["2", "3", "\"x\""]),
    ("r = [@1 + @2, @3]", &["1", "\"a\"", "3"]),
    ("r = add(@1 * @2, @3)", &["true", "2", "3"]),
    // the container and the key of one access read the same container
    ("r = xs[@1][@2]", &["0", "0"]),
    ("r = @1[xs[@2] / 10]", &["xs", "1"]),
    ("r = o[@1](o[@2])", &["\"m\"", "\"k\""]),
    ("xs[xs[@1] / 10] = @2", &["1", "5"]),
    ("xs[xs[@1] / 10] += xs[@2]", &["1", "0"]),
    ("xs[@1 : xs[@2] / 10] = @3", &["1", "1", "[7]"]),
    ("o[@1] = o[@2]", &["\"j\"", "\"k\""]),
];

pub fn cases(tag: u32) -> Vec<Case> {
    let mut v = vec![];
    for (ci, (text, vals)) in CONSTRUCTS.iter().enumerate() {
        let k = vals.len();
        for mask in 0..(1u32 << k) {
            let mut body = text.to_string();
            for i in 0..k {
                let hole = format!("@{}", i + 1);
                let fill = if mask & (1 << i) != 0 { format!("ft({})", i + 1) } else { format!("t({}, {})", i + 1, vals[i]) };
                body = body.replace(&hole, &fill);
            }
            v.push(Case::new(
                format!("{}print(\"start\")\n{}\nprint(\"done\")\nprint(r)\nprint(xs)\nprint(o.k)\n", SETUP, body),
                tag,
                format!("evaluation order: construct {} `{}` failing positions {:b}", ci, text.replace('\n', " "), mask),
            ));
        }
    }
    v
}

/// `this` is captured where a function is created and bound per call: programs shared by C04, C05 and C14
pub const THIS_PROGRAMS: &[&str] = &[
    "X := {\"id\": \"X\", \"mk\": fn () {\nreturn fn () {\nreturn this.id\n}\n}}\nY := {\"id\": \"Y\", \"run\": fn (g) {\nreturn g()\n}}\ng := X.mk()\nprint(g())\nprint(Y.run(g))\nprint(Y.run(X.mk()))\n",
    "fn plain() {\nreturn this.id\n}\nY := {\"id\": \"Y\", \"call\": fn () {\nprint(\"in call\")\nreturn plain()\n}}\nprint(\"pre\")\nprint(Y.call())\n",
    "p := fn () {\nreturn this.id\n}\nY := {\"id\": \"Y\", \"call\": fn (f) {\nreturn f()\n}}\nprint(\"pre\")\nprint(Y.call(p))\n",
    "m := fn (other) {\nif other != null {\nother.m(null)\n}\nthis.n += 1\nreturn this.id\n}\na := {\"id\": \"A\", \"n\": 0, \"m\": m}\nb := {\"id\": \"B\", \"n\": 10, \"m\": m}\nprint(a.m(b))\nprint(a.n)\nprint(b.n)\nprint(b.m(a))\nprint([a.n, b.n])\n",
    "fn node(v, kids) {\nreturn {\"v\": v, \"kids\": kids, \"sum\": fn () {\nt := this.v\nfor [i, c] in this.kids {\nt += c.sum()\n}\nreturn t + this.v\n}}\n}\nt := node(1, [node(2, []), node(3, [node(4, [])])])\nprint(t.sum())\n",
    "a := {\"id\": \"A\", \"go\": fn (cb) {\ncb()\nreturn this.id\n}}\nb := {\"id\": \"B\", \"hello\": fn () {\nreturn this.id\n}}\nprint(a.go(fn () {\nprint(b.hello())\n}))\n",
    "b := {\"id\": \"B\", \"who\": fn () {\nreturn this.id\n}}\nfn helper() {\nreturn b.who()\n}\na := {\"id\": \"A\", \"go\": fn () {\nx := helper()\nreturn [x, this.id]\n}}\nprint(a.go())\n",
];

/// assignments whose targets, indices or bounds read or write the very container being assigned
/// from / to (shared by C02, C05, C11, C13)
pub const SELF_TARGET_PROGRAMS: &[&str] = &[
    "xs := [2, 1, 0, 3]\nxs[1 : xs[0]] = [5]\nprint(xs)\n",
    "xs := [2, 1, 0, 3]\nxs[xs[2] : xs[0]] = [5, 6]\nprint(xs)\n",
    "xs := [2, 1, 0, 3]\nys := xs\nxs[ys[2] : ys[1] + 1] = [ys[3], ys[0]]\nprint(xs)\n",
    "xs := [1, 2, 3]\n[xs[2], xs[0], xs[1]] = xs\nprint(xs)\n",
    "xs := [1, 2, 3]\n[_, xs[0], ..t] = xs\nprint(xs)\nprint(t)\n",
    "o := {\"a\": 1, \"b\": 2}\n{\"a\": o.b, \"b\": o.a} = o\nprint(o)\n",
    "acct := {\"balance\": 5, \"pending\": 7}\nview := acct\n{\"pending\": view.balance} = acct\nprint(acct)\n",
    "o := {\"n\": 1, \"v\": 9}\nxs := [0, 0]\n{\"v\": xs[o.n]} = o\nprint(xs)\n",
    "o := {\"n\": 0, \"v\": 9, \"l\": [1, 2]}\n{\"v\": o.l[o.n]} = o\nprint(o)\n",
    "o := {\"k\": 1}\no.self = o\n{\"self\": {\"k\": o.j}} = o\nprint(o.j)\n",
    "a := {\"x\": 1}\nb := {\"x\": 2}\n[a.x, b.x] = [b.x, a.x]\nprint([a, b])\n",
    "x := 0\no := {\"x\": 5}\n[x, o.x] = [1, 2]\nprint([x, o])\n",
    "src := {\"p\": 1, \"q\": 2}\na := {\"k\": 0}\nb := {\"k\": 0}\n{\"p\": a.k, \"q\": b.k} = src\nprint([a, b])\n",
    "a := {\"x\": 1}\n[a.x, a[\"x\"]] = [3, 4]\nprint(a)\n",
    "xs := [[1], [2]]\n[xs[1][0], xs[0][0]] = [xs[0][0], xs[1][0]]\nprint(xs)\n",
    "o := {\"m\": {\"x\": 1}}\n[o.m.x, o.n] = [2, 3]\nprint(o)\n",
];

/// a function read from an object keeps that object as `this` through every route a value can take
/// inside containers (shared by C11 and C14)
pub const BOUND_ROUTE_PROGRAMS: &[&str] = &[
    "o := {\"id\": \"O\", \"m\": fn () {\nreturn this.id\n}}\nxs := [o.m, \"abc\"->len]\nprint(xs[0]())\nprint(xs[0:1][0]())\nprint(xs[:][0]())\nprint(xs[1:][0]())\nprint((xs + [])[0]())\nprint([xs..][0]())\n",
    "a := {\"id\": \"A\", \"f\": fn () {\nreturn this.id\n}}\nb := {\"id\": \"B\", \"f\": a.f}\nxs := [0, 0, 0]\nxs[0:2] = [a.f, b.f]\nprint(xs[0]())\nprint(xs[1]())\nxs[2] = b.f\nprint(xs[2]())\nxs[1:] = [a.f, a.f]\nprint(xs[2]())\n",
    "a := {\"id\": \"A\", \"f\": fn () {\nreturn this.id\n}}\nb := {\"id\": \"B\", \"f\": a.f}\n[p, q] := [a.f, b.f]\nprint(p())\nprint(q())\n[r, ..s] := [b.f, a.f]\nprint(r())\nprint(s[0]())\nfor [i, h] in [a.f, b.f] {\nprint(h())\n}\nfn call([u, w]) {\nreturn [u(), w()]\n}\nprint(call([b.f, a.f]))\n",
    "a := {\"id\": \"A\", \"f\": fn () {\nreturn this.id\n}}\nh := {\"g\": a.f, \"id\": \"H\"}\n{\"g\": k} := h\nprint(k())\n{..r} := h\nprint(r.g())\nc := {h..}\nprint(c.g())\nfn pass(f) {\nreturn f\n}\nprint(pass(a.f)())\nprint(pass(h.g)())\n",
    "o := {\"id\": \"O\", \"helper\": fn () {\nreturn this.id\n}, \"run\": fn () {\nreturn this.helper() + this.helper()\n}, \"count\": fn (n) {\nif n == 0 {\nreturn this.id\n}\nreturn this.count(n - 1)\n}}\nprint(o.run())\nprint(o.count(3))\np := {\"id\": \"P\", \"helper\": o.helper, \"run\": o.run, \"count\": o.count}\nprint(p.run())\nprint(p.count(2))\n",
    "fn mk(id) {\nreturn {\"id\": id, \"helper\": fn () {\nreturn this.id\n}, \"run\": fn () {\nreturn this.helper()\n}}\n}\nx := mk(\"X\")\ny := mk(\"Y\")\ny.run = x.run\nprint(x.run())\nprint(y.run())\n",
    "a := {\"id\": \"A\", \"f\": fn () {\nreturn this.id\n}}\nb := {\"id\": \"B\", \"f\": a.f}\nprint([b.f(), b[\"f\"](), a[\"f\"]()])\nk := \"f\"\nprint(b[k]())\nc := {\"id\": \"C\"}\nc[k] = b[k]\nprint([c.f(), c[\"f\"]()])\n{\"f\": g} := b\nprint(g())\nreg := {\"id\": \"R\", \"get\": a.f, \"inner\": b}\n{\"get\": h, \"inner\": {f}} := reg\nprint([h(), f()])\nfn take({get}, x) {\nreturn get()\n}\nprint(take(reg, 1))\n",
    "a := {\"id\": \"A\", \"f\": fn () {\nreturn this.id\n}}\nb := {\"id\": \"B\", \"f\": a.f}\njob := [a.f, b.f]\nfn call(f, g) {\nreturn [f(), g()]\n}\nprint(call(job[0], job[1]))\nprint(call(job..))\nprint(call(job[1:].., a.f))\nfn all(..fs) {\nreturn [fs[0](), fs[1]()]\n}\nprint(all(job..))\nprint([job.., job..][3]())\nhs := []\nhs += [b.f]\nhs = hs + job\nprint([hs[0](), hs[1]()])\nprint((job + [])[1]())\n",
    "plain := [fn () {\nreturn 1\n}]\nw := {\"l\": plain}\nprint([w.l..][0]())\nprint((w.l + [])[0]())\nreg := {\"id\": \"R\", \"hooks\": []}\nouter := {\"id\": \"outer\", \"run\": fn () {\nreg.hooks += [fn () {\nreturn this.id\n}]\nhs := [reg.hooks..]\nreturn [hs[0](), reg.hooks[0](), this.id]\n}}\nprint(outer.run())\nprint([reg.hooks..][0]())\n",
];

/// one access whose index, key or bound reads the container it is applied to, directly, through
/// an alias, through a call and through `this` (shared by C01, C02, C05, C11, C14)
pub const SELF_READ_PROGRAMS: &[&str] = &[
    "perm := [2, 0, 1]\nprint(perm[perm[0]])\nprint(perm[perm[perm[0]]])\nys := perm\nprint(perm[ys[1]])\nfn last(l) {\nn := 0\nfor [i, e] in l {\nn = i\n}\nreturn n\n}\nprint(perm[last(perm)])\nprint(perm[last(ys)])\n",
    "m := {\"state\": \"a\", \"a\": fn (x) {\nreturn this.state + x\n}, \"b\": 7}\nprint(m[m.state](\"c\"))\nprint(m[m[\"state\"]](\"d\"))\nalias := m\nprint(m[alias.state](\"e\"))\nm.go = fn (x) {\nreturn this[this.state](x)\n}\nprint(m.go(\"f\"))\nm.state = \"b\"\nprint(m[m.state])\n",
    "xs := [1, 2, 3, 0]\nprint(xs[xs[3]:xs[1]])\nprint(xs[xs[3]:])\nprint(xs[:xs[0]])\nys := xs\nprint(xs[ys[3]:ys[2]])\n",
    "o := {\"k\": \"v\", \"v\": 5}\nprint(o[o.k])\nprint(o[o[\"k\"]])\no[o.k] = 6\nprint(o)\no[o.k] += 1\nprint(o)\np := o\no[p.k] += p.v\nprint(o)\n",
    "xs := [1, 2, 0]\nxs[xs[2]] = 5\nprint(xs)\nxs[xs[2]] += xs[1]\nprint(xs)\nys := xs\nxs[ys[2]] = ys[1]\nprint(xs)\nxs[ys[2]] += ys[1]\nprint(ys)\n",
    "rows := [[1, 0], [0, 1]]\nprint(rows[rows[0][1]][rows[1][1]])\nrows[rows[0][1]][rows[1][1]] = 9\nprint(rows)\nrows[0] += rows\nprint(rows)\n",
    "s := \"abc\"\nn := [2, 1, 0]\nprint(s[n[n[0]]])\nprint(s[n[2]:n[0]])\nfn pick(l) {\nreturn l[l[1]]\n}\nprint(pick(n))\nprint(n[pick(n)])\n",
    "log := [[1], [2]]\nsame := log\nlog[0] += same\nprint(log)\nlog[1] += log[0]\nprint(log[1])\nbuf := [0, 1, 2, 3]\nview := buf\nbuf[1 : view[0] + 3] = [7, 8]\nprint(buf)\nbuf[view[0] : 2] = [5, 6]\nprint(view)\n",
    // bounds and indices whose evaluation writes to the list: every write is kept, none is repeated
    "xs := [1, 2, 3, 4]\nfn b(i, v, ret) {\nxs[i] = v\nreturn ret\n}\nxs[b(0, 9, 1):3] = [7, 8]\nprint(xs)\nxs[1:b(3, 6, 2)] = [5]\nprint(xs)\nys := xs\nxs[b(0, 0, 1):b(3, 1, 2)] = [ys[3]]\nprint(xs)\nxs[b(3, 5, 0):b(2, 4, 1)] = [ys[3] + ys[2]]\nprint(ys)\nt := xs[b(0, 7, 0):b(1, 8, 2)]\nprint(t)\nprint(xs[b(1, 3, 1)])\nxs[b(0, 2, 3)] = xs[b(0, 4, 0)]\nprint(xs)\nxs[b(0, 2, 1)] += xs[b(1, 4, 0)]\nprint(xs)\n",
];

/// values nested 1..24, 32, 40 and 64 containers deep (lists, objects, alternating) around six
/// leaves, printed: shared by C02 and C19
pub fn deep_print_programs() -> Vec<String> {
    let mut v = vec![];
    let depths: Vec<usize> = (1..=24).chain([32usize, 40, 64]).collect();
    for &d in &depths {
        for kind in 0..3 {
            for leaf in ["1", "[1]", "{\"a\": 1}", "\"l1\\nl2\"", "[]", "{}"] {
                let mut open = String::new();
                let mut close = String::new();
                for i in 0..d {
                    let obj = kind == 1 || (kind == 2 && i % 2 == 1);
                    if obj {
                        open.push_str("{\"k\": ");
                        close.insert(0, '}');
                    } else {
                        open.push('[');
                        close.insert(0, ']');
                    }
                }
                v.push(format!("v := {}{}{}\nprint(v)\nprint(\"end\")\n", open, leaf, close));
            }
        }
    }
    // the same depth reached by building, one level per iteration
    for &d in &[8usize, 16, 17, 18, 33, 65] {
        v.push(format!("v := [\"leaf\", {{\"a\": []}}]\nfor i in 0 .. {} {{\nv = {{\"children\": [v], \"n\": i}}\n}}\nprint(v)\nprint(\"end\")\n", d));
        v.push(format!("v := \"x\\ny\"\nfor i in 0 .. {} {{\nv = [v, i]\n}}\nprint(v)\n", d));
    }
    v
}

/// which declaration a name reaches: pattern keys that read names bound earlier in the same
/// pattern, non-functions shadowing functions, declared functions that outlive their scope, names
/// declared after a function that reads them was created (shared by C04, C13, C20)
pub const SCOPING_PROGRAMS: &[&str] = &[
    "key := \"a\"\nrecord := {\"field\": \"b\", \"a\": \"property a\", \"b\": \"property b\"}\nfn pick(rec) {\n{\"field\": key, key: val} := rec\nreturn val\n}\nprint(pick(record))\nfn pick2(rec) {\n{\"field\": chosen, chosen: val} := rec\nreturn val\n}\nprint(pick2(record))\n{\"field\": k2, k2: v2} := record\nprint([k2, v2])\nfor [i, {\"field\": k3, k3: v3}] in [record] {\nprint(v3)\n}\nfn viaparam({\"field\": k4, k4: v4}) {\nreturn v4\n}\nprint(viaparam(record))\nk5 := null\nv5 := null\n{\"field\": k5, k5: v5} = record\nprint(v5)\n[{\"field\": k6}, {k6: v6}] := [record, record]\nprint(v6)\nnames := [\"a\", \"b\"]\n{\"field\": names[0], names[0]: names[1]} = record\nprint(names)\n",
    "fn label() {\nreturn \"global label\"\n}\nfn render(label) {\nreturn label()\n}\nprint(render(fn () {\nreturn \"param fn\"\n}))\nprint(\"pre\")\nprint(render(\"text\"))\n",
    "fn mk() {\ncount := 0\nfn next() {\ncount += 1\nreturn count\n}\nreturn next\n}\nn1 := mk()\nn2 := mk()\nprint([n1(), n1(), n2()])\nfn outer() {\nv := \"v\"\n{\nw := \"w\"\nfn inner() {\nreturn v + w\n}\nreturn inner\n}\n}\nprint(outer()())\nfs := []\nfor i in 0 .. 3 {\nfn show() {\nreturn i\n}\nfs += [show]\n}\nprint([fs[0](), fs[2]()])\no := {}\nfn install(target) {\nsecret := 41\nfn reveal() {\nsecret += 1\nreturn secret\n}\ntarget.reveal = reveal\n}\ninstall(o)\nprint(o.reveal())\nprint(o.reveal())\nif true {\nz := 1\nfn viaif() {\nz += 1\nreturn z\n}\no.f = viaif\n}\nprint(o.f())\nprint(o.f())\n",
    "x := \"outer\"\n{\nprint(x)\nf := fn () {\nreturn x\n}\nx := \"inner\"\nprint(f())\nx = \"changed\"\nprint(f())\n}\nprint(x)\nfn g() {\nprint(x)\nh := fn () {\nx = x + \"!\"\nreturn x\n}\nx := \"local\"\nprint(h())\nreturn x\n}\nprint(g())\nprint(x)\ny := 1\nfor i in 0 .. 2 {\nprint(y)\nk := fn () {\ny += 10\nreturn y\n}\ny := 100\nprint(k())\n}\nprint(y)\n",
    "fn label() {\nreturn \"global\"\n}\nfn render() {\nlabel := 5\nreturn label()\n}\nprint(\"pre\")\nrender()\n",
    "for print in [1] {\nprint(2)\n}\n",
    "fn f() {\nreturn 1\n}\n{\nf := null\nprint(\"pre\")\nf()\n}\n",
    "fn f() {\nreturn \"outer f\"\n}\nfn g(f) {\nreturn [f()]\n}\nprint(g(fn () {\nreturn \"inner f\"\n}))\nfor f in [true] {\nprint(\"pre\")\nprint(f())\n}\n",
    "fn area(w, h) {\nreturn w * h\n}\nfn show(area) {\nreturn area(2, 3)\n}\nprint(show(fn (a, b) {\nreturn a + b\n}))\nprint(show({\"k\": 1}))\n",
    "x := \"outer\"\n{\nsaved := x\nfn show() {\nreturn x\n}\ng := fn () {\nx = x + \"!\"\nreturn x\n}\nx := \"inner\"\nprint([show(), g(), saved])\nx = \"changed\"\nprint([show(), g()])\n}\nprint(x)\nfn body() {\nkeep := x\nfn rd() {\nreturn x\n}\nx := \"local\"\nreturn [rd(), keep]\n}\nprint(body())\nfor i in 0 .. 2 {\nwas := x\nfn lp() {\nreturn [i, x]\n}\nx := $\"loop${was}\"\nprint(lp())\n}\nn := 0\nlim := 2\nwhile n < lim {\nn += 1\ncur := lim\nfn peek() {\nreturn lim\n}\nlim := 10\nprint([peek(), cur])\n}\nprint([x, lim])\n",
];
