//! C11 — list/string indexing, slicing and concatenation obey the sequence laws.
//! Complete product: all sequences up to a length bound x all indices / bounds in
//! [-2, len+2] (and omitted) x all right-hand-side lengths.  Oracle: a slice
//! model written from the statement (definedness domains + values), plus laws
//! evaluated by the subject itself.
use super::Check;
use crate::engine::*;
use crate::refm::eval::RefOutcome;
use crate::subject::{Class, MachineryError, Outcome};
use serde_json::json;

pub struct C11;

const T_EXPECT: u32 = 1; // meta = "D<expected stdout>" (defined) or "E" (must be a reported error)

fn list_lit(n: usize, base: i64) -> (String, Vec<String>) {
    let items: Vec<String> = (0..n).map(|i| format!("{}", base + i as i64)).collect();
    (format!("[{}]", items.join(", ")), items)
}

fn render_list(items: &[String]) -> String {
    let mut s = String::from("[\n");
    for x in items {
        s.push_str(&format!("    {},\n", x));
    }
    s.push_str("]\n");
    s
}

fn bound_src(b: Option<i64>) -> String {
    match b {
        Some(x) => format!("{}", x),
        None => String::new(),
    }
}

fn defined_case(src: String, expected: String, what: &str) -> Case {
    let mut c = Case::new(src, T_EXPECT, format!("D{}\u{1}{}", expected, what));
    c.nontrivial = true;
    c
}

fn error_case(src: String, what: &str) -> Case {
    Case::new(src, T_EXPECT, format!("E\u{1}{}", what))
}

impl Check for C11 {
    fn id(&self) -> &'static str {
        "C11"
    }

    fn run(&self, ctx: &mut Ctx) -> Result<(), MachineryError> {
        let max_list = ctx.tier.pick(7usize, 9usize);
        let max_str = ctx.tier.pick(7usize, 9usize);
        ctx.rule = format!("complete product: lists of length 0..{} (distinct elements) and ASCII strings of length 0..{} plus multi-byte strings x every index in [-2,len+2] x every bound pair in ([-2,len+2] + omitted)^2 x element assignment at every index x range assignment with list and string right-hand sides of every length 0..len+1 x all concatenation length pairs x non-integer index kinds x element op-assignment at every index, plus 15 programs whose indices, bounds and right-hand sides read the list being assigned to; non-trivial = all (distinct tuples)", max_list, max_str);
        ctx.rule.push_str("; plus programs whose index or bound reads or, through a call, writes the sequence it is applied to");
        let mut cases: Vec<Case> = vec![];
        let mut n_defined = 0u64;
        let mut n_error = 0u64;
        let alphabet: Vec<char> = "abcdefghijkl".chars().collect();

        // ----- lists -----
        for n in 0..=max_list {
            let (l, items) = list_lit(n, 10);
            let lo = -2i64;
            let hi = n as i64 + 2;
            let mut bounds: Vec<Option<i64>> = vec![None];
            for x in lo..=hi {
                bounds.push(Some(x));
            }
            // index read + element assignment
            for i in lo..=hi {
                let ok = i >= 0 && (i as usize) < n;
                let src = format!("xs := {}\ni := {}\nprint(xs[i])\n", l, i);
                let src2 = format!("xs := {}\nprint(xs[{}])\n", l, i);
                let asg = format!("xs := {}\ni := {}\nxs[i] = 99\nprint(xs)\n", l, i);
                if ok {
                    let e = format!("{}\n", items[i as usize]);
                    cases.push(defined_case(src, e.clone(), "list index"));
                    cases.push(defined_case(src2, e, "list index"));
                    let mut after = items.clone();
                    after[i as usize] = "99".to_string();
                    cases.push(defined_case(asg, render_list(&after), "element assignment"));
                } else {
                    cases.push(error_case(src, "list index out of domain"));
                    cases.push(error_case(src2, "list index out of domain"));
                    cases.push(error_case(asg, "element assignment out of domain"));
                }
            }
            // range read
            for a in &bounds {
                for b in &bounds {
                    let av = a.unwrap_or(0);
                    let bv = b.unwrap_or(n as i64);
                    let ok = 0 <= av && av <= bv && bv <= n as i64;
                    let src = format!("xs := {}\nprint(xs[{}:{}])\n", l, bound_src(*a), bound_src(*b));
                    if ok {
                        cases.push(defined_case(src, render_list(&items[av as usize..bv as usize]), "list range read"));
                        // the slice is a new list sharing elements; the original is unchanged
                        let src3 = format!(
                            "xs := {}\nys := xs[{}:{}]\nprint(ys === xs)\nprint(xs)\n",
                            l, bound_src(*a), bound_src(*b)
                        );
                        cases.push(defined_case(src3, format!("false\n{}", render_list(&items)), "list range read identity"));
                    } else {
                        cases.push(error_case(src, "list range out of domain"));
                    }
                    // range assignment with rhs lists and strings of every length
                    for m in 0..=(n + 1) {
                        let (rl, ritems) = list_lit(m, 70);
                        let rs: String = alphabet[..m].iter().collect();
                        let rs_items: Vec<String> = alphabet[..m].iter().map(|c| c.to_string()).collect();
                        let aok = 0 <= av && av < bv && bv <= n as i64 && (bv - av) as usize == m;
                        for (rhs_src, rhs_items, kind) in
                            [(rl.clone(), ritems.clone(), "list"), (format!("\"{}\"", rs), rs_items.clone(), "string")]
                        {
                            let src = format!(
                                "xs := {}\nys := {}\nxs[{}:{}] = ys\nprint(xs)\n",
                                l, rhs_src, bound_src(*a), bound_src(*b)
                            );
                            if aok {
                                let mut after = items.clone();
                                for k in 0..m {
                                    after[av as usize + k] = rhs_items[k].clone();
                                }
                                cases.push(defined_case(src, render_list(&after), &format!("range assignment from {}", kind)));
                            } else {
                                cases.push(error_case(src, &format!("range assignment from {} out of domain", kind)));
                            }
                        }
                    }
                }
            }
            // range assignment whose right-hand side is the list itself (directly and through
            // an alias): defined exactly when the range is the whole list
            for a in &bounds {
                for b in &bounds {
                    let av = a.unwrap_or(0);
                    let bv = b.unwrap_or(n as i64);
                    let aok = 0 <= av && av < bv && bv <= n as i64 && (bv - av) as usize == n;
                    for tmpl in ["xs := @L\nxs[@A:@B] = xs\nprint(xs)\n", "xs := @L\nys := xs\nys[@A:@B] = xs\nprint(xs)\n", "xs := @L\nys := xs\nxs[@A:@B] = ys\nprint(ys)\n"] {
                        let src = tmpl.replace("@L", &l).replace("@A", &bound_src(*a)).replace("@B", &bound_src(*b));
                        if aok {
                            cases.push(defined_case(src, render_list(&items), "range assignment from the list itself"));
                        } else {
                            cases.push(error_case(src, "range assignment from the list itself out of domain"));
                        }
                    }
                }
            }
            // range assignment from strings with multi-byte characters: one element per byte
            if n <= 5 {
                for (rs, nbytes) in [("é", 2usize), ("né", 3), ("€", 3), ("a😀", 5)] {
                    for a in &bounds {
                        for b in &bounds {
                            let av = a.unwrap_or(0);
                            let bv = b.unwrap_or(n as i64);
                            let aok = 0 <= av && av < bv && bv <= n as i64 && (bv - av) as usize == nbytes;
                            if aok {
                                let parts: Vec<String> = (0..nbytes).map(|k| format!("xs[{}]", av as usize + k)).collect();
                                let src = format!(
                                    "xs := {}\nxs[{}:{}] = \"{}\"\nprint(({}) == \"{}\")\nprint(xs[:{}] == {}[:{}])\nprint(xs[{}:] == {}[{}:])\n",
                                    l, bound_src(*a), bound_src(*b), rs, parts.join(" + "), rs, av, l, av, bv, l, bv
                                );
                                cases.push(defined_case(src, "true\ntrue\ntrue\n".to_string(), "range assignment from a multi-byte string"));
                            } else {
                                let src = format!("xs := {}\nxs[{}:{}] = \"{}\"\nprint(1)\n", l, bound_src(*a), bound_src(*b), rs);
                                cases.push(error_case(src, "range assignment from a multi-byte string out of domain"));
                            }
                        }
                    }
                }
            }
            // a range of a range is checked against the intermediate sequence
            if n <= 4 {
                let m = n as i64 + 1;
                for a in 0..=m {
                    for b2 in 0..=m {
                        for c2 in 0..=m {
                            for d2 in 0..=m {
                                let ok1 = a <= b2 && b2 <= n as i64;
                                let ok2 = ok1 && c2 <= d2 && d2 <= b2 - a;
                                let src = format!("xs := {}\nprint(xs[{}:{}][{}:{}])\n", l, a, b2, c2, d2);
                                if ok2 {
                                    cases.push(defined_case(src, render_list(&items[(a + c2) as usize..(a + d2) as usize]), "range of a range"));
                                } else {
                                    cases.push(error_case(src, "range of a range out of domain"));
                                }
                            }
                        }
                    }
                }
                for a in 0..=m {
                    for b2 in 0..=m {
                        for i2 in 0..=m {
                            let ok = a <= b2 && b2 <= n as i64 && i2 < b2 - a;
                            let src = format!("xs := {}\nprint(xs[{}:{}][{}])\n", l, a, b2, i2);
                            if ok {
                                cases.push(defined_case(src, format!("{}\n", items[(a + i2) as usize]), "index of a range"));
                            } else {
                                cases.push(error_case(src, "index of a range out of domain"));
                            }
                        }
                    }
                }
            }
            // split law s[:k] + s[k:] == s, evaluated by the subject
            for k in 0..=n {
                let src = format!("xs := {}\nprint((xs[:{}] + xs[{}:]) == xs)\nprint((xs[:{}] + xs[{}:]) === xs)\n", l, k, k, k, k);
                cases.push(defined_case(src, "true\nfalse\n".to_string(), "split law"));
            }
            // concatenation
            for m in 0..=max_list {
                let (r, ritems) = list_lit(m, 40);
                let mut all = items.clone();
                all.extend(ritems.clone());
                cases.push(defined_case(format!("s := {}\nt := {}\nprint(s + t)\n", l, r), render_list(&all), "list concatenation"));
                // the sum is a new list: writing through it changes neither operand
                if n + m > 0 {
                    let mut after = all.clone();
                    after[0] = "99".to_string();
                    cases.push(defined_case(
                        format!("s := {}\nt := {}\nz := s + t\nprint(z === s)\nprint(z === t)\nz[0] = 99\nprint(z)\nprint(s)\nprint(t)\n", l, r),
                        format!("false\nfalse\n{}{}{}", render_list(&after), render_list(&items), render_list(&ritems)),
                        "list concatenation result is fresh",
                    ));
                } else {
                    cases.push(defined_case(format!("s := {}\nt := {}\nz := s + t\nprint(z === s)\nprint(z === t)\n", l, r), "false\nfalse\n".to_string(), "list concatenation result is fresh"));
                }
                for i in 0..m {
                    cases.push(defined_case(
                        format!("s := {}\nt := {}\nprint((s + t)[{} + {}] == t[{}])\n", l, r, n, i, i),
                        "true\n".to_string(),
                        "concatenation index law",
                    ));
                }
            }
            // non-integer index kinds and bounds
            for bad in ["null", "true", "\"0\"", "[0]", "{}"] {
                cases.push(error_case(format!("xs := {}\nprint(\"p\")\nk := {}\nprint(xs[k])\n", list_lit(n.max(1), 10).0, bad), "non-integer index"));
                cases.push(error_case(format!("xs := {}\nk := {}\nprint(xs[k:])\n", list_lit(n.max(1), 10).0, bad), "non-integer bound"));
                cases.push(error_case(format!("xs := {}\nk := {}\nprint(xs[:k])\n", list_lit(n.max(1), 10).0, bad), "non-integer bound"));
                cases.push(error_case(format!("xs := {}\nk := {}\nxs[k] = 1\n", list_lit(n.max(1), 10).0, bad), "non-integer index"));
                cases.push(error_case(format!("xs := {}\nk := {}\nxs[k:1] = [1]\n", list_lit(n.max(1), 10).0, bad), "non-integer bound"));
                cases.push(error_case(format!("xs := {}\nk := {}\nxs[0:k] = [1]\n", list_lit(n.max(1), 10).0, bad), "non-integer bound"));
            }
        }
        // range assignment with other right-hand sides
        for bad in ["null", "true", "7", "{\"a\": 1}", "print"] {
            cases.push(error_case(format!("xs := [1, 2, 3]\nys := {}\nxs[0:1] = ys\nprint(xs)\n", bad), "range assignment rhs kind"));
        }

        // ----- ASCII strings -----
        for n in 0..=max_str {
            let s: String = alphabet[..n].iter().collect();
            let lit = format!("\"{}\"", s);
            let lo = -2i64;
            let hi = n as i64 + 2;
            let mut bounds: Vec<Option<i64>> = vec![None];
            for x in lo..=hi {
                bounds.push(Some(x));
            }
            for i in lo..=hi {
                let ok = i >= 0 && (i as usize) < n;
                let src = format!("s := {}\ni := {}\nprint(s[i])\n", lit, i);
                if ok {
                    cases.push(defined_case(src, format!("{}\n", &s[i as usize..i as usize + 1]), "string index"));
                } else {
                    cases.push(error_case(src, "string index out of domain"));
                }
                // strings are immutable
                cases.push(error_case(format!("s := {}\ni := {}\ns[i] = \"z\"\nprint(s)\n", lit, i), "string element assignment"));
            }
            for a in &bounds {
                for b in &bounds {
                    let av = a.unwrap_or(0);
                    let bv = b.unwrap_or(n as i64);
                    let ok = 0 <= av && av <= bv && bv <= n as i64;
                    let src = format!("s := {}\nprint(s[{}:{}])\n", lit, bound_src(*a), bound_src(*b));
                    if ok {
                        cases.push(defined_case(src, format!("{}\n", &s[av as usize..bv as usize]), "string range read"));
                    } else {
                        cases.push(error_case(src, "string range out of domain"));
                    }
                    cases.push(error_case(
                        format!("s := {}\ns[{}:{}] = \"z\"\nprint(s)\n", lit, bound_src(*a), bound_src(*b)),
                        "string range assignment",
                    ));
                }
            }
            if n <= 4 {
                let m = n as i64 + 1;
                for a in 0..=m {
                    for b2 in 0..=m {
                        for c2 in 0..=m {
                            for d2 in 0..=m {
                                let ok1 = a <= b2 && b2 <= n as i64;
                                let ok2 = ok1 && c2 <= d2 && d2 <= b2 - a;
                                let src = format!("s := {}\nprint(s[{}:{}][{}:{}])\n", lit, a, b2, c2, d2);
                                if ok2 {
                                    cases.push(defined_case(src, format!("{}\n", &s[(a + c2) as usize..(a + d2) as usize]), "range of a string range"));
                                } else {
                                    cases.push(error_case(src, "range of a string range out of domain"));
                                }
                            }
                        }
                    }
                }
            }
            for k in 0..=n {
                cases.push(defined_case(format!("s := {}\nprint((s[:{}] + s[{}:]) == s)\n", lit, k, k), "true\n".to_string(), "split law"));
            }
            for m in 0..=max_str {
                let t: String = alphabet[..m].iter().rev().collect();
                cases.push(defined_case(format!("s := {}\nt := \"{}\"\nprint(s + t)\nprint((s + t)->len())\n", lit, t), format!("{}{}\n{}\n", s, t, n + m), "string concatenation"));
                for i in 0..m {
                    cases.push(defined_case(
                        format!("s := {}\nt := \"{}\"\nprint((s + t)[{} + {}] == t[{}])\n", lit, t, n, i, i),
                        "true\n".to_string(),
                        "concatenation index law",
                    ));
                }
            }
        }

        // ----- multi-byte strings: bytes observed by reassembly and ==, never by printing -----
        for s in ["é", "aé", "éa", "€", "a€b", "😀", "é€", "x😀y", "éé"] {
            let n = s.len() as i64;
            let lit = format!("\"{}\"", s);
            cases.push(defined_case(format!("s := {}\nprint(s->len())\n", lit), format!("{}\n", n), "byte length"));
            let parts: Vec<String> = (0..n).map(|i| format!("s[{}]", i)).collect();
            cases.push(defined_case(format!("s := {}\nprint(({}) == s)\n", lit, parts.join(" + ")), "true\n".to_string(), "byte reassembly"));
            for i in -2..=n + 2 {
                let ok = i >= 0 && i < n;
                let src = format!("s := {}\ni := {}\nprint(s[i] == s[i:i + 1])\nprint((s[:i] + s[i] + s[i + 1:]) == s)\n", lit, i);
                if ok {
                    cases.push(defined_case(src, "true\ntrue\n".to_string(), "byte index"));
                } else {
                    cases.push(error_case(format!("s := {}\ni := {}\nt := s[i]\n", lit, i), "byte index out of domain"));
                }
            }
            for a in -1..=n + 1 {
                for b in -1..=n + 1 {
                    let ok = 0 <= a && a <= b && b <= n;
                    if ok {
                        cases.push(defined_case(
                            format!("s := {}\nprint((s[:{}] + s[{}:{}] + s[{}:]) == s)\n", lit, a, a, b, b),
                            "true\n".to_string(),
                            "byte range",
                        ));
                    } else {
                        cases.push(error_case(format!("s := {}\nt := s[{}:{}]\nprint(1)\n", lit, a, b), "byte range out of domain"));
                    }
                }
            }
            // for over bytes
            let mut exp = String::new();
            for i in 0..n {
                exp.push_str(&format!("{}\ntrue\n", i));
            }
            cases.push(defined_case(format!("s := {}\nfor [i, c] in s {{\n print(i)\n print(c == s[i])\n}}\n", lit), exp, "byte iteration"));
        }

        // op-assignment on an element at every index: defined exactly inside the list
        for n in 0..=max_list as i64 {
            let (lit, items) = list_lit(n as usize, 10);
            for i in -2..=n + 2 {
                for (op, f) in [("+=", 1i64), ("-=", 1), ("*=", 2)] {
                    let src = format!("xs := {}\ni := {}\nxs[i] {} {}\nprint(xs)\n", lit, i, op, f);
                    if i >= 0 && i < n {
                        let mut it = items.clone();
                        let old: i64 = it[i as usize].parse().unwrap();
                        it[i as usize] = format!("{}", match op { "+=" => old + f, "-=" => old - f, _ => old * f });
                        cases.push(defined_case(src, render_list(&it), "element op-assignment"));
                    } else {
                        cases.push(error_case(src, "element op-assignment out of domain"));
                    }
                }
            }
        }
        // indices, bounds and right-hand sides that read the list being assigned to: the model is
        // the reference interpreter (indices and bounds are evaluated first, then the write happens)
        for src in [
            "xs := [1, 2, 0, 3]\nxs[xs[2]] = 9\nprint(xs)\n",
            "xs := [1, 2, 0, 3]\nxs[xs[0]] += 5\nprint(xs)\n",
            "xs := [1, 2, 0, 3]\nxs[xs[0]:xs[3]] = [7, 8]\nprint(xs)\n",
            "xs := [1, 2, 0, 3]\nxs[xs[2]:xs[1]] = xs[2:4]\nprint(xs)\n",
            "xs := [1, 2, 0, 3]\nxs[:xs[1]] = [xs[1], xs[0]]\nprint(xs)\n",
            "xs := [1, 2, 0, 3]\nxs[xs[0]:] = [xs[3], xs[2], xs[1]]\nprint(xs)\n",
            "xs := [1, 2, 0, 3]\nxs[1] = xs[0] + xs[3]\nprint(xs)\n",
            "xs := [1, 2, 0, 3]\nxs[0:4] = xs\nprint(xs)\n",
            "xs := [1, 2, 0, 3]\nxs[0:2] = xs[2:4]\nxs[2:4] = xs[0:2]\nprint(xs)\n",
            "xs := [1, 2, 0, 3]\nfn at(l) {\nreturn l[2]\n}\nfn n(l) {\nk := 0\nfor e in l {\nk += 1\n}\nreturn k\n}\nxs[at(xs):n(xs)] = [4, 5, 6, 7]\nprint(xs)\n",
            "xs := [1, 2, 0, 3]\nxs[xs[9]] = 1\nprint(xs)\n",
            "xs := [1, 2, 0, 3]\nxs[xs[3]:xs[0]] = []\nprint(xs)\n",
            "xs := [[1], [0]]\nxs[xs[1][0]][0] = 5\nprint(xs)\n",
            "s := \"abc\"\nxs := [0, 1, 2]\nxs[xs[1]:] = s[xs[1]:]\nprint(xs)\n",
            "o := {\"l\": [1, 0]}\no.l[o.l[1]] = 7\nprint(o.l)\no.l[o.l[1]:] = [8]\nprint(o.l)\n",
            "n := 0\nfn next() {\nn += 1\nreturn n\n}\nxs := [10, 20, 30, 40]\nxs[next()] += 5\nprint(xs)\nprint(n)\nxs[next()] = xs[next()]\nprint(xs)\nprint(n)\nxs[next():] = [1]\nprint(n)\n",
            "e := []\nt := [e, e, [0]]\nt[0] += [1, 2]\nprint(t)\nprint(e)\nt[2] += t[2]\nprint(t)\n",
            "o := {\"id\": \"O\", \"m\": fn () {\nreturn this.id\n}}\nxs := [o.m, \"abc\"->len]\nprint(xs[0]())\nprint(xs[0:1][0]())\nprint(xs[:][0]())\nprint(xs[1:][0]())\nprint((xs + [])[0]())\n",
            "a := {\"id\": \"A\", \"f\": fn () {\nreturn this.id\n}}\nxs := [0, 0]\nxs[0:2] = [a.f, a.f]\nprint(xs[1]())\nys := xs[0:1] + xs[1:2]\nprint(ys[1]())\n",
            "xs := [1, 2, 3]\nxs[0:2] = {\"a\": 8, \"b\": 9}\nprint(xs)\n",
            "xs := [1, 2, 3, 4, 5]\nxs[1:4] = xs[0:3]\nprint(xs)\n",
            "s := [1, 2]\nu := [3, 4]\nprint(s + [u..])\nprint(s + [u.., 5])\nprint(s + [0, u..])\nprint([u..] + s)\nprint((s + [u..])[2] == u[0])\nt := s + [u..]\nt[2] = 9\nprint(u)\n",
            "s := [1, 2]\nprint(\"pre\")\nprint(s + [5..])\n",
            "s := \"outer!\"\nfn f(s) {\nprint(s[1] == \"n\")\n{\ns := \"xy\"\nprint(s[1] == \"y\")\nprint(s[0:2] == \"xy\")\n}\nreturn s[2]\n}\nprint(f(\"inn\") == \"n\")\nprint(s[5] == \"!\")\n",
            "s := \"outer!\"\n{\ns := \"ab\"\nprint(\"pre\")\nt := s[4]\nprint(\"unreachable\")\n}\n",
            "xs := [7]\nys := [1, 2, 3]\n{\nxs := ys\nprint(xs[2])\nxs[1] = 9\n}\nprint(ys)\nprint(xs)\n",
            "xs := [1, 2, 3, 4, 5]\nxs[0:3] = xs[1:4]\nprint(xs)\n",
            "xs := [1, 2, 3, 4, 5]\nxs[2:5] = xs[0:3]\nprint(xs)\nxs[0:4] = xs[1:5]\nprint(xs)\n",
            "xs := [1, 2, 3, 4, 5]\nys := xs\nxs[1:3] = ys[2:4]\nprint(xs)\nxs[2:4] = ys[1:3]\nprint(ys)\n",
            "xs := [[1], [2], [3]]\nxs[1:3] = xs[0:2]\nxs[1][0] = 9\nprint(xs)\n",
            "s := \"abcde\"\nxs := [0, 0, 0, 0, 0]\nxs[1:4] = s[0:3]\nprint(xs)\nxs[0:2] = xs[3:5]\nprint(xs)\n",
            "xs := [1, 2, 3]\nfn nothing() {\n}\nprint(xs[nothing():])\n",
            "xs := [1, 2, 3]\nprint(xs[:null])\n",
            "xs := [1, 2, 3]\nxs[null:1] = [0]\nprint(xs)\n",
            "print(\"abcdef\"[2:null])\n",
            "a := [1]\nb := a\nt := [a, 5]\nt[0] += [2]\nt[1] += 1\nprint(t)\nprint(a)\nprint(b)\n",
            "s := \"aé€b\"\nt := \"é!\"\nprint(s[:s->len()] == s)\nprint((s + t)[s->len()] == t[0])\nprint((s + t)[s->len() + 2] == t[2])\nprint((s + t)->len() == s->len() + t->len())\nprint(s->len())\n",
            "s := \"日本\"\nn := 0\nfor c in s {\nn += 1\n}\nprint(n == s->len())\nprint(s[s->len() - 1:] == s[5:6])\n",
        ] {
            let r = crate::refm::eval::run(src, 100_000);
            if r.is_ok() {
                cases.push(defined_case(src.to_string(), String::from_utf8_lossy(&r.stdout).to_string(), "self-reading index or bound"));
            } else {
                cases.push(error_case(src.to_string(), "self-reading index or bound out of domain"));
            }
        }
        // bounds and indices far outside the sequence: reported, whatever their size
        for big in ["9223372036854775807", "9223372036854775806", "1099511627776", "4294967296", "2147483648", "-9223372036854775807", "-9223372036854775807 - 1"] {
            for tmpl in ["xs := [1, 2, 3]\nb := @\nt := xs[1:b]\n", "xs := [1, 2, 3]\nb := @\nt := xs[b:]\n", "xs := [1, 2, 3]\nb := @\nt := xs[b]\n", "xs := [1, 2, 3]\nb := @\nt := xs[b:b]\n", "xs := [1, 2, 3]\nb := @\nxs[1:b] = [0]\n", "xs := [1, 2, 3]\nb := @\nxs[b] = 0\n", "s := \"héllo\"\nb := @\nt := s[1:b]\n", "s := \"héllo\"\nb := @\nt := s[b]\n", "s := \"héllo\"\nb := @\nt := s[b:b]\n"] {
                cases.push(error_case(tmpl.replace('@', big), "bound or index far outside the sequence"));
            }
        }
        for a in -1i64..=2 {
            for b in a - 1..=a + 3 {
                for i in -1i64..=(b - a).max(0) + 1 {
                    for form in ["print((A .. B)[I])\n", "r := A .. B\nprint(r[I])\n", "print((A .. B)[I:])\n", "print((A .. B)[:I])\n", "print([(A .. B)..][I])\n", "lo := A\nhi := B\nprint((lo .. hi)[I])\n", "print(((A .. B) + [])[I])\n"] {
                        let src = format!("print(\"pre\")\n{}", form.replace('A', &a.to_string()).replace('B', &b.to_string()).replace('I', &i.to_string()));
                        let r = crate::refm::eval::run(&src, 100_000);
                        if r.is_ok() {
                            cases.push(defined_case(src, String::from_utf8_lossy(&r.stdout).to_string(), "an index applied directly to a range expression"));
                        } else {
                            let mut e = error_case(src, "an index applied directly to a range expression");
                            e.meta = format!("X{}\u{1}{}", String::from_utf8_lossy(&r.stdout), "an index applied directly to a range expression (fails)");
                            cases.push(e);
                        }
                    }
                }
            }
        }
        for p in super::evalorder::SELF_READ_PROGRAMS {
            let r = crate::refm::eval::run(p, 100_000);
            if r.is_ok() {
                cases.push(defined_case(p.to_string(), String::from_utf8_lossy(&r.stdout).to_string(), "an index or bound that reads or writes the sequence it is applied to"));
            }
        }
        // indices and bounds are evaluated exactly once, before the right-hand side
        for c in super::evalorder::cases(0) {
            if c.meta.contains("`xs[") || c.meta.contains("`@1[@2") || c.meta.contains("`r = @1[@2") || c.meta.contains("`[xs[") {
                let r = crate::refm::eval::run(&c.src, 100_000);
                if r.is_ok() {
                    cases.push(defined_case(c.src.clone(), String::from_utf8_lossy(&r.stdout).to_string(), "evaluation of indices and bounds"));
                } else {
                    let mut e = error_case(c.src.clone(), "evaluation of indices and bounds");
                    e.meta = format!("X{}\u{1}{}", String::from_utf8_lossy(&r.stdout), "evaluation of indices and bounds (fails)");
                    cases.push(e);
                }
            }
        }
        for c in &cases {
            if c.meta.starts_with('D') {
                n_defined += 1;
            } else {
                n_error += 1;
            }
        }
        ctx.judge(cases, |c, r, o| self.oracle(c, r, o))?;
        ctx.guard("both defined and out-of-domain cases explored", n_defined > 0 && n_error > 0);
        ctx.extra.insert(
            "bounds".into(),
            json!({"max_list_len": max_list, "max_string_len": max_str, "index_window": "[-2, len+2] + omitted",
                   "cases_in_domain": n_defined, "cases_out_of_domain": n_error}),
        );
        Ok(())
    }

    fn oracle(&self, c: &Case, r: &RefOutcome, o: &Outcome) -> Verdict {
        let (head, what) = match c.meta.split_once('\u{1}') {
            Some(x) => x,
            None => (c.meta.as_str(), ""),
        };
        if let Some(exp) = head.strip_prefix('D') {
            if o.class != Class::Ok {
                return viol("defined-case-rejected", format!("{}: inside the stated domain but the run ended {:?}: {}", what, o.class, o.msg));
            }
            if o.out_str() != exp {
                return viol("wrong-element", format!("{}: printed {:?}, the sequence model gives {:?}", what, o.out_str(), exp));
            }
            if r.is_ok() && r.stdout != o.stdout {
                return viol("reference-mismatch", format!("{}: printed {:?}, reference {:?}", what, o.out_str(), String::from_utf8_lossy(&r.stdout)));
            }
            Verdict::Pass
        } else if let Some(exp) = head.strip_prefix('X') {
            if o.class != Class::Err || o.out_str() != exp {
                return viol("index-evaluation", format!("{}: must fail after printing {:?}; the run ended {:?} printing {:?}", what, exp, o.class, o.out_str()));
            }
            Verdict::Pass
        } else {
            if o.class != Class::Err {
                return viol("out-of-domain-accepted", format!("{}: outside the stated domain but the run ended {:?} printing {:?}", what, o.class, o.out_str()));
            }
            Verdict::Pass
        }
    }
}
