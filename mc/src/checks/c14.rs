//! C14 — calls bind arguments to fresh parameters; `this` follows the access
//! path.  (1) Breadth-first exploration of histories that attach a function to
//! objects, read it through `.`/`[]`, move the value through variables,
//! arguments, lists, returns and other objects, and call it; states are merged
//! on the (function, provenance) contents of every holder.  (2) The product
//! arity x rest parameter x argument count x plain/spread split, with
//! arguments that print when evaluated.  (3) Parameter freshness.
//! Oracle: reference model with explicit provenance as worded in the statement.
use super::Check;
use crate::engine::*;
use crate::explore::{bfs, Alphabet, CURSOR_MARK};
use crate::refm::eval::{run_prog_keep, Interp, RefOutcome, SVal, Val};
use crate::refm::parse::parse_prog;
use crate::subject::{Class, MachineryError, Outcome};
use serde_json::json;

pub struct C14;

const PRELUDE: &str = "o := {\"id\": \"O\", \"f\": fn () {\nprint(this.id)\n}, \"m\": fn () {\ninner := fn () {\nreturn this.id\n}\nreturn inner()\n}}\np := {\"id\": \"P\"}\nfn sf() {\nprint(this.id)\n}\nfn id(a) {\nreturn a\n}\nfn get() {\nreturn o.f\n}\nfn callit(c) {\nc()\n}\nv := null\nw := null\nl := [null]\n";

const OPS: &[&str] = &[
    "o.f = sf",
    "p.g = o.f",
    "p[\"g\"] = sf",
    "o[\"f\"] = p.g",
    "v = o.f",
    "v = o[\"f\"]",
    "v = p.g",
    "v = sf",
    "w = v",
    "v = w",
    "v = id(v)",
    "l = [v]",
    "v = l[0]",
    "v = get()",
    "[v] = [o.f]",
    "p.h = v",
    "v = p.h",
    "v()",
    "w()",
    "o.f()",
    "o[\"f\"]()",
    "p.g()",
    "l[0]()",
    "sf()",
    "print(o.m())",
    "p.m = o.m",
    "print(p.m())",
    "l[0] = o.f",
    "w = p.g",
    "callit(v)",
    "callit(o.f)",
    "o.f = w",
    "p.h()",
    "[_, ..l] = [0, p.g]",
    "v = [o.f][0]",
    "v = {\"k\": o.f}.k",
];

#[derive(Clone)]
pub struct St {
    ops: Vec<u16>,
    text: String,
}

struct Alpha;

fn slot_desc(it: &Interp, sv: Option<&SVal>, ids: &mut Vec<usize>) -> String {
    fn idx(ids: &mut Vec<usize>, a: usize) -> usize {
        match ids.iter().position(|x| *x == a) {
            Some(i) => i,
            None => {
                ids.push(a);
                ids.len() - 1
            }
        }
    }
    match sv {
        None => "-".to_string(),
        Some(sv) => {
            let v = match &sv.v {
                Val::Func(a) => format!("F{}", idx(ids, *a)),
                Val::Null => "N".to_string(),
                Val::List(a) => {
                    let inner: Vec<String> = it.list(*a).iter().map(|e| slot_desc(it, Some(e), ids)).collect();
                    format!("[{}]", inner.join(","))
                }
                other => format!("{:?}", other.kind()),
            };
            let s = match &sv.src {
                Some(b) => match &**b {
                    Val::Obj(a) => format!("@{}", idx(ids, *a + 1_000_000)),
                    _ => "@?".to_string(),
                },
                None => String::new(),
            };
            format!("{}{}", v, s)
        }
    }
}

fn analyse(text: &str) -> (String, String) {
    let prog = match parse_prog(text) {
        Ok(p) => p,
        Err(_) => return (String::new(), String::new()),
    };
    let (_o, it) = run_prog_keep(&prog, REF_BUDGET);
    let mut ids = vec![];
    let mut key = String::new();
    let mut with_this: Vec<&str> = vec![];
    let mut without: Vec<&str> = vec![];
    let objs = [("o", "f"), ("o", "m"), ("p", "g"), ("p", "h"), ("p", "m"), ("p", "f")];
    for name in ["v", "w", "l"] {
        let sv = it.top_var(name);
        key.push_str(&format!("{}={};", name, slot_desc(&it, sv, &mut ids)));
        if name != "l" {
            if let Some(sv) = sv {
                if matches!(sv.v, Val::Func(_)) {
                    if sv.src.is_some() {
                        with_this.push(if name == "v" { "v()" } else { "w()" });
                    } else {
                        without.push(if name == "v" { "v()" } else { "w()" });
                    }
                }
            }
        }
    }
    if let Some(SVal { v: Val::List(a), .. }) = it.top_var("l") {
        if let Some(e) = it.list(*a).first() {
            if matches!(e.v, Val::Func(_)) {
                if e.src.is_some() {
                    with_this.push("l[0]()");
                } else {
                    without.push("l[0]()");
                }
            }
        }
    }
    for (ob, k) in objs {
        let sv = match it.top_var(ob) {
            Some(SVal { v: Val::Obj(a), .. }) => it.obj(*a).get(k).cloned(),
            _ => None,
        };
        key.push_str(&format!("{}.{}={};", ob, k, slot_desc(&it, sv.as_ref(), &mut ids)));
    }
    let mut suffix = String::new();
    for c in with_this {
        suffix.push_str(c);
        suffix.push('\n');
    }
    suffix.push_str("print(\"-\")\n");
    // a holder without provenance: the call must fail (no `this`), which ends the program
    if let Some(c) = without.first() {
        suffix.push_str(c);
        suffix.push('\n');
    }
    (suffix, key)
}

impl Alphabet for Alpha {
    type St = St;
    fn init(&self) -> St {
        St { ops: vec![], text: PRELUDE.to_string() }
    }
    fn enabled(&self, st: &St) -> Vec<u16> {
        let last = st.ops.last().copied();
        (0..OPS.len() as u16)
            .filter(|o| !(OPS[*o as usize].ends_with("()") && last == Some(*o)))
            .collect()
    }
    fn apply(&self, st: &St, op: u16) -> St {
        let mut s = st.clone();
        s.ops.push(op);
        s.text.push_str(OPS[op as usize]);
        s.text.push('\n');
        s
    }
    fn program(&self, st: &St) -> String {
        let (suffix, _) = analyse(&st.text);
        format!("{}print(\"{}\")\n{}", st.text, CURSOR_MARK, suffix)
    }
    fn describe(&self, st: &St) -> String {
        st.ops.iter().map(|o| OPS[*o as usize]).collect::<Vec<_>>().join(" ; ")
    }
    fn nontrivial(&self, st: &St) -> bool {
        // the function value travelled at least one step before being called
        st.ops.len() >= 2
    }
    fn key(&self, st: &St, _prog: &str, _r: &RefOutcome, _o: &Outcome) -> u64 {
        h64(&analyse(&st.text).1)
    }
}

fn arity_cases() -> Vec<Case> {
    let mut v = arity_cases_kind(0);
    // the same product with the function reached through an object (three call routes): the
    // receiver is bound as `this` and takes no part in the argument count or the rest list
    for kind in 1..=3 {
        v.extend(arity_cases_kind(kind));
    }
    v
}

fn arity_cases_kind(kind: u8) -> Vec<Case> {
    let mut v = vec![];
    let names = ["a", "b", "c", "d"];
    for np in 0..=4usize {
        for rest in [false, true] {
            if rest && np == 0 {
                continue;
            }
            let params: Vec<String> = (0..np)
                .map(|i| if rest && i == np - 1 { format!("..{}", names[i]) } else { names[i].to_string() })
                .collect();
            let body: Vec<String> = (0..np).map(|i| format!("print({})", names[i])).collect();
            let def = if kind == 0 {
                format!(
                    "fn t(n) {{\nprint(\"arg\")\nprint(n)\nreturn n\n}}\nfn f({}) {{\nprint(\"called\")\n{}\nreturn \"ret\"\n}}\n",
                    params.join(", "),
                    body.join("\n")
                )
            } else {
                format!(
                    "fn t(n) {{\nprint(\"arg\")\nprint(n)\nreturn n\n}}\nob := {{\"id\": \"OB\", \"f\": fn ({}) {{\nprint(\"called\")\n{}\nprint(this.id)\nreturn \"ret\"\n}}}}\n{}",
                    params.join(", "),
                    body.join("\n"),
                    if kind == 3 { "g := ob.f\n" } else { "" }
                )
            };
            let callee = match kind {
                0 => "f",
                1 => "ob.f",
                2 => "ob[\"f\"]",
                _ => "g",
            };
            for na in 0..=5usize {
                // every split of the argument list into plain arguments and spread segments:
                // a bitmask of cut points groups consecutive arguments; every group of size >= 1
                // is written either plainly (size 1) or as a spread of a list literal
                let groups = compositions(na);
                for g in groups {
                    for mask in 0..(1u32 << g.len()) {
                        // mask bit set => the group is written as a spread
                        let mut args: Vec<String> = vec![];
                        let mut idx = 0;
                        let mut valid = true;
                        for (gi, size) in g.iter().enumerate() {
                            let spread = mask & (1 << gi) != 0;
                            if !spread && *size != 1 {
                                valid = false;
                                break;
                            }
                            let items: Vec<String> = (idx..idx + size).map(|k| format!("t({})", k + 1)).collect();
                            idx += size;
                            if spread {
                                args.push(format!("[{}]..", items.join(", ")));
                            } else {
                                args.push(items[0].clone());
                            }
                        }
                        if !valid {
                            continue;
                        }
                        let src = format!("{}print({}({}))\nprint(\"end\")\n", def, callee, args.join(", "));
                        v.push(Case::new(src, 2, format!("arity callee={} params={} rest={} args={} groups={:?} spreadmask={}", callee, np, rest, na, g, mask)));
                    }
                }
                // an empty spread in front / behind
                if na <= 4 {
                    let items: Vec<String> = (0..na).map(|k| format!("t({})", k + 1)).collect();
                    let mut a1 = vec!["[]..".to_string()];
                    a1.extend(items.clone());
                    let mut a2 = items.clone();
                    a2.push("[]..".to_string());
                    for a in [a1, a2] {
                        v.push(Case::new(format!("{}print({}({}))\nprint(\"end\")\n", def, callee, a.join(", ")), 2, format!("arity callee={} params={} rest={} args={} with empty spread", callee, np, rest, na)));
                    }
                }
            }
        }
    }
    v
}

pub fn arity_cases_pub() -> Vec<Case> {
    arity_cases_kind(0)
}

fn compositions(n: usize) -> Vec<Vec<usize>> {
    if n == 0 {
        return vec![vec![]];
    }
    let mut out = vec![];
    for first in 1..=n {
        for mut rest in compositions(n - first) {
            let mut v = vec![first];
            v.append(&mut rest);
            out.push(v);
        }
    }
    out
}

fn freshness_cases() -> Vec<Case> {
    let progs = [
        "fn setp(a) {\na = 9\nprint(a)\n}\nx := 1\nsetp(x)\nprint(x)\n",
        "fn setp(a) {\na += 1\nprint(a)\n}\nx := 1\nsetp(x)\nsetp(x)\nprint(x)\n",
        "fn mutp(a) {\na[0] = 9\n}\nxs := [1]\nmutp(xs)\nprint(xs)\n",
        "fn mutp(a) {\na.k = 9\n}\no := {\"k\": 1}\nmutp(o)\nprint(o)\n",
        "fn rebind(a) {\na = [9]\n}\nxs := [1]\nrebind(xs)\nprint(xs)\n",
        "fn grow(a) {\na += [9]\nprint(a)\n}\nxs := [1]\ngrow(xs)\nprint(xs)\n",
        "fn two(a, b) {\na = b\nb = 0\nprint(a)\nprint(b)\n}\nx := 1\ny := 2\ntwo(x, y)\nprint(x)\nprint(y)\n",
        "fn rec(n) {\nif n > 0 {\nrec(n - 1)\n}\nprint(n)\nn = 100\n}\nrec(3)\n",
        "fn r(..rest) {\nrest[0] = 9\nprint(rest)\n}\nxs := [1, 2]\nr(xs..)\nprint(xs)\n",
        "fn r(a, ..rest) {\nprint(a)\nprint(rest)\n}\nr(1)\nr(1, 2)\nr(1, 2, 3)\n",
        "fn same(a, b) {\nprint(a === b)\na[0] = 5\nprint(b)\n}\nxs := [1]\nsame(xs, xs)\n",
        "fn f(a) {\nreturn fn () {\na += 1\nreturn a\n}\n}\ng := f(1)\nh := f(10)\nprint(g())\nprint(g())\nprint(h())\n",
        "fn p([a, b], {\"k\": c}) {\na = 0\nprint([a, b, c])\n}\nxs := [1, 2]\no := {\"k\": 3}\np(xs, o)\nprint(xs)\nprint(o)\n",
        "fn f0() {\nreturn 1\n}\nprint(f0(1))\n",
        "fn f0() {\nreturn 1\n}\nprint(f0([]..))\nprint(f0([1]..))\n",
        "o := {\"n\": 0, \"inc\": fn () {\nthis.n += 1\nreturn this.n\n}}\nprint(o.inc())\nprint(o.inc(5))\n",
        "o := {\"id\": \"O\", \"f\": fn () {\nreturn $\"<${this.id}>\"\n}}\nprint(o.f())\nprint(o[\"f\"]())\ng := o.f\nprint(g())\np := {\"id\": \"P\", \"f\": o.f}\nprint(p.f())\n",
        "o := {\"id\": \"O\", \"f\": fn () {\nh := fn () {\nreturn $\"${this.id}!\"\n}\nreturn h()\n}}\nprint(o.f())\n",
        "fn f(_, _, x) {\nprint(x)\n}\nf(1, 2, 3)\ng := fn (_, [_, y], _) {\nprint(y)\n}\ng(1, [2, 3], 4)\nfn t(_, _, ..r) {\nprint(r)\n}\nt(1, 2, 3, 4)\no := {\"m\": fn (_, _) {\nprint(\"m\")\n}}\no.m(1, 2)\n",
        "fn mk() {\no := {\"id\": \"T\", \"f\": fn () {\nreturn this.id\n}}\nreturn o.f\n}\ng := mk()\nprint(g())\nprint(mk()())\n",
        "fn make() {\nreturn {\"id\": \"M\", \"m\": fn () {\nreturn this.id\n}}\n}\nprint(make().m())\nprint(make()[\"m\"]())\nfs := []\nfor [i, n] in [\"a\", \"b\"] {\nob := {\"id\": n, \"m\": fn () {\nreturn this.id\n}}\nfs += [ob.m]\n}\nprint(fs[0]())\nprint(fs[1]())\n",
        "o := {\"id\": \"O\", \"m\": fn () {\nreturn this.id\n}}\nh := o.m\no = null\nprint(h())\n",
        "g := fn () {\nreturn 1\n}\nprint(g())\nprint(g(null))\n",
        // a spread argument contributes the items it has when it is evaluated
        "fn f(..r) {\nprint(r)\n}\nxs := [1, 2]\nfn g() {\nxs[0] = 9\nreturn 5\n}\nf(xs.., g())\nprint(xs)\n",
        "fn f(a, b, c) {\nprint([a, b, c])\n}\nxs := [1, 2]\nfn g() {\nxs[1] = 9\nreturn 5\n}\nf(xs.., g())\nf(g(), xs..)\n",
        "ys := [1]\nfn h() {\nys[0] = 2\nreturn ys\n}\nprint([ys.., h().., ys..])\n",
        // `this` of an inner call never replaces the `this` of the enclosing method
        "a := {\"id\": \"A\", \"m\": fn () {\nb := {\"id\": \"B\", \"g\": fn () {\nreturn this.id\n}}\nprint(b.g())\nprint(this.id)\nreturn fn () {\nreturn this.id\n}\n}}\nk := a.m()\nprint(k())\nprint(a.id)\n",
        "a := {\"id\": \"A\", \"mk\": fn () {\nreturn fn () {\nreturn this.id\n}\n}}\nb := {\"id\": \"B\"}\nb.g = a.mk()\nprint(b.g())\nc := {\"id\": \"C\", \"g\": b.g}\nprint(c.g())\nprint(b.g())\n",
        "a := {\"id\": \"A\", \"m\": fn (o) {\nprint(o.f())\nprint(this.id)\nprint(o.f())\nprint(this.id)\n}}\nb := {\"id\": \"B\", \"f\": fn () {\nreturn this.id\n}}\na.m(b)\n",
        "a := {\"id\": \"A\", \"m\": fn () {\ninner := fn () {\nreturn this.id\n}\nb := {\"id\": \"B\", \"g\": inner}\nprint(b.g())\nprint(inner())\nprint(this.id)\n}}\na.m()\n",
        // arguments are evaluated before the callee expression (the order named by the
        // property's anchor): an argument that rebinds what the callee expression denotes
        "fn old(x) {\nprint(\"old\")\n}\nfn new(x) {\nprint(\"new\")\n}\nhandler := old\nfn upgrade(x) {\nhandler = new\nreturn x\n}\nhandler(upgrade(\"a\"))\n",
        "a := {\"id\": \"A\", \"who\": fn (x) {\nprint(this.id)\n}}\nb := {\"id\": \"B\", \"who\": a.who}\ncur := a\nfn sw(x) {\ncur = b\nreturn x\n}\ncur.who(sw(1))\n",
        "fn boom() {\nprint(\"boom\")\nreturn [][0]\n}\nmissing(boom())\n",
        "fn t(n) {\nprint(n)\nreturn n\n}\nfs := [fn (a, b) {\nprint(\"f0\")\n}]\nfs[t(0)](t(1), t(2))\n",
    ];
    progs.iter().enumerate().map(|(i, s)| Case::new(s.to_string(), 3, format!("parameter freshness {}", i))).collect()
}

impl Check for C14 {
    fn id(&self) -> &'static str {
        "C14"
    }

    fn run(&self, ctx: &mut Ctx) -> Result<(), MachineryError> {
        let depth = std::env::var("C14_DEPTH").ok().and_then(|s| s.parse().ok()).unwrap_or(ctx.tier.pick(6usize, 8usize));
        ctx.rule = format!(
            "breadth-first over all histories of <= {} operations from {} operations that attach a function to objects o, p under names f, g, h, m, read it through . and [], move the value through variables v, w, an argument, a list element, a return, a list destructuring, another object, and call it (directly, through a holder, through a callback); states merged on the (function, provenance) content of every holder; each history is completed by calling every holder that has a `this`, then one that has none; plus parameter lists of arity 0..4 x rest parameter x 0..5 arguments x every split into plain and spread segments with printing arguments; plus {} parameter-freshness programs; non-trivial = history of >= 2 operations",
            depth,
            OPS.len(),
            freshness_cases().len()
        );
        ctx.rule.push_str("; calls whose key reads the object they go through (`m[m.state](x)`, `this[this.state](x)`, through an alias); bound functions through argument spreads and concatenation");
        let mut g_moved_called = false;
        let mut g_no_this = false;
        let stats = bfs(
            ctx,
            &Alpha,
            depth,
            |c, r, o| self.oracle(c, r, o),
            |_ctx, pairs| {
                for (_st, j) in pairs {
                    let out = String::from_utf8_lossy(&j.r.stdout).to_string();
                    if out.contains("P\n") && out.contains("O\n") {
                        g_moved_called = true;
                    }
                    if !j.r.is_ok() {
                        g_no_this = true;
                    }
                }
            },
        )?;
        let ar = arity_cases();
        let n_ar = ar.len();
        ctx.judge(ar, |c, r, o| self.oracle(c, r, o))?;
        ctx.judge(freshness_cases(), |c, r, o| self.oracle(c, r, o))?;
        let bp: Vec<Case> = super::evalorder::BOUND_ROUTE_PROGRAMS.iter().enumerate().map(|(i, p)| Case::new(p.to_string(), 1, format!("bound functions through containers, program {}", i))).collect();
        ctx.judge(bp, |c, r, o| self.oracle(c, r, o))?;
        let tp: Vec<Case> = super::evalorder::THIS_PROGRAMS.iter().enumerate().map(|(i, p)| Case::new(p.to_string(), 1, format!("`this` per call and per creation site, program {}", i))).collect();
        ctx.judge(tp, |c, r, o| self.oracle(c, r, o))?;
        let sr: Vec<Case> = super::evalorder::SELF_READ_PROGRAMS.iter().enumerate().map(|(i, p)| Case::new(p.to_string(), 1, format!("the key of a call through an object reads that object, program {}", i))).collect();
        ctx.judge(sr, |c, r, o| self.oracle(c, r, o))?;
        // arguments are evaluated once, left to right (and before the callee), also with spreads
        let eo: Vec<Case> = super::evalorder::cases(2).into_iter().filter(|c| c.meta.contains("(@")).collect();
        ctx.judge(eo, |c, r, o| self.oracle(c, r, o))?;
        ctx.guard("one function was called with two different objects as `this`", g_moved_called);
        ctx.guard("a call without `this` was rejected", g_no_this);
        ctx.extra.insert(
            "bounds".into(),
            json!({"max_operations": depth, "completed_depth": stats.completed_depth, "operations": OPS.len(),
                   "levels(depth,generated,kept)": stats.levels, "dead_states": stats.dead, "merged_states": stats.merged,
                   "arity_cases": n_ar}),
        );
        Ok(())
    }

    fn oracle(&self, c: &Case, r: &RefOutcome, o: &Outcome) -> Verdict {
        if o.stdout != r.stdout {
            let clause = if c.tag == 2 { "argument-binding" } else if c.tag == 3 { "parameter-freshness" } else { "this" };
            return viol(
                clause,
                format!("{}: printed {:?}, reference {:?}", c.meta, o.out_str(), String::from_utf8_lossy(&r.stdout)),
            );
        }
        if r.is_ok() != (o.class == Class::Ok) {
            return viol(
                "termination",
                format!("{}: reference ends {}, run ended {:?} {}", c.meta, if r.is_ok() { "ok" } else { "with an error" }, o.class, o.msg),
            );
        }
        Verdict::Pass
    }
}
