//! C09 — newline equals `;`; whitespace, comments and line layout never change
//! meaning.  Deviation-bounded exploration: a corpus of programs (the
//! repository's test scripts + generated programs) x every single layout edit
//! at every token boundary (k = 1; thorough: all pairs of edits on the short
//! programs, k = 2).  Oracle: the real lexer's token sequence (kinds and
//! values) is unchanged by neutral edits and equals the `;` variant's for a
//! line break after a non-continuation token; same output; on failure the same
//! message at the correspondingly moved position.  Plus the continuation list
//! itself, token by token.
use super::{parse_pos, Check};
use crate::engine::*;
use crate::layout::{corpus, edits, off_to_pos, pos_to_off, Edit, EditKind};
use crate::refm::eval::RefOutcome;
use crate::refm::lex::{lex_raw, CONTINUATION};
use crate::subject::{Class, MachineryError, Mode, Outcome};
use serde_json::json;

pub struct C09;

const T_SLOT: u32 = 20;
const T_NOTERM: u32 = 21;

/// one line of the `tokens` dump -> (start position, token text) or the error text
pub fn parse_token_line(l: &str) -> Option<((u32, u32), String)> {
    let rest = l.strip_prefix("Ok(((")?;
    let close = rest.find("), ")?;
    let mut it = rest[..close].split(", ");
    let a: u32 = it.next()?.parse().ok()?;
    let b: u32 = it.next()?.parse().ok()?;
    let after = &rest[close + 3..];
    // strip the end position `, (L, C)))`
    let cut = after.rfind(", (")?;
    Some(((a, b), after[..cut].to_string()))
}

/// digit separators are layout: `1_000` and `1000` are the same text for comparisons
fn norm_digits(s: &str) -> String {
    let b: Vec<char> = s.chars().collect();
    let mut out = String::with_capacity(s.len());
    for (i, c) in b.iter().enumerate() {
        if *c == '_' && i > 0 && (b[i - 1].is_ascii_digit() || b[i - 1] == '_') && b[..i].iter().rev().take_while(|x| x.is_ascii_digit() || **x == '_').any(|x| x.is_ascii_digit()) {
            // part of a digit run only if the run started with a digit
            let start = b[..i].iter().rposition(|x| !(x.is_ascii_digit() || *x == '_')).map(|p| p + 1).unwrap_or(0);
            if b[start].is_ascii_digit() {
                continue;
            }
        }
        out.push(*c);
    }
    out
}

/// token texts without positions; a lexical error is one final entry `Err: <kind and char>`
pub fn token_texts(dump: &str) -> Vec<String> {
    let mut out = vec![];
    for l in dump.lines() {
        match parse_token_line(l) {
            Some((_, t)) => {
                // the slots of an interpolated literal carry their source positions, which move
                // with the layout like every other position (held to the translation law by C18)
                if t.starts_with("InterpStrLiteral(") {
                    if let Some(i) = t.rfind("\", [") {
                        out.push(format!("{}{}", &t[..i], super::c08::erase_positions(&t[i..])));
                        continue;
                    }
                }
                out.push(t)
            }
            None => {
                // Err(Kind((L, C), ...)) -> keep the kind and payload, drop the position
                let mut s = l.to_string();
                if let (Some(a), Some(b)) = (s.find("(("), s.find("), ").or(s.find("))"))) {
                    if a < b {
                        s.replace_range(a + 1..b + 1, "_");
                    }
                }
                out.push(norm_digits(&s));
            }
        }
    }
    out
}

/// a diagnostic raised inside a slot carries a second, slot-relative position after the first:
/// `L:C: l:c: message`; layout inside the slot legitimately moves it
fn erase_slot_relative(o: &Outcome) -> Outcome {
    let mut out = o.clone();
    let mut lines = vec![];
    for line in o.msg.lines() {
        let (prefix, l) = match line.find("case.sd:") {
            Some(i) => (&line[..i + 8], &line[i + 8..]),
            None => ("", line),
        };
        match parse_pos(l) {
            Some((p, rest)) => {
                let mut rest = rest.to_string();
                while let Some((_, r2)) = parse_pos(rest.trim_start()) {
                    rest = format!(" @: {}", r2);
                }
                lines.push(format!("{}{}:{}:{}", prefix, p.0, p.1, rest));
            }
            None => lines.push(line.to_string()),
        }
    }
    out.msg = lines.join("\n");
    out
}

/// A diagnostic raised inside a slot reads `L:C: l:c: message`: the slot's first character and the
/// offender's position relative to it.  After layout was inserted inside the slot (at byte `at`,
/// `added` bytes) the pair must still add up to where the offending token now is.
fn slot_positions_moved(base_src: &str, var_src: &str, edit: Option<(usize, usize, usize)>, b: &Outcome, v: &Outcome) -> Option<String> {
    let (at, _, added) = edit?;
    if b.class != Class::Err || v.class != Class::Err {
        return None;
    }
    let two = |msg: &str| -> Option<((u32, u32), (u32, u32))> {
        let first = msg.lines().next()?;
        let (outer, rest) = parse_pos(first)?;
        let (inner, _) = parse_pos(rest)?;
        Some((outer, inner))
    };
    let (bo, bi) = two(&b.msg)?;
    let (vo, vi) = two(&v.msg)?;
    let slot_start = pos_to_off(base_src, bo)?;
    if at < slot_start {
        return None;
    }
    let inner_off = pos_to_off(&base_src[slot_start..], bi)?;
    let abs = slot_start + inner_off;
    // only when the edit lies in the slot that holds the offender
    let slot_end = base_src[slot_start..].find('}').map(|i| slot_start + i)?;
    if at > slot_end {
        return None;
    }
    let abs2 = if at <= abs { abs + added } else { abs };
    let want_outer = off_to_pos(var_src, slot_start);
    let want_inner = off_to_pos(&var_src[slot_start..], abs2 - slot_start);
    if vo != want_outer || vi != want_inner {
        return Some(format!(
            "the offender inside the slot moved with the inserted layout: expected `{}:{}: {}:{}:`, got `{}:{}: {}:{}:` (original `{}:{}: {}:{}:`)",
            want_outer.0, want_outer.1, want_inner.0, want_inner.1, vo.0, vo.1, vi.0, vi.1, bo.0, bo.1, bi.0, bi.1
        ));
    }
    None
}

fn strip_positions(msg: &str) -> (Vec<(u32, u32)>, String) {
    // every `<L>:<C>:` group at the start of a line / after `sd:`
    let mut poss = vec![];
    let mut text = String::new();
    let msg = &norm_digits(msg);
    for line in msg.lines() {
        let mut l = line;
        let mut prefix = String::new();
        if let Some(i) = l.find("case.sd:") {
            prefix = l[..i + 8].to_string();
            l = &l[i + 8..];
        }
        let body: String = match parse_pos(l) {
            Some((p, rest)) => {
                poss.push(p);
                format!("{}@: {}", prefix, rest)
            }
            None => format!("{}{}", prefix, l),
        };
        // positions quoted inside the message: `[L:C]`
        let mut rest = body.as_str();
        while let Some(i) = rest.find('[') {
            text.push_str(&rest[..i + 1]);
            let after = &rest[i + 1..];
            let mut done = false;
            if let Some(j) = after.find(']') {
                let inner = &after[..j];
                let mut it = inner.split(':');
                if let (Some(a), Some(b), None) = (it.next(), it.next(), it.next()) {
                    if let (Ok(a), Ok(b)) = (a.parse::<u32>(), b.parse::<u32>()) {
                        poss.push((a, b));
                        text.push('@');
                        rest = &after[j..];
                        done = true;
                    }
                }
            }
            if !done {
                rest = after;
            }
        }
        text.push_str(rest);
        text.push('\n');
    }
    (poss, text)
}

struct Group {
    name: String,
    src: String,
    eds: Vec<Edit>,
}

fn build_cases(groups: &[Group]) -> Vec<Case> {
    let mut cases = vec![];
    for (gi, g) in groups.iter().enumerate() {
        for (mode, tag) in [(Mode::Tokens, 0u32), (Mode::Run, 1u32)] {
            let mut c = Case::new(g.src.clone(), tag, format!("{} -1 orig", gi));
            c.mode = mode;
            c.no_ref = mode == Mode::Tokens;
            c.nontrivial = false;
            cases.push(c);
        }
        for (ei, e) in g.eds.iter().enumerate() {
            for (mode, tag) in [(Mode::Tokens, 0u32), (Mode::Run, 1u32)] {
                let mut c = Case::new(e.text.clone(), tag, format!("{} {} var", gi, ei));
                c.mode = mode;
                // a line break that may end a statement: the reference front end says whether the
                // text is still a program, and what it does then
                c.no_ref = !(mode == Mode::Run && matches!(e.kind, EditKind::BreakVsSemicolon { .. }));
                cases.push(c);
                if let EditKind::BreakVsSemicolon { alt } = &e.kind {
                    let mut c = Case::new(alt.clone(), tag, format!("{} {} alt", gi, ei));
                    c.mode = mode;
                    c.no_ref = true;
                    c.nontrivial = false;
                    cases.push(c);
                }
            }
        }
    }
    cases
}

fn continuation_cases() -> Vec<Case> {
    // a line break directly after each token: continues the statement iff the token is in
    // the statement's list
    let progs: &[(&str, &str, &str)] = &[
        ("+", "print(7 +\n2)\n", "9\n"),
        ("-", "print(7 -\n2)\n", "5\n"),
        ("*", "print(7 *\n2)\n", "14\n"),
        ("/", "print(7 /\n2)\n", "3\n"),
        ("%", "print(7 %\n2)\n", "1\n"),
        ("==", "print(7 ==\n2)\n", "false\n"),
        ("!=", "print(7 !=\n2)\n", "true\n"),
        ("<", "print(7 <\n2)\n", "false\n"),
        ("<=", "print(7 <=\n2)\n", "false\n"),
        (">", "print(7 >\n2)\n", "true\n"),
        (">=", "print(7 >=\n2)\n", "true\n"),
        ("&&", "print(true &&\nfalse)\n", "false\n"),
        ("||", "print(true ||\nfalse)\n", "true\n"),
        ("=", "x := 1\nx =\n2\nprint(x)\n", "2\n"),
        (":=", "x :=\n2\nprint(x)\n", "2\n"),
        ("+=", "x := 7\nx +=\n2\nprint(x)\n", "9\n"),
        ("-=", "x := 7\nx -=\n2\nprint(x)\n", "5\n"),
        ("*=", "x := 7\nx *=\n2\nprint(x)\n", "14\n"),
        ("/=", "x := 7\nx /=\n2\nprint(x)\n", "3\n"),
        ("%=", "x := 7\nx %=\n2\nprint(x)\n", "1\n"),
        (",", "print([1,\n2][1])\n", "2\n"),
        (".", "o := {\"a\": 5}\nprint(o.\na)\n", "5\n"),
        ("(", "print(\n5)\n", "5\n"),
        ("[", "print([\n5][0])\n", "5\n"),
        ("{", "print({\n\"a\": 5}.a)\n", "5\n"),
    ];
    let mut v = vec![];
    for (tok, src, exp) in progs {
        v.push(Case::new(src.to_string(), 10, format!("continuation\u{1}{}\u{1}{}", tok, exp)));
        // with blank lines, comments and CR LF in the break
        v.push(Case::new(src.replacen('\n', " # c\n\n\r\n  ", 1), 10, format!("continuation\u{1}{}\u{1}{}", tok, exp)));
    }
    // tokens that do not continue: a line break after them ends the statement
    let non: &[(&str, &str)] = &[
        ("..", "x := 0 ..\n2\nprint(x)\n"),
        ("===", "a := []\nx := a ===\na\nprint(x)\n"),
        ("!==", "a := []\nx := a !==\na\nprint(x)\n"),
        ("->", "x := \"s\"->\nlen()\nprint(x)\n"),
        (":", "x := {\"a\":\n1}\nprint(x)\n"),
        ("identifier", "x := 1\ny := x\n+ 2\nprint(y)\n"),
        ("integer", "y := 1\n- 2\nprint(y)\n"),
        (")", "y := (1)\n* 2\nprint(y)\n"),
        ("]", "y := [1]\n[0]\nprint(y)\n"),
        ("}", "if true {\n}\nelse {\n}\n"),
        ("string", "y := \"a\"\n+ \"b\"\nprint(y)\n"),
        ("return", "fn f() {\nreturn\n1\n}\nprint(f())\n"),
        ("if", "if\ntrue {\n}\n"),
    ];
    for (tok, src) in non {
        v.push(Case::new(src.to_string(), 11, format!("non-continuation\u{1}{}", tok)));
    }
    v
}

impl C09 {
    fn run_groups(&self, ctx: &mut Ctx, groups: &[Group], k: usize) -> Result<(), MachineryError> {
        let cases = build_cases(groups);
        let judged = ctx.judge(cases, |c, r, o| self.oracle(c, r, o))?;
        // index outcomes
        use std::collections::HashMap;
        let mut idx: HashMap<(usize, i64, &str, u32), &Judged> = HashMap::new();
        for j in &judged {
            let p: Vec<&str> = j.case.meta.split(' ').collect();
            let gi: usize = p[0].parse().unwrap();
            let ei: i64 = p[1].parse().unwrap();
            idx.insert((gi, ei, if p[2] == "orig" { "orig" } else if p[2] == "alt" { "alt" } else { "var" }, j.case.tag), j);
        }
        for (gi, g) in groups.iter().enumerate() {
            let (ot, or) = match (idx.get(&(gi, -1, "orig", 0)), idx.get(&(gi, -1, "orig", 1))) {
                (Some(a), Some(b)) => (*a, *b),
                _ => continue,
            };
            let otoks = token_texts(&ot.o.out_str());
            for (ei, e) in g.eds.iter().enumerate() {
                let (vt, vr) = match (idx.get(&(gi, ei as i64, "var", 0)), idx.get(&(gi, ei as i64, "var", 1))) {
                    (Some(a), Some(b)) => (*a, *b),
                    _ => continue,
                };
                let vtoks = token_texts(&vt.o.out_str());
                let (base_toks, base_run, base_src, what): (Vec<String>, &Judged, &str, &str) = match &e.kind {
                    EditKind::Neutral => (otoks.clone(), or, g.src.as_str(), "the original"),
                    EditKind::BreakVsSemicolon { alt } => {
                        match (idx.get(&(gi, ei as i64, "alt", 0)), idx.get(&(gi, ei as i64, "alt", 1))) {
                            (Some(a), Some(b)) => (token_texts(&a.o.out_str()), *b, alt.as_str(), "the `;` variant"),
                            _ => continue,
                        }
                    }
                };
                if !vr.case.no_ref && !vr.r.budget_exceeded() && !vr.r.cyclic_touch {
                    use crate::refm::eval::RefResult;
                    let d = match &vr.r.result {
                        RefResult::Front(fe) => {
                            if vr.o.class != Class::Err || !vr.o.stdout.is_empty() {
                                Some(format!("the text is not a program (reference front end: {:?}), but the run ended {:?} printing {:?}", fe, vr.o.class, vr.o.out_str()))
                            } else {
                                None
                            }
                        }
                        _ => {
                            if vr.o.stdout != vr.r.stdout || (vr.o.class == Class::Ok) != vr.r.is_ok() {
                                Some(format!("the run printed {:?} and ended {:?} {}; the reference prints {:?} and {}", vr.o.out_str(), vr.o.class, vr.o.msg, String::from_utf8_lossy(&vr.r.stdout), if vr.r.is_ok() { "completes" } else { "reports an error" }))
                            } else {
                                None
                            }
                        }
                    };
                    if let Some(d) = d {
                        ctx.report(&vr.case, Some(&vr.r), &vr.o, "line-break-ends-statement", format!("{} [{}, k={}]: {}", g.name, e.desc, k, d));
                        continue;
                    }
                }
                let edit = if e.kind == EditKind::Neutral && k == 1 { Some((e.at, e.removed, e.added)) } else { None };
                if let Some((clause, detail)) = compare_pair(base_src, &e.text, edit, &base_toks, &base_run.o, &vtoks, &vr.o, what) {
                    let mut c = if clause == "tokens" { vt.case.clone() } else { vr.case.clone() };
                    c.companion = Some(base_src.to_string());
                    c.companion_edit = edit;
                    let o = if clause == "tokens" { &vt.o } else { &vr.o };
                    ctx.report(&c, None, o, clause, format!("{} [{}, k={}]: {}", g.name, e.desc, k, detail));
                }
            }
        }
        Ok(())
    }
}

/// the law between a program and its layout variant (or the `;` variant)
fn compare_pair(
    base_src: &str,
    var_src: &str,
    edit: Option<(usize, usize, usize)>,
    base_toks: &[String],
    base_run: &Outcome,
    vtoks: &[String],
    vrun: &Outcome,
    what: &str,
) -> Option<(&'static str, String)> {
    if vtoks != base_toks {
        let d = first_diff(vtoks, base_toks);
        return Some(("tokens", format!("token sequence differs from {} at token {}: {:?} vs {:?}", what, d.0, d.1, d.2)));
    }
    if vrun.class != base_run.class || vrun.stdout != base_run.stdout {
        return Some(("behaviour", format!("{:?} printing {:?}; {} gives {:?} printing {:?}", vrun.class, vrun.out_str(), what, base_run.class, base_run.out_str())));
    }
    if vrun.class == Class::Err {
        let (vp, vtxt) = strip_positions(&vrun.msg);
        let (bp, btxt) = strip_positions(&base_run.msg);
        if vtxt != btxt {
            return Some(("message", format!("message {:?} differs from {:?}", vrun.msg, base_run.msg)));
        }
        if let Some((at, removed, added)) = edit {
            if vp.len() == bp.len() {
                for (pv, pb) in vp.iter().zip(bp.iter()) {
                    if let Some(off) = pos_to_off(base_src, *pb) {
                        let noff = if off < at { Some(off) } else if off >= at + removed { Some(off - removed + added) } else { None };
                        if let Some(noff) = noff {
                            let want = off_to_pos(var_src, noff);
                            // a position inside an interpolation slot follows an open convention
                            if *pv != want && !base_run.msg.contains("interpolat") && !in_interp(base_src, off) {
                                return Some(("moved-position", format!("the diagnostic position {}:{} of the original must move to {}:{}, got {}:{} ({})", pb.0, pb.1, want.0, want.1, pv.0, pv.1, vrun.msg.lines().next().unwrap_or(""))));
                            }
                        }
                    }
                }
            }
        }
    }
    None
}

fn in_interp(src: &str, off: usize) -> bool {
    let (toks, _) = lex_raw(src);
    toks.iter().any(|t| matches!(t.tok, crate::refm::lex::Tok::Interp(_)) && t.start <= off && off < t.end)
}

fn first_diff(a: &[String], b: &[String]) -> (usize, String, String) {
    for i in 0..a.len().max(b.len()) {
        let x = a.get(i).cloned().unwrap_or("<none>".into());
        let y = b.get(i).cloned().unwrap_or("<none>".into());
        if x != y {
            return (i, x, y);
        }
    }
    (0, String::new(), String::new())
}

impl Check for C09 {
    fn id(&self) -> &'static str {
        "C09"
    }

    fn run(&self, ctx: &mut Ctx) -> Result<(), MachineryError> {
        let corp = corpus();
        ctx.rule = format!(
            "deviation-bounded: corpus of {} programs (the repository's test scripts and generated programs) x every single layout edit at every token boundary (space / tab / CR after a token; comment before an existing newline; comment line or blank lines where a newline is neutral; newline <-> `;`; doubled terminators; line break and CR LF + indentation after each continuation token; line break after every other token compared with `;` there; `_` after every digit of every integer literal; every ASCII character of every plain string literal as \\xhh and \\xHH; leading layout), k = 1{}; plus every terminator of the corpus replaced by a space (rejected wherever the grammar then has no program); plus spaces, tabs, a leading line break, terminator or comment inside every interpolation slot of the corpus; plus a line break after each of the 25 continuation tokens and 13 non-continuation tokens; non-trivial = every edited variant",
            corp.len(),
            if ctx.tier == Tier::Thorough { "; k = 2: all ordered pairs of edits on programs of at most 16 tokens" } else { "" }
        );
        ctx.rule.push_str("; every separator between two tokens removed where the reference lexer keeps them apart; the variants of a line break after a token that does not continue the statement are also held to the reference front end and interpreter");
        let mut n_edits = 0u64;
        let mut seen_cont: std::collections::HashSet<String> = std::collections::HashSet::new();
        let mut groups: Vec<Group> = vec![];
        let mut total = 0usize;
        for (name, src) in &corp {
            let eds = edits(src);
            for e in &eds {
                if e.desc.starts_with("line break after continuation token") {
                    if let Some(i) = e.desc.find("Sym(\"") {
                        seen_cont.insert(e.desc[i + 5..].trim_end_matches("\"))").to_string());
                    }
                }
            }
            n_edits += eds.len() as u64;
            total += eds.len();
            groups.push(Group { name: name.clone(), src: src.clone(), eds });
            if total > 15_000 {
                self.run_groups(ctx, &groups, 1)?;
                groups.clear();
                total = 0;
                if ctx.over_cap() {
                    break;
                }
            }
        }
        self.run_groups(ctx, &groups, 1)?;
        groups.clear();
        // k = 2 on short programs
        let mut n_pairs = 0u64;
        if ctx.tier == Tier::Thorough {
            for (name, src) in &corp {
                let (toks, err) = lex_raw(src);
                if err.is_some() || toks.len() > 16 {
                    continue;
                }
                for e1 in edits(src) {
                    if e1.kind != EditKind::Neutral {
                        continue;
                    }
                    let eds2 = edits(&e1.text);
                    n_pairs += eds2.len() as u64;
                    groups.push(Group { name: format!("{} after [{}]", name, e1.desc), src: e1.text.clone(), eds: eds2 });
                    if groups.iter().map(|g| g.eds.len()).sum::<usize>() > 15_000 {
                        self.run_groups(ctx, &groups, 2)?;
                        groups.clear();
                    }
                }
                if ctx.over_cap() {
                    break;
                }
            }
            self.run_groups(ctx, &groups, 2)?;
        }
        ctx.judge(continuation_cases(), |c, r, o| self.oracle(c, r, o))?;
        // the plain CLI reads the file itself: variants with carriage returns, tabs and
        // comments must behave there exactly as in the batch hook (same lexer, parser and
        // evaluator; only the reading of the file differs)
        let mut texts: Vec<(String, String)> = vec![];
        for (name, src) in corp.iter() {
            if src.len() > 400 {
                continue;
            }
            let eds = edits(src);
            let mut picked = 0;
            for e in eds {
                if e.desc.contains("carriage return") || e.desc.contains("CR") || e.desc.contains("tab") || e.desc.contains("comment") {
                    picked += 1;
                    if picked % ctx.tier.pick(7usize, 2usize) == 0 {
                        texts.push((format!("{} [{}] through the CLI", name, e.desc), e.text));
                    }
                }
            }
        }
        let n_cli = texts.len();
        let batch_cases: Vec<Case> = texts.iter().map(|(d, t)| { let mut c = Case::new(t.clone(), 20, d.clone()); c.no_ref = true; c }).collect();
        let judged = ctx.judge(batch_cases, |_c, _r, _o| Verdict::Pass)?;
        let expect: std::collections::HashMap<String, Outcome> = judged.into_iter().map(|j| (j.case.src.clone(), j.o)).collect();
        let cli_cases: Vec<Case> = texts.iter().map(|(d, t)| { let mut c = Case::new(t.clone(), 21, d.clone()); c.no_ref = true; c.cli_path = Some("case.sd".to_string()); c }).collect();
        ctx.judge_cli(cli_cases, |c, _r, o| match expect.get(&c.src) {
            Some(b) => match compare_batch_cli(b, o) {
                Some(diff) => viol("cli-reads-the-file-differently", format!("{}: {}", c.meta, diff)),
                None => Verdict::Pass,
            },
            None => Verdict::Pass,
        })?;
        // a statement ends only at a newline or `;`: replacing a terminator by a space where the
        // reference grammar then has no program must be rejected by the real front end as well
        {
            use crate::refm::lex::{lex_raw, Tok};
            use crate::refm::parse::parse_prog;
            let mut cases = vec![];
            for (name, src) in &corp {
                if src.len() > 600 || parse_prog(src).is_err() {
                    continue;
                }
                let (toks, _) = lex_raw(src);
                for t in toks.iter().filter(|t| t.tok == Tok::End && t.end > t.start) {
                    let variant = format!("{} {}", &src[..t.start], &src[t.end..]);
                    if parse_prog(&variant).is_ok() {
                        continue;
                    }
                    let mut c = Case::new(variant, T_NOTERM, format!("{}: terminator at byte {} replaced by a space", name, t.start));
                    c.mode = Mode::Ast;
                    c.no_ref = true;
                    cases.push(c);
                }
            }
            ctx.extra.insert("terminator_removals".into(), json!(cases.len()));
            ctx.judge(cases, |c, r, o| self.oracle(c, r, o))?;
        }
        // layout inside interpolation slots: same output, same failure, same message
        {
            let mut cases = vec![];
            let mut pairs: Vec<(usize, usize, String, String)> = vec![];
            for (name, src) in &corp {
                let eds = crate::layout::slot_edits(src);
                if eds.is_empty() {
                    continue;
                }
                let bi = cases.len();
                let mut c = Case::new(src.clone(), T_SLOT, format!("{} (original)", name));
                c.no_ref = true;
                cases.push(c);
                for (text, desc, at, added) in eds {
                    let mut c = Case::new(text, T_SLOT, format!("{}: {}", name, desc));
                    c.no_ref = true;
                    c.companion_edit = Some((at, 0, added));
                    pairs.push((bi, cases.len(), name.clone(), desc));
                    cases.push(c);
                }
            }
            let n_slot = pairs.len();
            let srcs: Vec<String> = cases.iter().map(|c| c.src.clone()).collect();
            let judged = ctx.judge(cases, |_c, _r, _o| Verdict::Pass)?;
            let by_src: std::collections::HashMap<&str, &Judged> = judged.iter().map(|j| (j.case.src.as_str(), j)).collect();
            for (bi, vi, name, desc) in pairs {
                let (b, v) = match (by_src.get(srcs[bi].as_str()), by_src.get(srcs[vi].as_str())) {
                    (Some(b), Some(v)) => (*b, *v),
                    _ => continue, // not judged (the run was cut short after repeated hangs)
                };
                if let Some(detail) = slot_positions_moved(&b.case.src, &v.case.src, v.case.companion_edit, &b.o, &v.o) {
                    let mut c = v.case.clone();
                    c.companion = Some(b.case.src.clone());
                    ctx.report(&c, None, &v.o, "moved-position", format!("{} [{}]: {}", name, desc, detail));
                    continue;
                }
                if let Some((clause, detail)) = compare_pair(&b.case.src, &v.case.src, None, &[], &erase_slot_relative(&b.o), &[], &erase_slot_relative(&v.o), "the original") {
                    let mut c = v.case.clone();
                    c.companion = Some(b.case.src.clone());
                    ctx.report(&c, None, &v.o, clause, format!("{} [{}]: {}", name, desc, detail));
                }
            }
            ctx.extra.insert("slot_layout_variants".into(), json!(n_slot));
        }
        ctx.extra.insert("cli_layout_variants".into(), json!(n_cli));
        ctx.guard("a line break was placed after every continuation token of the statement", CONTINUATION.iter().all(|c| seen_cont.contains(*c)));
        ctx.extra.insert(
            "bounds".into(),
            json!({"corpus_programs": corp.len(), "single_edits": n_edits, "edit_pairs": n_pairs, "k_completed": if ctx.tier == Tier::Thorough && !ctx.capped { 2 } else { 1 },
                   "continuation_tokens_broken_after": seen_cont.len()}),
        );
        Ok(())
    }

    fn replay_group(&self, c: &Case, pool: &crate::subject::Pool) -> Result<Option<Verdict>, MachineryError> {
        let base = match &c.companion {
            Some(b) => b.clone(),
            None => return Ok(None),
        };
        if c.tag == T_SLOT {
            let reqs = [crate::subject::Req { mode: Mode::Run, label: "case.sd", src: &base }, crate::subject::Req { mode: Mode::Run, label: "case.sd", src: &c.src }];
            let o = pool.run(&reqs)?;
            println!("companion: {:?} -> {:?} {:?} {:?}", base, o[0].class, o[0].out_str(), o[0].msg);
            println!("variant:   {:?} -> {:?} {:?} {:?}", c.src, o[1].class, o[1].out_str(), o[1].msg);
            if let Some(d) = slot_positions_moved(&base, &c.src, c.companion_edit, &o[0], &o[1]) {
                return Ok(Some(viol("moved-position", d)));
            }
            return Ok(Some(match compare_pair(&base, &c.src, None, &[], &erase_slot_relative(&o[0]), &[], &erase_slot_relative(&o[1]), "the companion program") {
                Some((clause, detail)) => viol(clause, detail),
                None => Verdict::Pass,
            }));
        }
        let reqs = [
            crate::subject::Req { mode: Mode::Tokens, label: "case.sd", src: &base },
            crate::subject::Req { mode: Mode::Run, label: "case.sd", src: &base },
            crate::subject::Req { mode: Mode::Tokens, label: "case.sd", src: &c.src },
            crate::subject::Req { mode: Mode::Run, label: "case.sd", src: &c.src },
        ];
        let o = pool.run(&reqs)?;
        println!("companion: {:?} -> {:?} {:?} {:?}", base, o[1].class, o[1].out_str(), o[1].msg);
        println!("variant:   {:?} -> {:?} {:?} {:?}", c.src, o[3].class, o[3].out_str(), o[3].msg);
        let bt = token_texts(&o[0].out_str());
        let vt = token_texts(&o[2].out_str());
        Ok(Some(match compare_pair(&base, &c.src, c.companion_edit, &bt, &o[1], &vt, &o[3], "the companion program") {
            Some((clause, detail)) => viol(clause, detail),
            None => Verdict::Pass,
        }))
    }

    fn oracle(&self, c: &Case, r: &RefOutcome, o: &Outcome) -> Verdict {
        match c.tag {
            T_NOTERM => {
                if o.out_str().starts_with("Ok(") {
                    return viol("terminator-required", format!("{}: two statements (or a statement and `}}`) with neither a newline nor `;` between them were accepted: {:?}", c.meta, c.src));
                }
                Verdict::Pass
            }
            10 => {
                let p: Vec<&str> = c.meta.split('\u{1}').collect();
                if o.class != Class::Ok || o.out_str() != p[2] {
                    return viol("continuation-list", format!("a line break directly after `{}` must continue the statement: {:?} ended {:?} printing {:?} ({})", p[1], c.src, o.class, o.out_str(), o.msg));
                }
                Verdict::Pass
            }
            11 => {
                let p: Vec<&str> = c.meta.split('\u{1}').collect();
                if o.stdout != r.stdout || r.is_ok() != (o.class == Class::Ok) {
                    return viol("continuation-list", format!("a line break directly after {} ends the statement: {:?} ended {:?} printing {:?}; reference {:?}", p[1], c.src, o.class, o.out_str(), String::from_utf8_lossy(&r.stdout)));
                }
                Verdict::Pass
            }
            _ => Verdict::Pass,
        }
    }
}
