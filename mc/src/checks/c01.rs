//! C01 — whole-program behaviour equals the documented semantics; constructs
//! compose.  (1) All nestings (chains of depth <= 2, thorough 3) of construct
//! contexts (blocks, branches, loops over every iterable kind, named /
//! anonymous / recursive / callback / method / returned-closure functions,
//! destructuring parameters, functions created in loops) around one or two
//! payload fragments, each exercising one documented feature and printing
//! what it observed, with and without a same-named variable declared outside.
//! (2) Breadth-first over all statement sequences up to a length bound.
//! Oracle: the reference interpreter (stdout byte-identical; same termination
//! class).
use super::Check;
use crate::engine::*;
use crate::explore::{bfs, Alphabet, CURSOR_MARK};
use crate::refm::eval::RefOutcome;
use crate::subject::{Class, MachineryError, Outcome};
use serde_json::json;

pub struct C01;

pub const CONTEXTS: &[(&str, &str)] = &[
    ("top level", "@"),
    ("bare block", "{\n@}\n"),
    ("if true", "if true {\n@}\n"),
    ("else of if false", "if false {\nprint(\"no\")\n} else {\n@}\n"),
    ("second arm of else-if", "if false {\n} else if true {\n@}\n"),
    ("third arm of else-if", "if false {\n} else if false {\n} else if true {\n@} else {\nprint(\"no\")\n}\n"),
    ("while once", "wi := 0\nwhile wi < 1 {\nwi += 1\n@}\n"),
    ("while three times", "wj := 0\nwhile wj < 3 {\nwj += 1\n@}\n"),
    ("for over list", "for fe in [1, 2] {\n@}\n"),
    ("for over string", "for fs in \"ab\" {\n@}\n"),
    ("for over object", "for [fk, fv] in {\"q\": 2, \"p\": 1} {\nprint(fk)\n@}\n"),
    ("for over range", "for fr in 0 .. 2 {\n@}\n"),
    ("function called once", "fn cf() {\n@}\ncf()\n"),
    ("function called twice", "fn cg() {\n@}\ncg()\ncg()\n"),
    ("recursive function", "fn cr(n) {\nif n > 0 {\ncr(n - 1)\n}\n@}\ncr(1)\n"),
    ("anonymous function called immediately", "fn () {\n@}()\n"),
    ("callback", "fn cb(g) {\ng()\n}\ncb(fn () {\n@})\n"),
    ("method reached by .", "mo := {\"id\": \"M\", \"m\": fn () {\n@}}\nmo.m()\n"),
    ("method reached by []", "mp := {\"id\": \"N\", \"m\": fn () {\n@}}\nmp[\"m\"]()\n"),
    ("closure returned and called after its scope ended", "fn mk() {\nreturn fn () {\n@}\n}\nmk()()\n"),
    ("function with destructuring parameter", "fn dp([da, {\"k\": db}]) {\nprint(da + db)\n@}\ndp([1, {\"k\": 2}])\n"),
    ("loop inside function", "fn lf() {\nfor le in [1, 2] {\n@}\n}\nlf()\n"),
    ("function created in a loop, called after it", "hv := null\nfor he in [1, 2] {\nhv = fn () {\nprint(he)\n@}\n}\nhv()\n"),
    ("closures collected in a for loop, called after it", "hs := []\nfor hf in [1, 2] {\nhl := hf[1] * 10\nhs += [fn () {\nprint(hf)\nprint(hl)\n@}]\n}\nhs[0]()\nhs[1]()\n"),
    ("closures collected in a while loop, called after it", "ws := []\nwk := 0\nwhile wk < 2 {\nwk += 1\nwl := wk * 10\nws += [fn () {\nprint(wl)\nwl += 1\n@}]\n}\nws[0]()\nws[1]()\nws[0]()\n"),
    ("function returning through nested blocks", "fn nb() {\n{\nif true {\n@}\n}\nreturn \"end\"\n}\nprint(nb())\n"),
];

/// payload fragments over the names pv, pw, pf, pg, pe, pi
pub const PAYLOADS: &[&str] = &[
    "pn := 0\nfn pnext() {\npn += 1\nreturn $\"${\"abcdef\"[pn]}\"\n}\nprint($\"${pnext()}-${pnext()}\")\nprint($\"${pnext()}${pnext()}${pnext()}\")\nprint(pn)\n",
    "pa := {\"id\": \"A\", \"f\": fn () {\nreturn this.id\n}}\npb := {\"id\": \"B\", \"f\": pa.f}\nprint([pb.f(), pb[\"f\"](), pa[\"f\"]()])\npk := \"f\"\nprint(pb[pk]())\n",
    "pv := [10, 4]\npo := {\"k\": 9, \"s\": \"a\"}\npv[0] -= 3\npo.k /= 2\npo[\"k\"] %= 3\npo.s += \"b\"\npv[1] -= pv[0]\nprint([pv, po])\n",
    "pv := [3, 4]\npo := {\"a\": 5}\nfn pf() {\nreturn 6\n}\nprint(pv[1] - 1)\nprint(po.a - 1)\nprint(pf() - 1)\nprint((2) - 1)\nprint(\"ab\"->len() - 1)\nprint(pv[0] - 2 - pv[1])\nprint([pv[1] - 1, po[\"a\"] - 2])\n",
    "pv := [3, 4]\nprint(pv[0] + 1 == 4)\nprint(pv[1] * 2 != -8)\nprint(pv[0] < -1 || pv[1] >= 10)\nprint(-pv[0] == -3)\nprint(pv[0] % 2 == 1 && !false)\n",
    "print(1 + 2 * 3)\n",
    "print(\"a\" + \"b\")\n",
    "print([1] + [2])\n",
    "print(true && false || true)\n",
    "print(7 / 2)\nprint(-7 % 3)\n",
    "print([1, \"a\", null, true, [2]])\n",
    "print({\"b\": 1, \"a\": [2, {\"c\": null}]})\n",
    "print([1] == [1])\nprint({\"a\": 1} != {\"a\": 2})\n",
    "print(0 .. 3)\n",
    "pv := 1\npv = pv + 1\nprint(pv)\n",
    "pv := 1\npv += 2\npv *= 3\nprint(pv)\n",
    "pv := [1, 2]\npv[0] = 5\nprint(pv)\n",
    "pv := [1, 2]\npv[1] += 5\nprint(pv)\n",
    "pv := {\"a\": 1}\npv.a = 2\npv.b = 3\nprint(pv)\n",
    "pv := {\"a\": 1}\npv.a += 2\npv[\"a\"] *= 3\nprint(pv[\"a\"])\n",
    "[pv, pw] := [1, 2]\nprint(pv + pw)\n",
    "[pv, ..pw] := [1, 2, 3]\nprint(pw)\n",
    "{pv, \"b\": pw} := {\"pv\": 1, \"b\": 2}\nprint([pv, pw])\n",
    "{pv, ..pw} := {\"pv\": 1, \"z\": 2}\nprint(pw)\n",
    "[_, pv] := [1, 2]\nprint(pv)\n",
    "pv := [1, 2]\nprint([0, pv.., 3])\n",
    "fn pf(a, b) {\nreturn a + b\n}\nprint(pf([1, 2]..))\n",
    "pv := {\"a\": 1}\nprint({pv.., \"b\": 2})\n",
    "pv := [1, 2, 3]\nprint(pv[1])\nprint(pv[1:])\n",
    "pv := \"hello\"\nprint(pv[1])\nprint(pv[1:3])\n",
    "pv := [1, 2, 3]\npv[0:2] = [8, 9]\nprint(pv)\n",
    "pv := \"x\"\nprint($\"a${pv}b${pv + pv}\")\n",
    "print(\"abc\"->len())\nprint([1]->type())\n",
    "break\nprint(\"after\")\n",
    "continue\nprint(\"after\")\n",
    "return 5\nprint(\"after\")\n",
    "if true {\nbreak\n}\nprint(\"after\")\n",
    "{\nreturn [1]\n}\nprint(\"after\")\n",
    "pv := 1\npg := fn () {\npv += 1\nreturn pv\n}\nprint(pg())\nprint(pg())\nprint(pv)\n",
    "print(this.id)\n",
    "fn pf(a) {\nreturn a * 2\n}\nprint(pf(4))\nprint(pf->type())\n",
    "print(undefined_v)\n",
    "print(1 + \"a\")\n",
    "print([1][5])\n",
    "print({\"a\": 1}.b)\n",
    "pv := 1\npv := 2\n",
    "print(1 / 0)\n",
    "[pv] := [1, 2]\n",
    "pv := null\npv()\n",
    "for pe in [1, 2] {\nprint(pe)\n}\n",
    "pi := 0\nwhile pi < 2 {\npi += 1\nprint(pi)\n}\n",
    "for pe in [1, 2, 3] {\nif pe[1] == 2 {\ncontinue\n}\nprint(pe[1])\n}\n",
    "pi := 0\nwhile true {\npi += 1\nif pi > 2 {\nbreak\n}\n}\nprint(pi)\n",
    "pv := [1]\npw := pv\npw[0] = 2\nprint(pv)\nprint(pv === pw)\n",
    "pv := 1\n{\npv := 2\nprint(pv)\n}\nprint(pv)\n",
    "pv := 1\n{\npv = 2\n}\nprint(pv)\n",
    "pv := [3, 1, 2]\npw := 0\nfor [pi, pe] in pv {\npw += pe * pi\n}\nprint(pw)\n",
    "fn pf(..r) {\nreturn r\n}\nprint(pf())\nprint(pf(1, [2]..))\n",
    "pv := {\"n\": 0, \"inc\": fn () {\nthis.n += 1\nreturn this.n\n}}\nprint(pv.inc())\nprint(pv.inc())\n",
    "pv := fn (a) {\nreturn fn (b) {\nreturn a + b\n}\n}\nprint(pv(1)(2))\n",
    "print(print(1))\n",
    "pv := [[1, 2], [3]]\npv[0][1] = 9\nprint(pv)\nprint(pv[1] + pv[0])\n",
    "pv := \"a\\nb\"\nprint([pv, {\"k\": pv}])\n",
    "pv := 9223372036854775807\nprint(pv)\nprint(pv + 1)\n",
    "pv := [1, 2]\npv += [3]\npw := pv + []\npw[0] = 0\nprint(pv)\nprint(pw)\n",
    "pv := [1]\npw := pv\npv += [2]\nprint(pw)\nprint(pv === pw)\n",
    "pv := 1\npw := 2\n[pv, pw] = [pw, pv]\nprint([pv, pw])\n[pv, pw] = [pw, pv + pw]\nprint([pv, pw])\n",
    "pv := [1, 2, 3]\n[pv[0], pv[2]] = [pv[2], pv[0]]\nprint(pv)\n",
    "pv := {\"id\": \"A\", \"f\": fn () {\nreturn this.id\n}}\npw := {\"id\": \"B\", \"f\": pv.f}\npg := pv.f\nprint(pg())\npg = pw.f\nprint(pg())\npg = pv.f\nprint(pg())\n",
    "pv := [fn () {\nreturn 1\n}, fn () {\nreturn 2\n}]\npg := pv[0]\nprint(pg())\npg = pv[1]\nprint(pg())\npv[0] = pv[1]\nprint(pv[0]())\n",
    "pv := 1\nif true {\nprint({pv})\nfor pe in [0] {\nprint({pv, pe})\n}\n}\n",
    "pv := [0]\nprint([pv, pv])\nprint({\"a\": pv, \"b\": [pv]})\n",
    "pv := {\"k\": 1}\npw := {\"x\": pv, \"y\": pv}\nprint(pw)\nprint(pw.x === pw.y)\n",
    "pv := \"s\"\npw := pv\npv += \"t\"\nprint(pw)\nprint(pv)\n",
    "pv := {\"l\": [1]}\npw := pv.l\npv.l += [2]\nprint(pw)\nprint(pv)\n",
    "fn pf(a) {\na += [9]\nreturn a\n}\npv := [1]\nprint(pf(pv))\nprint(pv)\n",
    "pv := \"x\"\nprint($\"\\\"${pv}\\\": \\n${pv + pv}\\x21 é${pv}\")\n",
    "for [pi, pe] in 3 .. 5 {\nprint([pi, pe])\n}\nfor pe in -2 .. 0 {\nprint(pe)\n}\n",
    "print(false && print(1) == null)\nprint(true || print(2) == null)\n",
    "pv := [1, 2]\npw := pv[:]\npw[0] = 9\nprint(pv)\nprint(pv === pw)\npg := pv[0:2]\npg[1] = 8\nprint(pv)\npe := pv + []\npe[0] = 7\nprint(pv)\n",
    "pv := {\"a\": [1]}\npw := {pv..}\npw.b = 2\npw.a[0] = 5\nprint(pv)\nprint(pw)\n",
    "pv := \"s\"\npi := 0\nwhile $\"${pv}\" == \"s\" && pi < 3 {\npi += 1\nif pi == 2 {\npv = \"t\"\n}\n}\nprint(pi)\n",
    "pv := -9223372036854775807 - 1\nprint(pv)\nprint(pv % -1)\nprint(pv + 0)\nprint(pv / -1)\nprint(\"after\")\n",
    "pv := -9223372036854775807 - 1\npv /= -1\nprint(pv)\n",
    "pv := \"crème brûlée\"\nprint(pv->len())\nprint(pv[:pv->len()] == pv)\nprint((pv + \"!\")[pv->len()])\npi := 0\nfor pe in pv {\npi += 1\n}\nprint(pi == pv->len())\n",
    "pi := 0\nwhile pi < 3 {\npi += 1\nif pi == 3 {\ncontinue\n}\nprint(pi)\n}\nprint(pi)\npv := [1, 2, 3]\nwhile pv != [] {\npe := pv[0]\npv = pv[1:]\nif pe == 3 {\ncontinue\n}\nprint(pe)\n}\n",
    "pv := \"id\"\npw := {$\"${pv}_a\": 1, \"b\": 2}\nprint(pw)\npw[$\"${pv}_c\"] = 3\nprint(pw[$\"${pv}_a\"] + pw.id_c)\n{$\"${pv}_a\": pg} := pw\nprint(pg)\n",
    "pv := [1, 2, 3, 4, 5]\npv[2:] = [7, 8, 9]\nprint(pv)\npv[:2] = [0, 0]\nprint(pv)\npv[:] = [5, 4, 3, 2, 1]\nprint(pv)\npv[3:] = [9]\nprint(pv)\n",
    "fn pf() {\npi := 0\nwhile true {\npi += 1\nif pi < 3 {\ncontinue\n} else {\nbreak\n}\n}\nreturn pi\n}\nprint(pf())\n",
];

fn rename(p: &str) -> String {
    // rename the payload's own identifiers (whole identifiers only)
    let mut out = String::new();
    let mut word = String::new();
    let flush = |w: &mut String, out: &mut String| {
        match w.as_str() {
            "pv" | "pw" | "pf" | "pg" | "pe" | "pi" => {
                out.push('q');
                out.push_str(&w[1..]);
            }
            _ => out.push_str(w),
        }
        w.clear();
    };
    for c in p.chars() {
        if c.is_ascii_alphanumeric() || c == '_' {
            word.push(c);
        } else {
            flush(&mut word, &mut out);
            out.push(c);
        }
    }
    flush(&mut word, &mut out);
    out
}

fn fill(chain: &[usize], inner: &str) -> String {
    let mut body = inner.to_string();
    for ci in chain.iter().rev() {
        body = CONTEXTS[*ci].1.replace('@', &body);
    }
    body
}

const STMTS: &[&str] = &[
    "a := 1",
    "b := [1, 2]",
    "a = a + 1",
    "a += 2",
    "a *= 3",
    "b += [a]",
    "b[0] = a",
    "a = b[0]",
    "b = b[1:]",
    "print(a)",
    "print(b)",
    "c := {\"k\": a}",
    "c.k += 1",
    "print(c)",
    "a = c.k",
    "if a > 2 {\na = 0\n} else {\na = 5\n}",
    "while a < 3 {\na += 1\n}",
    "for e in b {\na += e[1]\n}",
    "fn f(x) {\nreturn x + a\n}",
    "a = f(1)",
    "b = [f(a), a]",
    "[a, ..b] = b",
    "{\na := 5\nprint(a)\n}",
    "b[1] = b",
    "c.self = c.k",
    "a = b->type() == \"list\"",
    "b = 0 .. a",
    "a = $\"${b->type()}\"",
    "c = {c.., \"a\": a}",
    "a = a - 1",
    "d := b",
    "print(d)",
    "d := c",
];

#[derive(Clone)]
pub struct St {
    ops: Vec<u16>,
    text: String,
}

struct Seq;

impl Alphabet for Seq {
    type St = St;
    fn init(&self) -> St {
        St { ops: vec![], text: String::new() }
    }
    fn enabled(&self, st: &St) -> Vec<u16> {
        let last = st.ops.last().copied();
        (0..STMTS.len() as u16).filter(|o| !(STMTS[*o as usize].starts_with("print") && last == Some(*o))).collect()
    }
    fn apply(&self, st: &St, op: u16) -> St {
        let mut s = st.clone();
        s.ops.push(op);
        s.text.push_str(STMTS[op as usize]);
        s.text.push('\n');
        s
    }
    fn program(&self, st: &St) -> String {
        format!("{}print(\"{}\")\nprint(\"end\")\n", st.text, CURSOR_MARK)
    }
    fn describe(&self, st: &St) -> String {
        st.ops.iter().map(|o| STMTS[*o as usize].replace('\n', " ")).collect::<Vec<_>>().join(" ; ")
    }
}

impl Check for C01 {
    fn id(&self) -> &'static str {
        "C01"
    }

    fn run(&self, ctx: &mut Ctx) -> Result<(), MachineryError> {
        let thorough = ctx.tier == Tier::Thorough;
        let seq_len = ctx.tier.pick(3usize, 5usize);
        let nc = CONTEXTS.len();
        let np = PAYLOADS.len();
        ctx.rule = format!(
            "(1) every chain of depth 0..2{} over {} construct contexts around every one of {} payload fragments, with and without a same-named variable declared before the outermost construct and read after it; every depth-0/1 chain around every ordered pair of payloads (second payload renamed) placed both inside, or one inside and one after{}; (4) each of the repository's test scripts placed inside each of the construct contexts; (3) {} evaluation-order programs: every construct with several operand positions (operators, literals, spreads, calls with the callee as a position, indexing, every assignment form, slots, patterns, conditions of if / else-if / while), each position printing its number and then succeeding or failing, all 2^k assignments; (2) breadth-first over all statement sequences of length <= {} from {} statements on a, b, c with dead-state pruning; oracle: reference interpreter (stdout, termination class); non-trivial = all",
            if thorough { " (thorough: depth 3 as well)" } else { "" },
            nc,
            np,
            if thorough { ", every depth-2 chain around every ordered pair" } else { "" },
            super::evalorder::cases(4).len(),
            seq_len,
            STMTS.len()
        );
        ctx.rule.push_str("; plus every payload and repository script written without the separators its tokens do not need, evaluation-order constructs in which an operator meets an ill-typed pair before later operands or an access reads its own container, and programs whose index, key or bound reads or writes the container it is applied to");
        let mut cases: Vec<Case> = vec![];
        let mut n_programs = 0u64;
        let flush = |ctx: &mut Ctx, cases: &mut Vec<Case>, this: &C01| -> Result<(), MachineryError> {
            if !cases.is_empty() {
                ctx.judge(std::mem::take(cases), |c, r, o| this.oracle(c, r, o))?;
            }
            Ok(())
        };
        // chains of depth 0..2 around single payloads
        let mut chains: Vec<Vec<usize>> = vec![vec![]];
        for a in 0..nc {
            chains.push(vec![a]);
        }
        for a in 1..nc {
            for b in 1..nc {
                chains.push(vec![a, b]);
            }
        }
        for ch in &chains {
            for (pi, p) in PAYLOADS.iter().enumerate() {
                let body = fill(ch, p);
                cases.push(Case::new(format!("{}print(\"end\")\n", body), 1, format!("chain {:?} payload {}", ch, pi)));
                cases.push(Case::new(format!("pv := \"outer\"\n{}print(pv)\nprint(\"end\")\n", body), 1, format!("chain {:?} payload {} with outer pv", ch, pi)));
                n_programs += 2;
            }
            if cases.len() >= 60_000 {
                flush(ctx, &mut cases, self)?;
            }
        }
        // payload pairs at depth 0 and 1
        for ch in chains.iter().filter(|c| c.len() <= 1) {
            for (i, p1) in PAYLOADS.iter().enumerate() {
                for (j, p2) in PAYLOADS.iter().enumerate() {
                    let p2r = rename(p2);
                    cases.push(Case::new(format!("{}print(\"end\")\n", fill(ch, &format!("{}{}", p1, p2r))), 2, format!("chain {:?} payloads {} then {} inside", ch, i, j)));
                    if !ch.is_empty() {
                        cases.push(Case::new(format!("{}{}print(\"end\")\n", fill(ch, p1), p2r), 2, format!("chain {:?} payload {} inside, {} after", ch, i, j)));
                    }
                    n_programs += 2;
                }
                if cases.len() >= 60_000 {
                    flush(ctx, &mut cases, self)?;
                }
            }
            if ctx.over_cap() {
                break;
            }
        }
        if thorough {
            // depth 3 over all contexts, single payloads
            'd3: for a in 1..nc {
                for b in 1..nc {
                    for c in 1..nc {
                        for (pi, p) in PAYLOADS.iter().enumerate() {
                            cases.push(Case::new(format!("{}print(\"end\")\n", fill(&[a, b, c], p)), 3, format!("chain {:?} payload {}", [a, b, c], pi)));
                            n_programs += 1;
                        }
                    }
                    if cases.len() >= 60_000 {
                        flush(ctx, &mut cases, self)?;
                        if ctx.over_cap() {
                            break 'd3;
                        }
                    }
                }
            }
            // depth-2 chains around every ordered pair of payloads
            for ch in chains.iter().filter(|c| c.len() == 2) {
                for i in 0..np {
                    for j in 0..np {
                        cases.push(Case::new(format!("{}print(\"end\")\n", fill(ch, &format!("{}{}", PAYLOADS[i], rename(PAYLOADS[j])))), 2, format!("chain {:?} payloads {} then {} inside", ch, i, j)));
                        n_programs += 1;
                    }
                }
                if cases.len() >= 60_000 {
                    flush(ctx, &mut cases, self)?;
                    if ctx.over_cap() {
                        break;
                    }
                }
            }
        }
        flush(ctx, &mut cases, self)?;
        // (4) whole programs compose: every test script of the repository inside every context
        let tests = crate::repo_tests::load(&format!("{}/tests/stdout", crate::subject::repo()));
        let mut n_wrapped = 0u64;
        for t in &tests {
            let body = if t.src.ends_with('\n') { t.src.clone() } else { format!("{}\n", t.src) };
            for (ci, (cn, ctxt)) in CONTEXTS.iter().enumerate().skip(1) {
                cases.push(Case::new(format!("{}print(\"end\")\n", ctxt.replace('@', &body)), 5, format!("repo test {}::{} inside context {} ({})", t.file, t.name, ci, cn)));
                n_wrapped += 1;
            }
        }
        flush(ctx, &mut cases, self)?;
        ctx.extra.insert("repository_scripts_in_contexts".into(), json!(n_wrapped));
        // (3) evaluation order of the operand positions of every construct
        let mut eo = super::evalorder::cases(4);
        for p in super::evalorder::SELF_READ_PROGRAMS {
            eo.push(Case::new(p.to_string(), 4, "an index, key or bound that reads the container it is applied to".to_string()));
        }
        for p in super::evalorder::BOUND_ROUTE_PROGRAMS.iter().chain(super::evalorder::THIS_PROGRAMS.iter()).chain(super::evalorder::SCOPING_PROGRAMS.iter()) {
            eo.push(Case::new(p.to_string(), 4, "functions read from objects, and names, through every route".to_string()));
        }
        ctx.judge(eo, |c, r, o| self.oracle(c, r, o))?;
        // (3b) every payload and every repository script written without the separators its tokens
        // do not need
        let mut dn: Vec<Case> = vec![];
        let scripts = crate::repo_tests::load(&format!("{}/tests/stdout", crate::subject::repo()));
        for src in PAYLOADS.iter().map(|p| p.to_string()).chain(scripts.into_iter().map(|t| t.src)) {
            if let Some(d) = crate::layout::dense(&src) {
                dn.push(Case::new(d, 4, "written without optional separators".to_string()));
            }
        }
        ctx.extra.insert("dense_spellings".into(), json!(dn.len()));
        ctx.judge(dn, |c, r, o| self.oracle(c, r, o))?;
        // (2) statement sequences
        let stats = bfs(ctx, &Seq, seq_len, |c, r, o| self.oracle(c, r, o), |_c, _p| {})?;
        ctx.extra.insert(
            "bounds".into(),
            json!({"contexts": nc, "payloads": np, "nesting_programs": n_programs, "sequence_length": seq_len, "statements": STMTS.len(),
                   "sequence_levels(depth,generated,kept)": stats.levels, "dead_states": stats.dead}),
        );
        Ok(())
    }

    fn oracle(&self, c: &Case, r: &RefOutcome, o: &Outcome) -> Verdict {
        if o.stdout != r.stdout {
            return viol(
                "output",
                format!("{}: printed {:?}, the documented semantics give {:?}", c.meta, o.out_str(), String::from_utf8_lossy(&r.stdout)),
            );
        }
        if r.is_ok() != (o.class == Class::Ok) {
            return viol(
                "termination",
                format!("{}: the documented semantics end {}, the run ended {:?} {}", c.meta, if r.is_ok() { "successfully" } else { "with a reported error" }, o.class, o.msg),
            );
        }
        Verdict::Pass
    }
}
