//! C20 — names must be declared once per scope before use; `_` never binds.
//! Breadth-first exploration of all histories of declare (six entry points) /
//! assign / op-assign / read / open and close block, function, loop / `_`
//! targets over the names x and y, plus the product non-bindable expression
//! kind x binding position.  Oracle: reference scoping (success or failure; on
//! failure the position of the offending name; for redeclaration the earlier
//! declaration's position appears in the message).
use super::{parse_pos, Check};
use crate::engine::*;
use crate::explore::{bfs, Alphabet, CURSOR_MARK};
use crate::refm::eval::{EKind, RefOutcome, RefResult};
use crate::subject::{Class, MachineryError, Outcome};
use serde_json::json;

pub struct C20;

/// (template, opens a construct?, is close?)  K = fresh integer, N = fresh name counter
const OPS: &[(&str, u8)] = &[
    ("x := K", 0),
    ("[x] := [K]", 0),
    ("{x} := {\"x\": K}", 0),
    ("fn x() {\nreturn K\n}", 0),
    ("for x in [K] {", 1),
    ("fn pN(x) {", 2),
    ("x = K", 0),
    ("x += 1", 0),
    ("print(x->type())", 0),
    ("print(x + 0)", 0),
    ("{", 1),
    ("}", 9),
    ("fn fN() {", 3),
    ("_ := K", 0),
    ("[_, _] := [K, K]", 0),
    ("{\"a\": _} := {\"a\": K}", 0),
    ("for _ in [K] {", 1),
    ("fn qN(_, _) {", 4),
    ("print(_)", 0),
    ("_ = K", 0),
    ("y := K", 0),
    ("print(y + 0)", 0),
    ("[x, y] := [K, K]", 0),
    ("[x, x] := [K, K]", 0),
    ("{\"a\": x, \"b\": x} := {\"a\": K, \"b\": K}", 0),
    ("[x, ..y] := [K, K]", 0),
    ("{x, ..y} := {\"x\": K, \"z\": K}", 0),
    ("x := x + 1", 0),
    ("fn _() {\nreturn K\n}", 0),
    ("[x, y] = [K, K]", 0),
    ("{x} = {\"x\": K}", 0),
    ("{.._} := {\"a\": K}", 0),
    ("[.._] := [K]", 0),
    ("if true {", 1),
    ("gN := fn (x, x) {\nprint(x + 0)\n}\ngN(K, K)", 5),
    ("fn dN(x, x) {\nprint(x + 0)\n}\ndN(K, K)", 5),
    ("gN := fn (x, [x]) {\nprint(x + 0)\n}\ngN(K, [K])", 5),
    ("gN := fn (x, y) {\nprint(x + y)\n}\ngN(K, K)", 5),
    ("print({x}.x + 0)", 0),
    ("gN := fn (x, x) {\n}\ngN(K, K)", 5),
    ("gN := fn (_, x, x) {\n}\ngN(K, K, K)", 5),
    ("fn dN(_, x, x) {\n}\ndN(K, K, K)", 5),
    ("{x, ..x} = {\"x\": K, \"z\": K}", 0),
    ("[x, ..x] = [K, K]", 0),
    ("[x, [x]] = [K, [K]]", 0),
    ("fn rN() {\nprint(x + 0)\n}", 6),
    ("rR()", 7),
    ("x = x", 0),
    ("{x, ..y} = {\"x\": K, \"z\": K}", 0),
    ("[x, ..y] = [K, K]", 0),
    ("hs += [fn () {\nreturn x + 0\n}]", 0),
    ("print(hs[0]())", 0),
    ("[x, y] := [K, x + 0]", 0),
    ("break", 0),
    ("continue", 0),
    ("print(true || y)", 0),
    ("print(false && y == 0)", 0),
    ("if false && x == 0 {\nprint(K)\n}", 0),
    ("{\nx := K\n{\nx = K\n}\nprint(x + 0)\n}\nprint(x + 0)", 0),
    ("{\nx := K\nfn aN() {\nx = K\n}\naN()\nprint(x + 0)\n}\nprint(x + 0)", 5),
    ("{\nx := K\n{\nx += K\n[x] = [x + 1]\n}\nprint(x + 0)\n}", 0),
    ("{_, _, ..y} := {\"z\": K}", 0),
    ("fn x() {\nx := K\nprint(x + 0)\n}\nx()", 0),
    ("fn x(x) {\nprint(x + 0)\n}\nx(K)", 0),
];
const CLOSE: u16 = 11;

#[derive(Clone)]
pub struct St {
    ops: Vec<u16>,
    text: String,
    /// closing text per open construct
    open: Vec<(String, usize)>,
    next_k: u32,
    next_n: u32,
    /// number of the most recently defined reader function
    reader: Option<u32>,
}

struct Alpha;

impl Alphabet for Alpha {
    type St = St;
    fn init(&self) -> St {
        St { ops: vec![], text: String::from("hs := []\n"), open: vec![], next_k: 1, next_n: 1, reader: None }
    }
    fn enabled(&self, st: &St) -> Vec<u16> {
        let last = st.ops.last().copied();
        (0..OPS.len() as u16)
            .filter(|op| {
                let (t, kind) = OPS[*op as usize];
                if kind == 9 {
                    return matches!(st.open.last(), Some((_, n)) if *n > 0);
                }
                if kind == 7 {
                    return st.reader.is_some() && last != Some(*op);
                }
                if kind != 0 && kind != 5 && st.open.len() >= 3 {
                    return false;
                }
                // no two identical observations in a row
                if t.starts_with("print") && last == Some(*op) {
                    return false;
                }
                true
            })
            .collect()
    }
    fn apply(&self, st: &St, op: u16) -> St {
        let mut s = st.clone();
        s.ops.push(op);
        if let Some(top) = s.open.last_mut() {
            top.1 += 1;
        }
        let (t, kind) = OPS[op as usize];
        if kind == 9 {
            let (closing, _) = s.open.pop().unwrap();
            s.text.push_str(&closing);
            return s;
        }
        let mut line = String::new();
        for ch in t.chars() {
            match ch {
                'K' => {
                    line.push_str(&format!("{}", s.next_k));
                    s.next_k += 1;
                }
                'N' => line.push_str(&format!("{}", s.next_n)),
                'R' => line.push_str(&format!("{}", s.reader.unwrap_or(0))),
                c => line.push(c),
            }
        }
        s.text.push_str(&line);
        s.text.push('\n');
        match kind {
            1 => s.open.push(("}\n".to_string(), 0)),
            2 => {
                s.open.push((format!("}}\np{}({})\n", s.next_n, 1000 + s.next_n), 0));
                s.next_n += 1;
            }
            3 => {
                s.open.push((format!("}}\nf{}()\n", s.next_n), 0));
                s.next_n += 1;
            }
            4 => {
                s.open.push((format!("}}\nq{}(1, 2)\n", s.next_n), 0));
                s.next_n += 1;
            }
            5 => s.next_n += 1,
            6 => {
                s.reader = Some(s.next_n);
                s.next_n += 1;
            }
            _ => {}
        }
        s
    }
    fn program(&self, st: &St) -> String {
        let mut p = st.text.clone();
        p.push_str(&format!("print(\"{}\")\n", CURSOR_MARK));
        for (closing, _) in st.open.iter().rev() {
            p.push_str(closing);
        }
        p.push_str("print(\"end\")\n");
        p
    }
    fn describe(&self, st: &St) -> String {
        st.ops.iter().map(|o| OPS[*o as usize].0.replace('\n', " ")).collect::<Vec<_>>().join(" ; ")
    }
}

const NON_BINDABLE: [&str; 9] =
    ["null", "true", "5", "\"s\"", "a + b", "1 .. 2", "fn () {\n}", "f()", "$\"s\""];
const POSITIONS: [&str; 11] = [
    "@ := 1\n",
    "@ = 1\n",
    "@ += 1\n",
    "[@] := [1]\n",
    "[a, @] = [1, 2]\n",
    "{\"k\": @} := {\"k\": 1}\n",
    "for @ in [1] {\nprint(\"body\")\n}\n",
    "fn g(@) {\nprint(\"body\")\n}\ng(1)\n",
    "g := fn (@) {\nprint(\"body\")\n}\ng(1)\n",
    "g := fn (@) {\n}\ng(1)\n",
    "fn g(_, @) {\n}\ng(1, 2)\n",
];

impl Check for C20 {
    fn id(&self) -> &'static str {
        "C20"
    }

    fn run(&self, ctx: &mut Ctx) -> Result<(), MachineryError> {
        let depth = std::env::var("C20_DEPTH").ok().and_then(|s| s.parse().ok()).unwrap_or(ctx.tier.pick(4usize, 6usize));
        ctx.rule = format!(
            "breadth-first over all histories of <= {} operations from {} operations on x, y and `_` (declare through :=, list pattern, object pattern, fn, for target, parameter; assign; op-assign; read; open / close block, if, loop, function (called when closed); `_` as target in every entry point, print(_), duplicate names in one pattern, collect targets); dead states are not expanded; plus the product of {} non-bindable expression kinds x {} binding positions and of 7 element / property / range targets x the same positions; non-trivial = all",
            depth,
            OPS.len(),
            NON_BINDABLE.len(),
            POSITIONS.len()
        );
        ctx.rule.push_str("; plus programs about which declaration a name reaches (pattern keys that read names bound earlier in the same pattern, non-functions shadowing a called function, declared functions that outlive block / call / iteration, names read, captured and then shadowed in block, function, for and while)");
        let mut g_redecl = false;
        let mut g_undef = false;
        let mut g_shadow = false;
        let stats = bfs(
            ctx,
            &Alpha,
            depth,
            |c, r, o| self.oracle(c, r, o),
            |_ctx, pairs| {
                for (st, j) in pairs {
                    match &j.r.result {
                        RefResult::Err(e) => match e.kind {
                            EKind::Redeclared { .. } => g_redecl = true,
                            EKind::Undefined(_) => g_undef = true,
                            _ => {}
                        },
                        RefResult::Ok => {
                            // the same name declared in an inner scope is allowed
                            let decls = st.ops.iter().filter(|o| matches!(**o, 0 | 1 | 2)).count();
                            if decls >= 2 {
                                g_shadow = true;
                            }
                        }
                        _ => {}
                    }
                }
            },
        )?;
        // E2: non-bindable targets
        let mut cases = vec![];
        for (ti, t) in NON_BINDABLE.iter().enumerate() {
            for (pi, p) in POSITIONS.iter().enumerate() {
                let src = format!("a := 1\nb := 2\nfn f() {{\nreturn 1\n}}\nprint(\"pre\")\n{}print(\"post\")\n", p.replace('@', t));
                cases.push(Case::new(src, 1000, format!("nonbindable {} in position {}", ti, pi)));
            }
        }
        // element / property / range targets are bindable in statements, patterns and `for`; as
        // parameters they are rejected for named functions (tag 1001: the reference decides; for
        // anonymous functions, tag 1002, a reported error is accepted as well)
        for t in ["xs[0]", "o.k", "o[\"k\"]", "xs[0:1]", "xs[a]", "[xs[0], o.k]", "{\"k\": xs[1]}"] {
            for (pi, p) in POSITIONS.iter().enumerate() {
                let src = format!("xs := [0, 0]\no := {{\"k\": 0}}\na := 1\nprint(\"pre\")\n{}print(xs)\nprint(o)\n", p.replace('@', t));
                let anon = p.contains("fn (");
                cases.push(Case::new(src, if anon { 1002 } else { 1001 }, format!("element target {} in position {}", t, pi)));
            }
        }
        for decl in ["print := 1", "fn print() {\n}", "[print] := [1]", "{print} := {\"print\": 1}", "[a, ..print] := [1, 2]", "{\"k\": print} := {\"k\": 1}", "print = 1", "print += 1", "for print in [1] {\n}", "fn f(print) {\nreturn print\n}\nf(1)", "{\nprint := 1\n}", "if true {\nprint := 1\n}", "f := fn () {\nprint := 1\nreturn print\n}\nf()"] {
            for pre in ["", "say := print\n", "{\nprint := 0\n}\n", "fn g() {\nprint := 0\n}\ng()\n"] {
                for post in ["", "print := 2\n"] {
                    cases.push(Case::new(format!("keep := print\n{}keep(\"pre\")\n{}\nkeep(\"mid\")\n{}keep(\"post\")\n", pre, decl, post), 1003, format!("a name the interpreter declares: {} after {:?} before {:?}", decl.replace('\n', " "), pre.replace('\n', " "), post.replace('\n', " "))));
                }
            }
        }
        for (i, p) in super::evalorder::SCOPING_PROGRAMS.iter().enumerate() {
            cases.push(Case::new(p.to_string(), 1003, format!("which declaration a name reaches, program {}", i)));
        }
        ctx.judge(cases, |c, r, o| self.oracle(c, r, o))?;
        ctx.guard("a redeclaration in the same scope was rejected", g_redecl);
        ctx.guard("an undefined name was rejected", g_undef);
        ctx.guard("the same name was declared again in an inner scope", g_shadow);
        ctx.extra.insert(
            "bounds".into(),
            json!({"max_operations": depth, "completed_depth": stats.completed_depth, "operations": OPS.len(),
                   "levels(depth,generated,kept)": stats.levels, "dead_states": stats.dead,
                   "non_bindable_kinds": NON_BINDABLE.len(), "binding_positions": POSITIONS.len()}),
        );
        Ok(())
    }

    fn oracle(&self, c: &Case, r: &RefOutcome, o: &Outcome) -> Verdict {
        if c.tag == 1000 {
            // non-bindable target: reported error, nothing bound, nothing after it runs
            if o.class != Class::Err {
                return viol("non-bindable-accepted", format!("{}: binding to a non-bindable expression did not fail: {:?} {:?}", c.meta, o.class, o.out_str()));
            }
            if o.out_str().contains("post") || o.out_str().contains("body") {
                return viol("non-bindable-accepted", format!("{}: execution continued: {:?}", c.meta, o.out_str()));
            }
            if !r.is_ok() && o.stdout != r.stdout {
                return viol("output", format!("{}: printed {:?}, reference {:?}", c.meta, o.out_str(), String::from_utf8_lossy(&r.stdout)));
            }
            return Verdict::Pass;
        }
        if c.tag == 1002 && o.class == Class::Err && o.out_str() == "pre\n" {
            return Verdict::Pass;
        }
        if o.stdout != r.stdout {
            return viol(
                "output",
                format!("{}: printed {:?}, reference {:?}", c.meta, o.out_str(), String::from_utf8_lossy(&r.stdout)),
            );
        }
        match &r.result {
            RefResult::Ok => {
                if o.class != Class::Ok {
                    return viol("valid-program-rejected", format!("{}: every use is declared and no scope declares a name twice, but the run ended {:?}: {}", c.meta, o.class, o.msg));
                }
            }
            RefResult::Err(e) => {
                if o.class != Class::Err {
                    return viol("invalid-program-accepted", format!("{}: reference reports {:?}, but the run ended {:?} printing {:?}", c.meta, e.kind, o.class, o.out_str()));
                }
                if e.exact && !e.in_slot {
                    match parse_pos(&o.msg) {
                        Some((pos, _)) => {
                            if pos != e.pos {
                                return viol(
                                    "error-position",
                                    format!("{}: {:?} must be reported at the offending name {}:{}, got {}:{} ({})", c.meta, e.kind, e.pos.0, e.pos.1, pos.0, pos.1, o.msg.lines().next().unwrap_or("")),
                                );
                            }
                        }
                        None => return viol("error-position", format!("{}: diagnostic has no position: {}", c.meta, o.msg)),
                    }
                }
                if let EKind::Redeclared { prev, .. } = &e.kind {
                    let want = format!("{}:{}", prev.0, prev.1);
                    let first = o.msg.lines().next().unwrap_or("");
                    // after the position prefix
                    let body = parse_pos(first).map(|x| x.1).unwrap_or(first);
                    if !body.contains(&want) {
                        return viol("redeclaration-cites-earlier", format!("{}: message {:?} does not cite the earlier declaration at {}", c.meta, first, want));
                    }
                }
            }
            RefResult::Front(_) => {
                if o.class != Class::Err {
                    return viol("front", format!("{}: reference rejects the text, run ended {:?}", c.meta, o.class));
                }
            }
        }
        Verdict::Pass
    }
}
