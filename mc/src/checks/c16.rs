//! C16 — no implicit conversions.  The complete finite matrix: 16 operators x
//! 8 x 8 operand kinds in expression form, the 5 op-assign operators x 3 target
//! forms x 8 x 8, and the typed contexts x 8 kinds.  The oracle is the table in
//! the property statement (written out below), cross-checked with the
//! reference model on every cell.
use super::{find_symbol, Check};
use crate::engine::*;
use crate::refm::eval::{RefOutcome, RefResult};
use crate::subject::{Class, MachineryError, Outcome};
use serde_json::json;

pub struct C16;

#[derive(Clone, Copy, Debug, PartialEq)]
pub enum K {
    Null,
    Bool,
    Int,
    Str,
    List,
    Obj,
    UFn,
    BFn,
}

pub const KINDS: [K; 8] = [K::Null, K::Bool, K::Int, K::Str, K::List, K::Obj, K::UFn, K::BFn];

/// representative values: two per data kind (one of them empty / zero / false, so that
/// shortcuts on "deciding" or "neutral" operands are forced to show)
pub const VALS: [(K, &str); 12] = [
    (K::Null, "null"),
    (K::Bool, "true"),
    (K::Bool, "false"),
    (K::Int, "1"),
    (K::Int, "0"),
    (K::Str, "\"s\""),
    (K::Str, "\"\""),
    (K::List, "[4]"),
    (K::List, "[]"),
    (K::Obj, "{\"a\": 5}"),
    (K::Obj, "{}"),
    (K::UFn, "uf"),
];
pub const VALS_ALL: [(K, &str); 25] = [
    (K::Null, "null"),
    (K::Bool, "true"),
    (K::Bool, "false"),
    (K::Int, "1"),
    (K::Int, "0"),
    (K::Str, "\"s\""),
    (K::Str, "\"\""),
    (K::List, "[4]"),
    (K::List, "[]"),
    (K::Obj, "{\"a\": 5}"),
    (K::Obj, "{}"),
    (K::UFn, "uf"),
    (K::BFn, "print"),
    // the thorough tier adds a second representative of every kind
    (K::Int, "-1"),
    (K::Int, "9223372036854775807"),
    (K::Str, "\"é€\""),
    (K::Str, "\"1\""),
    (K::List, "[[4], \"s\"]"),
    (K::List, "[uf]"),
    (K::Obj, "{\"a\": [5], \"b\": uf}"),
    (K::Obj, "{\"m\": fn () { return 1; }}"),
    (K::UFn, "fn (p) { return p; }"),
    (K::UFn, "ob.m"),
    (K::BFn, "\"s\"->len"),
    (K::BFn, "[1]->type"),
];
const N_QUICK_VALS: usize = 13;

impl K {
    /// a literal / name denoting a value of the kind
    pub fn expr(self) -> &'static str {
        match self {
            K::Null => "null",
            K::Bool => "true",
            K::Int => "1",
            K::Str => "\"s\"",
            K::List => "[4]",
            K::Obj => "{\"a\": 5}",
            K::UFn => "uf",
            K::BFn => "print",
        }
    }
    /// name used by diagnostics and `->type()` (from the statement)
    pub fn tname(self) -> &'static str {
        match self {
            K::Null => "null",
            K::Bool => "bool",
            K::Int => "int",
            K::Str => "string",
            K::List => "list",
            K::Obj => "object",
            K::UFn | K::BFn => "func",
        }
    }
}

pub const BINOPS: [&str; 15] =
    ["+", "-", "*", "/", "%", "&&", "||", "==", "!=", "<", "<=", ">", ">=", "===", "!=="];
pub const ASSIGN_OPS: [&str; 5] = ["+", "-", "*", "/", "%"];

/// the table of the statement
pub fn accepts(op: &str, l: K, r: K) -> bool {
    use K::*;
    match op {
        "+" => matches!((l, r), (Int, Int) | (Str, Str) | (List, List)),
        "-" | "*" | "/" | "%" | "<" | "<=" | ">" | ">=" | ".." => matches!((l, r), (Int, Int)),
        "&&" | "||" => matches!((l, r), (Bool, Bool)),
        "==" | "!=" => {
            l == r && !matches!(l, UFn | BFn)
        }
        "===" | "!==" => matches!((l, r), (List, List) | (Obj, Obj) | (UFn, UFn)),
        _ => false,
    }
}

const PRELUDE: &str = "fn uf(..r) { return 1; }\nob := {\"m\": fn (..r) { return 2; }}\n";

struct Ctxt {
    name: &'static str,
    /// program with `@` standing for the variable `v` holding the value
    tmpl: &'static str,
    accept: &'static [K],
}

const CONTEXTS: &[Ctxt] = &[
    Ctxt { name: "if condition", tmpl: "if v { print(\"t\"); } else { print(\"f\"); }\n", accept: &[K::Bool] },
    Ctxt { name: "else-if condition", tmpl: "if false { print(\"a\"); } else if v { print(\"t\"); } else { print(\"f\"); }\n", accept: &[K::Bool] },
    Ctxt { name: "while condition", tmpl: "while v { print(\"t\"); break; }\n", accept: &[K::Bool] },
    Ctxt { name: "list index", tmpl: "print([7, 8, 9][v])\n", accept: &[K::Int] },
    Ctxt { name: "string index", tmpl: "print(\"abc\"[v])\n", accept: &[K::Int] },
    Ctxt { name: "object index", tmpl: "print({\"s\": 6}[v])\n", accept: &[K::Str] },
    Ctxt { name: "list index assignment", tmpl: "xs := [7, 8, 9]; xs[v] = 0; print(xs)\n", accept: &[K::Int] },
    Ctxt { name: "object index assignment", tmpl: "o := {\"s\": 6}; o[v] = 0; print(o)\n", accept: &[K::Str] },
    Ctxt { name: "list range start", tmpl: "print([7, 8, 9][v:])\n", accept: &[K::Int] },
    Ctxt { name: "list range end", tmpl: "print([7, 8, 9][:v])\n", accept: &[K::Int] },
    Ctxt { name: "string range start", tmpl: "print(\"abc\"[v:])\n", accept: &[K::Int] },
    Ctxt { name: "string range end", tmpl: "print(\"abc\"[:v])\n", accept: &[K::Int] },
    Ctxt { name: "range assignment start", tmpl: "xs := [7, 8, 9]; xs[v:2] = [0]; print(xs)\n", accept: &[K::Int] },
    Ctxt { name: "range assignment end", tmpl: "xs := [7, 8, 9]; xs[0:v] = [0]; print(xs)\n", accept: &[K::Int] },
    Ctxt { name: "range start", tmpl: "print(v .. 3)\n", accept: &[K::Int] },
    Ctxt { name: "range end", tmpl: "print(0 .. v)\n", accept: &[K::Int] },
    Ctxt { name: "property name", tmpl: "print({v: 2})\n", accept: &[K::Str] },
    Ctxt { name: "interpolation slot", tmpl: "print($\"<${v}>\")\n", accept: &[K::Str] },
    Ctxt { name: "list spread", tmpl: "print([0, v.., 9])\n", accept: &[K::List] },
    Ctxt { name: "argument spread", tmpl: "fn g(..r) { print(r); }\ng(0, v..)\n", accept: &[K::List] },
    Ctxt { name: "object spread", tmpl: "print({\"z\": 0, v..})\n", accept: &[K::Obj] },
    Ctxt { name: "list destructuring source", tmpl: "[p] := v; print(p)\n", accept: &[K::List] },
    Ctxt { name: "list collect source", tmpl: "[..p] := v; print(p)\n", accept: &[K::List] },
    Ctxt { name: "object destructuring source", tmpl: "{a} := v; print(a)\n", accept: &[K::Obj] },
    Ctxt { name: "empty object pattern source", tmpl: "{} := v; print(\"bound\")\n", accept: &[K::Obj] },
    Ctxt { name: "empty object pattern assignment", tmpl: "{} = v; print(\"bound\")\n", accept: &[K::Obj] },
    Ctxt { name: "empty list pattern source", tmpl: "[] := v; print(\"bound\")\n", accept: &[K::List] },
    Ctxt { name: "object collect source", tmpl: "{..p} := v; print(p)\n", accept: &[K::Obj] },
    Ctxt { name: "nested object pattern source", tmpl: "[q, {}] := [1, v]; print(q)\n", accept: &[K::Obj] },
    Ctxt { name: "parameter empty object pattern", tmpl: "fn g({}, n) { print(n); }\ng(v, 2)\n", accept: &[K::Obj] },
    Ctxt { name: "for empty object pattern", tmpl: "for [_, {}] in [v] { print(\"it\"); }\n", accept: &[K::Obj] },
    Ctxt { name: "parameter list pattern", tmpl: "fn g([p]) { print(p); }\ng(v)\n", accept: &[K::List] },
    Ctxt { name: "parameter object pattern", tmpl: "fn g({a}) { print(a); }\ng(v)\n", accept: &[K::Obj] },
    Ctxt { name: "for iterable", tmpl: "for e in v { print(e); }\n", accept: &[K::List, K::Str, K::Obj] },
    Ctxt { name: "for list target", tmpl: "for [i, [p]] in [v] { print(p); }\n", accept: &[K::List] },
    Ctxt { name: "callee", tmpl: "v(8)\nprint(\"called\")\n", accept: &[K::UFn, K::BFn] },
    Ctxt { name: "property subject", tmpl: "print(v.a)\n", accept: &[K::Obj] },
    Ctxt { name: "property assignment subject", tmpl: "w := v; w.a = 3; print(w.a)\n", accept: &[K::Obj] },
    Ctxt { name: "index subject", tmpl: "print(v[0] == v[0])\n", accept: &[K::List, K::Str] },
    Ctxt { name: "index assignment subject", tmpl: "w := v; w[0] = 3; print(w[0])\n", accept: &[K::List] },
    Ctxt { name: "range index subject", tmpl: "print(v[0:1] == v[0:1])\n", accept: &[K::List, K::Str] },
    Ctxt { name: "equality of lists holding the value", tmpl: "print([v] == [v])\n", accept: &[K::Null, K::Bool, K::Int, K::Str, K::List, K::Obj] },
    Ctxt { name: "equality of objects holding the value", tmpl: "w := {\"k\": v}\nprint(w == {\"k\": v})\n", accept: &[K::Null, K::Bool, K::Int, K::Str, K::List, K::Obj] },
    Ctxt { name: "inequality of nested lists holding the value", tmpl: "print([[1, v]] != [[1, v]])\n", accept: &[K::Null, K::Bool, K::Int, K::Str, K::List, K::Obj] },
    Ctxt { name: "full range index subject", tmpl: "print(v[:] == v[:])\n", accept: &[K::List, K::Str] },
    Ctxt { name: "open range index subject", tmpl: "print(v[0:] == v[:1])\n", accept: &[K::List, K::Str] },
    Ctxt { name: "range assignment subject", tmpl: "w := v; w[0:1] = [3]; print(w[0])\n", accept: &[K::List] },
    Ctxt { name: "range assignment rhs", tmpl: "xs := [7, 8, 9]; xs[0:1] = v; print(xs)\n", accept: &[K::List, K::Str] },
    Ctxt { name: "type function subject", tmpl: "print(v->type())\n", accept: &[K::Bool, K::Int, K::Str, K::List, K::Obj, K::UFn, K::BFn] },
    Ctxt { name: "len subject", tmpl: "print(v->len())\n", accept: &[K::Str] },
    Ctxt { name: "slot of a literal nested in a slot, after a sibling nested literal", tmpl: "print($\"${$\"${\"a\"}\"}|${$\"${v}\"}\")\n", accept: &[K::Str] },
    Ctxt { name: "slot of a literal nested in a slot, evaluated twice", tmpl: "fn w(p) { return p; }\nq := $\"${w($\"${\"a\"}\")}\"\nprint($\"${w($\"${v}\")}\")\n", accept: &[K::Str] },
    Ctxt { name: "computed pattern name read from the source itself", tmpl: "w := {\"n\": v, \"s\": 5}\n{w.n: p} := w\nprint(p)\n", accept: &[K::Str] },
    Ctxt { name: "computed literal name read from a sibling object", tmpl: "w := {\"n\": v}\nprint({w.n: 1, \"z\": 2})\n", accept: &[K::Str] },
    Ctxt { name: "slot of an interpolated property name", tmpl: "print({$\"k${v}\": 1})\n", accept: &[K::Str] },
    Ctxt { name: "slot of an interpolated key read", tmpl: "w := {\"ks\": 1, \"k\": 2}\nprint(w[$\"k${v}\"])\n", accept: &[K::Str] },
    Ctxt { name: "slot of an interpolated key written", tmpl: "w := {}\nw[$\"k${v}\"] = 1\nprint(w)\n", accept: &[K::Str] },
    Ctxt { name: "slot of an interpolated pattern name", tmpl: "{$\"k${v}\": p} := {\"ks\": 1, \"k\": 2}\nprint(p)\n", accept: &[K::Str] },
    Ctxt { name: "list spread before a printing item", tmpl: "fn sh() { print(\"later\"); return 1; }\nq := [0, v.., sh()]\nprint(\"built\")\n", accept: &[K::List] },
    Ctxt { name: "argument spread before a printing argument", tmpl: "fn sh() { print(\"later\"); return 1; }\nfn g(..r) { return r; }\nq := g(v.., sh())\nprint(\"built\")\n", accept: &[K::List] },
    Ctxt { name: "object spread before a printing entry", tmpl: "fn sh() { print(\"later\"); return 1; }\nq := {v.., \"z\": sh()}\nprint(\"built\")\n", accept: &[K::Obj] },
    Ctxt { name: "parameter list pattern, empty body", tmpl: "fn g([p]) { }\ng(v)\nprint(\"called\")\n", accept: &[K::List] },
    Ctxt { name: "parameter object pattern, empty body", tmpl: "fn g({a}) { }\ng(v)\nprint(\"called\")\n", accept: &[K::Obj] },
    Ctxt { name: "anonymous parameter list pattern, empty body", tmpl: "g := fn ([p]) { }\ng(v)\nprint(\"called\")\n", accept: &[K::List] },
    Ctxt { name: "method parameter object pattern, empty body", tmpl: "w := {\"m\": fn ({a}) { }}\nw.m(v)\nprint(\"called\")\n", accept: &[K::Obj] },
    Ctxt { name: "for list target, empty body", tmpl: "for [i, [p]] in [v] { }\nprint(\"done\")\n", accept: &[K::List] },
    Ctxt { name: "for object target, empty body", tmpl: "for [i, {a}] in [v] { }\nprint(\"done\")\n", accept: &[K::Obj] },
    Ctxt { name: "for iterable, empty body", tmpl: "for e in v { }\nprint(\"done\")\n", accept: &[K::List, K::Str, K::Obj] },
    Ctxt { name: "if condition, empty bodies", tmpl: "if v { } else { }\nprint(\"done\")\n", accept: &[K::Bool] },
    Ctxt { name: "else-if condition, empty bodies", tmpl: "if false { } else if v { }\nprint(\"done\")\n", accept: &[K::Bool] },
];

// tags
const T_BIN: u32 = 1;
const T_OPASSIGN: u32 = 2;
const T_CTX: u32 = 3;
const T_RANGE: u32 = 4;
const T_TYPE: u32 = 5;

fn vk(i: usize) -> K {
    VALS_ALL[i].0
}
fn vx(i: usize) -> &'static str {
    VALS_ALL[i].1
}

impl Check for C16 {
    fn id(&self) -> &'static str {
        "C16"
    }

    fn run(&self, ctx: &mut Ctx) -> Result<(), MachineryError> {
        let mut cases = vec![];
        let nv = ctx.tier.pick(VALS_ALL.len(), VALS_ALL.len());
        // (1) binary operators in expression form + `..`
        for (oi, op) in BINOPS.iter().enumerate() {
            for l in 0..nv {
                for r in 0..nv {
                    let src = format!(
                        "{}a := {}\nb := {}\nprint(\"pre\")\nprint(a {} b)\n",
                        PRELUDE, vx(l), vx(r), op
                    );
                    cases.push(Case::new(src, T_BIN, format!("binop {} {} {}", oi, l, r)));
                    // one literal operand and one variable, both ways round
                    cases.push(Case::new(format!("{}b := {}\nprint(\"pre\")\nprint({} {} b)\n", PRELUDE, vx(r), vx(l), op), T_BIN, format!("binop {} {} {}", oi, l, r)));
                    cases.push(Case::new(format!("{}a := {}\nprint(\"pre\")\nprint(a {} {})\n", PRELUDE, vx(l), op, vx(r)), T_BIN, format!("binop {} {} {}", oi, l, r)));
                    // literal operands (no variables in between)
                    let src2 = format!("{}print(\"pre\")\nprint({} {} {})\n", PRELUDE, vx(l), op, vx(r));
                    cases.push(Case::new(src2, T_BIN, format!("binop {} {} {}", oi, l, r)));
                }
            }
        }
        // the same cells with the operation standing as a condition
        for (oi, op) in BINOPS.iter().enumerate() {
            if !["==", "!=", "<", "<=", ">", ">=", "&&", "||", "===", "!=="].contains(op) {
                continue;
            }
            for l in 0..nv {
                for r in 0..nv {
                    for form in ["if a @ b { print(\"t\"); } else { print(\"f\"); }\n", "n := 0\nwhile a @ b { n += 1; if n > 0 { break; }; }\nprint(n)\n", "if false { } else if a @ b { print(\"t\"); } else { print(\"f\"); }\n"] {
                        cases.push(Case::new(format!("{}a := {}\nb := {}\nprint(\"pre\")\n{}", PRELUDE, vx(l), vx(r), form.replace('@', op)), T_BIN, format!("binop {} {} {} as a condition", oi, l, r)));
                    }
                }
            }
        }
        for l in 0..nv {
            for r in 0..nv {
                let src = format!(
                    "{}a := {}\nb := {}\nprint(\"pre\")\nprint(a .. b)\n",
                    PRELUDE, vx(l), vx(r)
                );
                cases.push(Case::new(src, T_RANGE, format!("range {} {}", l, r)));
            }
        }
        // (2) op-assign forms
        for (oi, op) in ASSIGN_OPS.iter().enumerate() {
            for l in 0..nv {
                for r in 0..nv {
                    let forms = [
                        format!("x := {}\nb := {}\nprint(\"pre\")\nx {}= b\nprint(x)\n", vx(l), vx(r), op),
                        format!("xs := [0, {}]\nb := {}\nprint(\"pre\")\nxs[1] {}= b\nprint(xs[1])\n", vx(l), vx(r), op),
                        format!("o := {{\"k\": {}}}\nb := {}\nprint(\"pre\")\no.k {}= b\nprint(o[\"k\"])\n", vx(l), vx(r), op),
                        format!("o := {{\"k\": {}}}\nb := {}\nprint(\"pre\")\no[\"k\"] {}= b\nprint(o.k)\n", vx(l), vx(r), op),
                    ];
                    for (fi, f) in forms.iter().enumerate() {
                        cases.push(Case::new(
                            format!("{}{}", PRELUDE, f),
                            T_OPASSIGN,
                            format!("opassign {} {} {} form{}", oi, l, r, fi),
                        ));
                    }
                }
            }
        }
        // (3) typed contexts
        for (ci, c) in CONTEXTS.iter().enumerate() {
            for k in 0..nv {
                let src = format!("{}v := {}\nprint(\"pre\")\n{}", PRELUDE, vx(k), c.tmpl);
                cases.push(Case::new(src, T_CTX, format!("ctx {} {}", ci, k)));
            }
        }
        // (4) type names
        for k in 0..nv {
            let src = format!("{}v := {}\nprint(v->type())\n", PRELUDE, vx(k));
            cases.push(Case::new(src, T_TYPE, format!("type {}", k)));
        }
        let n_cases = cases.len();
        ctx.rule = format!("complete matrix over {n} representative values of the 8 kinds (two per data kind, one of them empty/zero/false; incl. negative and maximal ints, multi-byte and digit strings, nested lists, containers holding functions, anonymous, bound and type functions): 15 binary operators + `..` x {n}x{n} operands (two spellings), 5 op-assign operators x 4 target forms x {n}x{n}, {c} typed contexts x {n} values, ->type() x {n}; every cell is a distinct (operator, operands, form) tuple and non-trivial", n = nv, c = CONTEXTS.len());
        ctx.rule.push_str("; every cell followed by a third operand that prints when it is reached (3 continuations and a list), every value and the keyword literals written directly in 5 slot shapes; a kind error names the kinds");
        ctx.extra.insert(
            "bounds".into(),
            json!({"binary_operators": 15, "kinds": 8, "values": nv, "op_assign_operators": 5, "op_assign_forms": 4,
                   "typed_contexts": CONTEXTS.len(), "cells": n_cases}),
        );
        let judged = ctx.judge(cases, |c, r, o| self.oracle(c, r, o))?;
        // reference and statement table must agree on every rejection (otherwise the model is
        // wrong: machinery); a cell the table accepts may still fail for the value chosen
        // (missing key, index out of range), but each context must be accepted for some value
        let mut accepted_ok = std::collections::BTreeMap::<String, bool>::new();
        for j in &judged {
            let table_ok = table_accepts(&j.case);
            let ref_ok = j.r.is_ok();
            if !table_ok && ref_ok {
                return Err(MachineryError(format!(
                    "C16: reference model accepts a cell the statement rejects: {} ({:?})",
                    j.case.meta, j.case.src
                )));
            }
            if table_ok {
                let p: Vec<&str> = j.case.meta.split(' ').collect();
                let key = format!("{} {}", p[0], p[1]);
                let e = accepted_ok.entry(key).or_insert(false);
                *e = *e || ref_ok;
            }
        }
        for (k, ok) in &accepted_ok {
            if !*ok && !k.starts_with("type") {
                return Err(MachineryError(format!("C16: no accepted value succeeds for {}", k)));
            }
        }
        // (5) a cell inside a longer expression: the operation that fails stops the expression
        // there (operands to its right are not reached), and the kinds of a value written directly
        // in an interpolation slot are the kinds of that value
        let mut more = vec![];
        for op in BINOPS.iter() {
            for l in 0..nv {
                for r in 0..nv {
                    for (tail, tv) in [("+", "1"), ("&&", "true"), ("==", "null")] {
                        more.push(Case::new(format!("{}fn t(v) {{\nprint(\"reached\")\nreturn v\n}}\na := {}\nb := {}\nprint(\"pre\")\nprint(a {} b {} t({}))\n", PRELUDE, vx(l), vx(r), op, tail, tv), 9, format!("chain a {} b {} t({}) with {} and {}", op, tail, tv, vx(l), vx(r))));
                    }
                    more.push(Case::new(format!("{}fn t(v) {{\nprint(\"reached\")\nreturn v\n}}\na := {}\nb := {}\nprint(\"pre\")\nprint([a {} b, t(1)])\nprint(\"post\")\n", PRELUDE, vx(l), vx(r), op), 9, format!("list item a {} b followed by t(1) with {} and {}", op, vx(l), vx(r))));
                }
            }
        }
        for k in 0..VALS_ALL.len() {
            for form in ["$\"<${@}>\"", "$\"<${ @ }>\"", "$\"${@}${@}\"", "$\"a${(@)}\"", "$\"${[@][0]}\""] {
                more.push(Case::new(format!("{}print(\"pre\")\nprint({})\nprint(\"post\")\n", PRELUDE, form.replace('@', vx(k))), 9, format!("value {} written in the slot of {}", vx(k), form)));
            }
        }
        for lit in ["true", "false", "null", "0", "-1", "\"\"", "[]", "{}", "this", "print", "fn () {\nreturn \"s\"\n}", "truex", "nullify", "_"] {
            for form in ["$\"<${@}>\"", "$\"<${ @ }>\"", "$\"${@}\"", "$\"${@}${@}\"", "$\"${(@)}\""] {
                more.push(Case::new(format!("truex := \"tx\"\nnullify := \"nf\"\nprint(\"pre\")\nprint({})\nprint(\"post\")\n", form.replace('@', lit)), 9, format!("{} written in the slot of {}", lit, form)));
            }
        }
        ctx.extra.insert("cells_inside_longer_expressions".into(), json!(more.len()));
        ctx.judge(more, |c, r, o| {
            if o.stdout != r.stdout || r.is_ok() != (o.class == Class::Ok) {
                return viol("cell-in-context", format!("{}: printed {:?} and ended {:?} {}; the reference prints {:?} and {}", c.meta, o.out_str(), o.class, o.msg, String::from_utf8_lossy(&r.stdout), if r.is_ok() { "completes" } else { "reports an error" }));
            }
            // a kind error names the kinds it is about
            if let RefResult::Err(e) = &r.result {
                let first_line = o.msg.lines().next().unwrap_or("");
                let kinds: Vec<&str> = match &e.kind {
                    crate::refm::eval::EKind::CtxType(_, k) => vec![k.name()],
                    crate::refm::eval::EKind::OpType { l, r, .. } | crate::refm::eval::EKind::EqType { l, r, .. } => vec![l.name(), r.name()],
                    _ => vec![],
                };
                let mut rest = first_line;
                for k in kinds {
                    match find_word(rest, k) {
                        Some(i) => rest = &rest[i..],
                        None => return viol("diagnostic-operand-kinds", format!("{}: the operand kinds are wrong for this construct ('{}'), but the message {:?} does not name that kind", c.meta, k, first_line)),
                    }
                }
            }
            Verdict::Pass
        })?;
        let rejected = judged.iter().filter(|j| !table_accepts(&j.case)).count();
        ctx.guard("some cell rejected and some accepted", rejected > 0 && rejected < judged.len());
        ctx.extra.insert("cells_rejected_by_table".into(), json!(rejected));
        ctx.extra.insert("cells_accepted_by_table".into(), json!(judged.len() - rejected));
        ctx.exhaustive = true;
        Ok(())
    }

    fn oracle(&self, c: &Case, r: &RefOutcome, o: &Outcome) -> Verdict {
        let accept = table_accepts(c);
        let parts: Vec<&str> = c.meta.split(' ').collect();
        if accept {
            // inside the documented domain: exactly the reference behaviour (the value chosen
            // may still make the construct fail, e.g. a missing key)
            let ref_ok = matches!(r.result, RefResult::Ok);
            if ref_ok != (o.class == Class::Ok) {
                return viol(
                    "accepted-cell-rejected",
                    format!("{}: the statement accepts these operand kinds; reference ends {} but the run ended {:?}: {}", c.meta, if ref_ok { "ok" } else { "with an error" }, o.class, o.msg),
                );
            }
            if o.stdout != r.stdout {
                return viol(
                    "accepted-cell-wrong-value",
                    format!("{}: output {:?}, reference {:?}", c.meta, o.out_str(), String::from_utf8_lossy(&r.stdout)),
                );
            }
            if c.tag == T_TYPE {
                let k = vk(parts[1].parse::<usize>().unwrap());
                let exp = format!("{}\n", k.tname());
                if o.out_str() != exp {
                    return viol("type-name", format!("->type() printed {:?}, statement says {:?}", o.out_str(), exp));
                }
            }
            return Verdict::Pass;
        }
        // rejected cell: a type diagnostic, never a value, never a crash
        if o.class != Class::Err {
            return viol(
                "rejected-cell-accepted",
                format!("{}: out-of-domain operand kinds did not stop with a diagnostic (ended {:?}, printed {:?})", c.meta, o.class, o.out_str()),
            );
        }
        if c.tag != T_TYPE && o.out_str() != "pre\n" {
            return viol("rejected-cell-output", format!("{}: printed {:?} before failing", c.meta, o.out_str()));
        }
        if c.tag == T_BIN || c.tag == T_OPASSIGN {
            let (op, l, r_) = if c.tag == T_BIN {
                (BINOPS[parts[1].parse::<usize>().unwrap()], vk(parts[2].parse::<usize>().unwrap()), vk(parts[3].parse::<usize>().unwrap()))
            } else {
                (ASSIGN_OPS[parts[1].parse::<usize>().unwrap()], vk(parts[2].parse::<usize>().unwrap()), vk(parts[3].parse::<usize>().unwrap()))
            };
            // message names the operator, then the left kind, then the right kind
            let first_line = o.msg.lines().next().unwrap_or("");
            let after_op = match find_symbol(first_line, op) {
                Some(i) => i,
                None => {
                    return viol("diagnostic-operator", format!("{}: message {:?} does not name operator {}", c.meta, first_line, op))
                }
            };
            let rest = &first_line[after_op..];
            let ok = match find_word(rest, l.tname()) {
                Some(i) => find_word(&rest[i..], r_.tname()).is_some(),
                None => false,
            };
            if !ok {
                return viol(
                    "diagnostic-operand-kinds",
                    format!("{}: message {:?} does not name '{}' then '{}' after the operator", c.meta, first_line, l.tname(), r_.tname()),
                );
            }
        }
        Verdict::Pass
    }
}

/// find `w` as a whole word; returns the index just after it
fn find_word(s: &str, w: &str) -> Option<usize> {
    let b = s.as_bytes();
    let mut from = 0;
    while let Some(i) = s[from..].find(w) {
        let st = from + i;
        let en = st + w.len();
        let before = st == 0 || !(b[st - 1] as char).is_ascii_alphanumeric();
        let after = en >= b.len() || !(b[en] as char).is_ascii_alphanumeric();
        if before && after {
            return Some(en);
        }
        from = st + 1;
    }
    None
}

fn table_accepts(c: &Case) -> bool {
    let p: Vec<&str> = c.meta.split(' ').collect();
    let k = |i: usize| vk(p[i].parse::<usize>().unwrap());
    match c.tag {
        T_BIN => accepts(BINOPS[p[1].parse::<usize>().unwrap()], k(2), k(3)),
        T_RANGE => accepts("..", k(1), k(2)),
        T_OPASSIGN => accepts(ASSIGN_OPS[p[1].parse::<usize>().unwrap()], k(2), k(3)),
        T_CTX => CONTEXTS[p[1].parse::<usize>().unwrap()].accept.contains(&k(2)),
        T_TYPE => k(1) != K::Null,
        _ => false,
    }
}
