//! C18 — reported positions are the true line and column of the offending
//! token.  (A) Offenders (lexical, syntax, undefined name, operator type /
//! overflow, op-assign, call errors, stack-trace lines, jumps, redeclaration)
//! x every sequence of layout pieces before them (blank lines, tabs, CR LF,
//! comments with multi-byte text, statements, multi-line strings and
//! literals, multi-byte strings on the same line) x in-line indentation x
//! expression wrappers: the reported (line, column) must equal the position
//! where the generator put the token, counted in characters.  (B) For the
//! whole layout corpus under every single layout edit: every token start
//! (hook `tokens`) and every position stored in the syntax tree (hook `ast`)
//! must equal the reference lexer's / parser's, and a diagnostic at a
//! newline keeps its line relation under the edit.
use super::c09::parse_token_line;
use super::{parse_pos, Check};
use crate::dbg::conv_prog_dump;
use crate::engine::*;
use crate::layout::{corpus, edits, off_to_pos};
use crate::refm::ast::*;
use crate::refm::eval::RefOutcome;
use crate::refm::lex::{lex_raw, suppress_terminators, Pos, Tok};
use crate::refm::parse::parse_prog;
use crate::subject::{Class, MachineryError, Mode, Outcome};
use serde_json::json;

pub struct C18;

const PIECES: [&str; 10] = [
    "\n",
    " ",
    "\t",
    "\r\n",
    "# é€😀 comment\n",
    "x% := 1\n",
    "x% := 1; ",
    "s% := \"multi\nline\"\n",
    "xs% := [1,\n2]\n",
    "s% := \"ééé\"; ",
];
const INDENTS: [&str; 3] = ["", "  ", "\t"];

/// offenders: \u{1} marks the offending token, \u{2}.. mark the calls of the stack
/// trace, innermost first
const OFFENDERS: &[(&str, &str)] = &[
    ("unexpected character", "q_ := \u{1}& 1\n"),
    ("invalid escape", "q_ := \"a\\\u{1}q\"\n"),
    ("invalid hex digit", "q_ := \"\\x\u{1}g1\"\n"),
    ("second hex digit invalid", "q_ := \"\\x4\u{1}z\"\n"),
    ("unescaped dollar", "q_ := \"a\u{1}$b\"\n"),
    ("bad slot start", "q_ := $\"a$\u{1}x\"\n"),
    ("integer too large", "q_ := \u{1}99999999999999999999\n"),
    ("unexpected token", "q_ := \u{1})\n"),
    ("missing operator", "print(1 \u{1}2)\n"),
    ("unexpected closing brace", "q_ := 1 \u{1}}\n"),
    ("undefined name read", "print(\u{1}y_)\n"),
    ("undefined name in an operand", "q_ := 1 + \u{1}y_ * 2\n"),
    ("undefined name assigned", "\u{1}y_ = 1\n"),
    ("undefined name op-assigned", "\u{1}y_ += 1\n"),
    ("undefined shorthand", "q_ := {\u{1}y_}\n"),
    ("operator type error", "q_ := 1 \u{1}+ \"a\"\n"),
    ("second operator type error", "q_ := 1 + 2 \u{1}* \"a\"\n"),
    ("first operator of a chain fails", "q_ := 1 \u{1}+ \"a\" + 2 + 3\n"),
    ("middle operator of a chain fails", "q_ := 1 + 2 \u{1}- \"a\" + 3\n"),
    ("first operator of a chain over continuation lines", "q_ := 1 \u{1}+\n  \"a\" +\n  2\n"),
    ("overflow in the middle of a chain", "q_ := 9223372036854775807 \u{1}+ 1 - 1\n"),
    ("undefined name as a range end", "q_ := 0 .. \u{1}y_\n"),
    ("undefined name as a range start", "q_ := \u{1}y_ .. 3\n"),
    ("call error as a range end", "fn nf_(a) {\nreturn a\n}\nfor e_ in 0 .. \u{1}nf_() {\n}\n"),
    ("undefined name after a bare carriage return", "w_ := 1;\r q_ := \u{1}y_\n"),
    ("undefined name in an index", "w_ := [1]\nq_ := w_[\u{1}y_]\n"),
    ("undefined name in a range index bound", "w_ := [1]\nq_ := w_[0:\u{1}y_]\n"),
    ("undefined name as an object value", "q_ := {\"k\": \u{1}y_}\n"),
    ("undefined name in a slot-free interpolated string neighbour", "q_ := $\"a\" + \u{1}y_\n"),
    ("comparison type error", "q_ := [1] \u{1}< 2\n"),
    ("equality type error", "q_ := 1 \u{1}== \"a\"\n"),
    ("overflow", "q_ := 9223372036854775807 \u{1}+ 1\n"),
    ("zero divisor", "q_ := 1 \u{1}/ 0\n"),
    ("op-assign type error on a variable", "w_ := 1\nw_ \u{1}+= \"a\"\n"),
    ("op-assign type error on an element", "w_ := [1]\nw_[0] \u{1}+= \"a\"\n"),
    ("op-assign type error on a property", "w_ := {\"k\": 1}\nw_.k \u{1}-= \"a\"\n"),
    ("op-assign overflow on a key", "w_ := {\"k\": 9223372036854775807}\nw_[\"k\"] \u{1}+= 1\n"),
    ("non-function callee", "w_ := 0\nq_ := \u{1}w_()\n"),
    ("non-function callee after a property", "w_ := {\"k\": 0}\nq_ := \u{1}w_.k(1)\n"),
    ("wrong argument count", "fn nf_(a) {\nreturn a\n}\nq_ := \u{1}nf_(1, 2)\n"),
    ("too few arguments", "fn nf_(a, ..r) {\nreturn a\n}\nq_ := 1 + \u{1}nf_()\n"),
    ("redeclaration", "z_ := 1\n\u{1}z_ := 2\n"),
    ("redeclaration by fn", "z_ := 1\nfn \u{1}z_() {\n}\n"),
    ("overflow of a variable and a literal", "w_ := 9223372036854775807\nq_ := w_ \u{1}+ 1\n"),
    ("overflow of a literal and a variable", "w_ := 9223372036854775807\nq_ := 1 \u{1}+ w_\n"),
    ("overflow of two variables", "w_ := 9223372036854775807\nv_ := 2\nq_ := 1 + w_ \u{1}* v_\n"),
    ("underflow of a variable and a literal", "w_ := -9223372036854775807\nq_ := w_ \u{1}- 2\n"),
    ("type error of a variable and a literal", "w_ := 1\nq_ := w_ \u{1}+ \"a\"\n"),
    ("type error of an element and a literal", "w_ := [1]\nq_ := w_[0] \u{1}* \"a\"\n"),
    ("type error of a call and a property", "w_ := {\"k\": \"s\"}\nfn one_() {\nreturn 1\n}\nq_ := one_() \u{1}- w_.k\n"),
    ("zero divisor held by a variable", "w_ := 0\nq_ := 5 \u{1}/ w_\n"),
    ("zero divisor of a variable", "w_ := 5\nq_ := w_ \u{1}% 0\n"),
    ("undefined name indexing a list variable", "w_ := [1]\nq_ := w_[\u{1}y_]\n"),
    ("undefined name indexing a string variable", "w_ := \"s\"\nq_ := w_[\u{1}y_]\n"),
    ("undefined name as a key of an object variable", "w_ := {}\nq_ := w_[\u{1}y_]\n"),
    ("undefined list variable indexed by a variable", "v_ := 0\nq_ := \u{1}y_[v_]\n"),
    ("undefined name as an argument of a variable callee", "fn one_(a) {\nreturn a\n}\nq_ := one_(\u{1}y_)\n"),
    ("undefined name after a four-byte character in a string on the line", "w_ := \"🎉\"; q_ := \u{1}y_\n"),
    ("undefined name after four-byte characters in a comment above and a string on the line", "# 🎉🎉\nw_ := [\"a🎉b\", \"🎉\"]; q_ := w_[0] + \u{1}y_\n"),
    ("undefined name as the second target of a list assignment", "p_ := 0\n[p_, \u{1}y_] = [1, 2]\n"),
    ("undefined name as the first target of a list assignment", "p_ := 0\n[\u{1}y_, p_] = [1, 2]\n"),
    ("undefined name as a nested target of a list assignment", "p_ := 0\nr_ := 0\n[p_, [r_, \u{1}y_]] = [1, [2, 3]]\n"),
    ("undefined name as a target of an object assignment", "p_ := 0\n{\"a\": p_, \"b\": \u{1}y_} = {\"a\": 1, \"b\": 2}\n"),
    ("undefined name as a collect target of a list assignment", "p_ := 0\n[p_, ..\u{1}y_] = [1, 2]\n"),
    ("undefined name op-assigned inside a function", "fn sum_() {\n\u{1}y_ += 1\n}\n\u{2}sum_()\n"),
    ("recursion from one call site", "fn rec_(n) {\nif n == 0 {\nreturn \u{1}u_\n}\nreturn \u{2}\u{7}\u{7}rec_(n - 1)\n}\nq_ := \u{3}rec_(3)\n"),
    ("missing property named by a pair pattern", "{\u{1}\"k\": p_} := {}\n"),
    ("missing property named by a shorthand pattern", "{\u{1}p_} := {}\n"),
    ("missing property named by the second entry of a pattern", "{\"a\": p_, \u{1}\"k\": [q_, r_]} := {\"a\": 1}\n"),
    ("missing property named by a parameter pattern", "fn f_(a_, {\u{1}\"k\": p_}) {\n}\n\u{2}f_(1, {})\n"),
    ("missing property named by an assignment pattern", "p_ := 0\n{\u{1}\"k\": p_} = {\"j\": 1}\n"),
    ("parameter name repeated in a called function value", "g_ := fn (a_, \u{1}a_) {\n}\n\u{2}g_(1, 2)\n"),
    ("parameter name repeated inside a pattern of a called function value", "g_ := fn (a_, [b_, \u{1}a_]) {\n}\n\u{2}g_(1, [2, 3])\n"),
    ("name repeated in a list pattern", "[a_, \u{1}a_] := [1, 2]\n"),
    ("name repeated inside the list pattern of one parameter", "fn f_([a_, \u{1}a_]) {\n}\n"),
    ("name repeated inside the object pattern of one parameter", "fn f_({k_, \"j\": \u{1}k_}) {\n}\n"),
    ("name repeated in a nested pattern of the second parameter", "fn f_(z_, [a_, [b_, \u{1}a_]]) {\n}\n"),
    ("name used three times inside one parameter pattern", "fn f_([a_, \u{1}a_, a_]) {\n}\n"),
    ("name repeated across two parameter patterns", "fn f_([a_, b_], {\"k\": \u{1}a_}) {\n}\n"),
    ("name repeated by the collector of a parameter pattern", "fn f_([a_, ..\u{1}a_]) {\n}\n"),
    ("two different names repeated inside one parameter pattern", "fn f_([a_, b_, \u{1}b_, a_]) {\n}\n"),
    ("name repeated inside a pattern of a called function value with one parameter", "g_ := fn ([a_, \u{1}a_]) {\n}\n\u{2}g_([1, 2])\n"),
    ("negative index in an assignment target", "w_ := [1]\nw_[\u{1}-1] = 2\n"),
    ("negative index in an op-assignment target", "w_ := [1]\nw_[\u{1}0 - 1] += 2\n"),
    ("string index in a list assignment target", "w_ := [1]\nw_[\u{1}\"a\"] = 2\n"),
    ("integer key in an object assignment target", "w_ := {\"a\": 1}\nw_[\u{1}1] = 2\n"),
    ("null key in an object op-assignment target", "w_ := {\"a\": 1}\nw_[\u{1}null] += 2\n"),
    ("negative index in a nested assignment target", "w_ := [[1]]\nw_[0][\u{1}-1] = 2\n"),
    ("negative index of a target inside a pattern", "w_ := [1]\n[w_[\u{1}-1]] = [2]\n"),
    ("negative index of a loop target", "w_ := [1]\nfor w_[\u{1}-1] in [2] {\n}\n"),
    ("negative index in an assignment target inside a function", "w_ := [1]\nfn set_(i) {\nw_[\u{1}i] = 2\n}\n\u{2}set_(-1)\n"),
    ("negative start bound in a range assignment target", "w_ := [1, 2]\nw_[\u{1}-1:1] = [2]\n"),
    ("string end bound in a range assignment target", "w_ := [1, 2]\nw_[0:\u{1}\"a\"] = [2]\n"),
    ("failing modulo assignment", "v_ := 5\nv_ \u{1}%= 0\n"),
    ("failing modulo assignment before a line break", "v_ := 5\nv_ \u{1}%=\n0\n"),
    ("failing division assignment on an element", "w_ := [5]\nw_[0] \u{1}/= 0\n"),
    ("failing modulo assignment of a string", "v_ := \"s\"\nv_ \u{1}%= 2\n"),
    ("break outside a loop", "if true {\n\u{1}break\n}\n"),
    ("continue outside a loop", "\u{1}continue\n"),
    ("return outside a function", "{\n\u{1}return 1\n}\n"),
    ("stack trace", "fn f_() {\nreturn \u{1}u_\n}\nfn g_() {\nreturn 1 + \u{2}f_()\n}\nq_ := [\u{3}g_()]\n"),
    ("stack trace through a method and a callback", "o_ := {\"m\": fn (c) {\nreturn \u{2}c()\n}}\nq_ := \u{3}o_.m(fn () {\nreturn 1 \u{1}- \"a\"\n})\n"),
    ("break leaving a function", "fn b_() {\n\u{1}break\n}\nfor e_ in [1] {\n\u{2}b_()\n}\n"),
];

/// wrappers for an expression-level offender: `@` is the snippet's last line expression
const WRAPPERS: [(&str, &str); 6] = [
    ("bare", "q_ := @\n"),
    ("operand", "q_ := 1 + @\n"),
    ("argument", "q_ := [@, 2]->type(@)\n"),
    ("index", "q_ := [1, 2][@]\n"),
    ("call target", "q_ := @(1)\n"),
    ("parenthesised", "q_ := 1 + (  @)\n"),
];
const EXPR_OFFENDERS: &[(&str, &str, &str)] = &[
    ("undefined name", "", "\u{1}y_"),
    ("non-function callee", "w_ := 0\n", "\u{1}w_()"),
    ("wrong argument count", "fn nf_(a) {\nreturn a\n}\n", "\u{1}nf_(1, 2)"),
    ("operator type error", "", "1 \u{1}+ \"a\""),
    ("overflow", "", "9223372036854775807 \u{1}* 2"),
];

fn extract_markers(s: &str) -> (String, Vec<usize>) {
    let mut out = String::new();
    let mut marks: Vec<(u32, usize)> = vec![];
    for c in s.chars() {
        if c == '\u{7}' {
            // the previous mark once more (a frame that occurs twice in the trace)
            if let Some(&(id, off)) = marks.last() {
                marks.push((id, off));
            }
        } else if (c as u32) >= 1 && (c as u32) <= 8 {
            marks.push((c as u32 * 10, out.len()));
        } else {
            out.push(c);
        }
    }
    marks.sort();
    (out, marks.into_iter().map(|m| m.1).collect())
}

struct Expect {
    positions: Vec<Pos>,
    paren_pos: Option<Pos>,
}

fn make_case(prefix: &str, indent: &str, snippet: &str, what: String, tag: u32) -> (Case, Expect) {
    let (clean, marks) = extract_markers(snippet);
    // the indentation applies to the last line of the snippet (the offender's line for
    // single-line offenders); earlier lines stay as they are
    let src = format!("{}{}{}", prefix, indent, clean);
    let base = prefix.len() + indent.len();
    let positions: Vec<Pos> = marks.iter().map(|m| off_to_pos(&src, base + m)).collect();
    let paren_pos = clean.find("(  ").map(|i| off_to_pos(&src, base + i));
    let meta = format!("{}\u{1}{}", what, positions.iter().map(|p| format!("{}:{}", p.0, p.1)).collect::<Vec<_>>().join(","));
    let mut c = Case::new(src, tag, meta);
    c.nontrivial = true;
    (c, Expect { positions, paren_pos })
}

fn prefixes(max: usize) -> Vec<String> {
    let mut out = vec![String::new()];
    let n = PIECES.len();
    for len in 1..=max {
        for idx in 0..n.pow(len as u32) {
            let mut s = String::new();
            let mut x = idx;
            for k in 0..len {
                s.push_str(&PIECES[x % n].replace('%', &format!("{}", k)));
                x /= n;
            }
            out.push(s);
        }
    }
    out
}

/// reference position log in the traversal order of `dbg::conv_*`
fn ref_poslog(prog: &[Stmt]) -> Vec<(String, Pos)> {
    fn kind(e: &Expr) -> &'static str {
        match &*e.k {
            EK::Null => "Null",
            EK::Bool(_) => "Bool",
            EK::Int(_) => "Int",
            EK::Str(_) | EK::Interp(_) => "Str",
            EK::Var(_) => "Var",
            EK::Bin { .. } => "BinaryOp",
            EK::Range { .. } => "Range",
            EK::List { .. } => "List",
            EK::Object { .. } => "Object",
            EK::Index { .. } => "Index",
            EK::RangeIndex { .. } => "RangeIndex",
            EK::Prop { .. } => "Prop",
            EK::Func { .. } => "Func",
            EK::Call { .. } => "Call",
        }
    }
    fn ex(e: &Expr, log: &mut Vec<(String, Pos)>) {
        log.push((format!("expr:{}", kind(e)), e.ppos));
        match &*e.k {
            EK::Interp(pieces) => {
                // the source position of each slot's first character (two after its `$`)
                for p in pieces {
                    if let crate::refm::lex::Piece::Slot { pos, .. } = p {
                        log.push(("slot".to_string(), (pos.0, pos.1 + 2)));
                    }
                }
            }
            EK::Bin { op, op_pos, l, r } => {
                log.push((format!("op:{}", op.sym()), *op_pos));
                ex(l, log);
                ex(r, log);
            }
            EK::Range { l, r } => {
                ex(l, log);
                ex(r, log);
            }
            EK::List { items, .. } => {
                for it in items {
                    ex(&it.e, log);
                }
            }
            EK::Object { props } => {
                for p in props {
                    match p {
                        Prop::Pair { k, v } => {
                            ex(k, log);
                            ex(v, log);
                        }
                        Prop::Single { e, .. } => ex(e, log),
                    }
                }
            }
            EK::Index { e, i } => {
                ex(e, log);
                ex(i, log);
            }
            EK::RangeIndex { e, a, b } => {
                ex(e, log);
                if let Some(a) = a {
                    ex(a, log);
                }
                if let Some(b) = b {
                    ex(b, log);
                }
            }
            EK::Prop { e, .. } => ex(e, log),
            EK::Func { params, body, .. } => {
                for p in params {
                    ex(p, log);
                }
                block(body, log);
            }
            EK::Call { f, args } => {
                ex(f, log);
                for a in args {
                    ex(&a.e, log);
                }
            }
            _ => {}
        }
    }
    fn block(b: &[Stmt], log: &mut Vec<(String, Pos)>) {
        for s in b {
            match s {
                Stmt::Block(b) => block(b, log),
                Stmt::Expr(e) => ex(e, log),
                Stmt::Declare(l, r) | Stmt::Assign(l, r) => {
                    ex(l, log);
                    ex(r, log);
                }
                Stmt::OpAssign { lhs, op, op_pos, rhs } => {
                    log.push((format!("opassign:{}", op.sym()), *op_pos));
                    ex(lhs, log);
                    ex(rhs, log);
                }
                Stmt::If { branches, els } => {
                    for (c, b) in branches {
                        ex(c, log);
                        block(b, log);
                    }
                    if let Some(b) = els {
                        block(b, log);
                    }
                }
                Stmt::While(c, b) => {
                    ex(c, log);
                    block(b, log);
                }
                Stmt::For { lhs, iter, body } => {
                    ex(lhs, log);
                    ex(iter, log);
                    block(body, log);
                }
                Stmt::Break(p) => log.push(("break".into(), *p)),
                Stmt::Continue(p) => log.push(("continue".into(), *p)),
                Stmt::Func { name_pos, params, body, .. } => {
                    log.push(("fnname".into(), *name_pos));
                    for p in params {
                        ex(p, log);
                    }
                    block(body, log);
                }
                Stmt::Return(p, e) => {
                    log.push(("return".into(), *p));
                    ex(e, log);
                }
            }
        }
    }
    let mut log = vec![];
    block(prog, &mut log);
    log
}

fn judge_tokens(src: &str, dump: &str) -> Result<(), String> {
    let (raw, err) = lex_raw(src);
    let toks = suppress_terminators(raw);
    let lines: Vec<&str> = dump.lines().collect();
    for (i, t) in toks.iter().enumerate() {
        let l = match lines.get(i) {
            Some(l) => l,
            None => return Err(format!("the token stream ends after {} tokens, the reference lexer finds {}", lines.len(), toks.len())),
        };
        let (pos, text) = match parse_token_line(l) {
            Some(x) => x,
            None => return Err(format!("token {} is {:?}, the reference lexer finds {:?}", i, l, t.tok)),
        };
        let is_nl = t.tok == Tok::End && &src[t.start..t.end] == "\n";
        if is_nl {
            if text != "StmtEnd" {
                return Err(format!("token {} is {}, the reference lexer finds a statement end", i, text));
            }
            continue; // position convention of the newline token is open
        }
        if pos != t.pos {
            return Err(format!("token {} ({}) starts at {}:{}, counting characters gives {}:{}", i, text, pos.0, pos.1, t.pos.0, t.pos.1));
        }
    }
    match err {
        None => {
            if lines.len() != toks.len() {
                return Err(format!("{} tokens, the reference lexer finds {}", lines.len(), toks.len()));
            }
        }
        Some(e) => {
            // the dump ends with the lexical error; its position is the offending character
            let last = lines.last().copied().unwrap_or("");
            if !last.starts_with("Err(") {
                return Err(format!("the reference lexer reports {:?} but the token stream has no error", e.kind));
            }
            if !e.at_newline {
                let want = format!("(({}, {})", e.pos.0, e.pos.1);
                if !last.contains(&want) {
                    return Err(format!("lexical error {:?}: position in {:?} is not {}:{}", e.kind, last, e.pos.0, e.pos.1));
                }
            }
        }
    }
    Ok(())
}

fn judge_ast(src: &str, dump: &str) -> Result<(), String> {
    let prog = match parse_prog(src) {
        Ok(p) => p,
        Err(_) => return Ok(()),
    };
    let got = match conv_prog_dump(dump) {
        Ok(Some((_, log))) => log,
        Ok(None) => return Err("the reference parser accepts the text, the real parser rejects it".to_string()),
        Err(e) => return Err(format!("unreadable AST dump: {}", e)),
    };
    let want = ref_poslog(&prog);
    if got.len() != want.len() {
        return Err(format!("{} positions in the tree, the reference parser has {}", got.len(), want.len()));
    }
    for (g, w) in got.iter().zip(want.iter()) {
        if g.0 != w.0 {
            return Err(format!("tree shape differs at {} vs {}", g.0, w.0));
        }
        if g.1 != w.1 {
            return Err(format!("{} is stored at {}:{}, its first token is at {}:{}", g.0, g.1 .0, g.1 .1, w.1 .0, w.1 .1));
        }
    }
    Ok(())
}

impl Check for C18 {
    fn id(&self) -> &'static str {
        "C18"
    }

    fn run(&self, ctx: &mut Ctx) -> Result<(), MachineryError> {
        let max_prefix = ctx.tier.pick(3usize, 5usize);
        let pre = prefixes(max_prefix);
        let corp = corpus();
        ctx.rule = format!(
            "(A) {} offenders (lexical, syntax, undefined name read / assigned / op-assigned / shorthand, operator type error and overflow on expressions and on op-assignment to variable / element / property / key, non-function callee, argument count, redeclaration, jumps outside their construct, stack-trace lines through named / method / callback calls) x every sequence of <= {} layout pieces from {} (newline, space, tab, CR LF, comment with multi-byte text, statement + newline, statement + `;`, multi-line string, multi-line literal, multi-byte string on the same line) = {} prefixes x 3 in-line indentations; 5 expression offenders x 6 wrappers (bare, operand, argument, index, call target, parenthesised) x prefixes of <= 2 pieces; expected position = where the generator put the token, counted in characters; (B) corpus of {} programs x every single layout edit: every token start and every position stored in the syntax tree equals the reference lexer's / parser's; non-trivial = all",
            OFFENDERS.len(),
            max_prefix,
            PIECES.len(),
            pre.len(),
            corp.len()
        );
        ctx.rule.push_str("; a position cited inside a message (`at [L:C]`) must be an earlier occurrence of the quoted name");
        // (A)
        let mut batch: Vec<Case> = vec![];
        let mut n_a = 0u64;
        for (name, snip) in OFFENDERS {
            for p in &pre {
                for ind in INDENTS {
                    // indentation goes before the first line of the snippet
                    let (c, _e) = make_case(p, ind, snip, name.to_string(), 1);
                    batch.push(c);
                    n_a += 1;
                }
            }
            if batch.len() >= 60_000 {
                ctx.judge(std::mem::take(&mut batch), |c, r, o| self.oracle(c, r, o))?;
            }
        }
        let short_pre = prefixes(2);
        for (name, setup, e) in EXPR_OFFENDERS {
            for (wn, w) in WRAPPERS {
                let is_op = name.starts_with("operator") || name.starts_with("overflow");
                if is_op && (wn == "operand" || wn == "call target") {
                    continue;
                }
                let snippet = format!("{}{}", setup, w.replacen('@', e, 1).replace('@', "0"));
                for p in &short_pre {
                    for ind in ["", "\t "] {
                        let (c, _e) = make_case(p, ind, &snippet, format!("{} as {}", name, wn), if wn == "parenthesised" { 2 } else { 1 });
                        batch.push(c);
                        n_a += 1;
                    }
                }
            }
        }
        ctx.judge(std::mem::take(&mut batch), |c, r, o| self.oracle(c, r, o))?;
        // (B') offenders inside interpolation slots: the diagnostic carries the source position of
        // the slot's first character and the position of the offender relative to it; together they
        // are the true position of the token -- whatever precedes the slot inside the literal
        // (escapes, multi-byte text, line breaks, other slots) and whatever pads the slot
        {
            let befores = ["", "ab", "é€", "\\n", "\\x41\\$", "\\\"", "\n", "a\nbé", "${x}", "${x} é\\n${x}", "\\\\${x}\n"];
            let pads = ["", "  ", "\n", " \n\t "];
            let offs = ["\u{1}y_", "x \u{1}+ 1", "\u{1}nf_()", "x + \u{1}y_", "x +\n \u{1}y_"];
            let afters = ["", "${x}", "é"];
            for stmt_pre in ["", "    ", "\n\n\t"] {
                for b in befores {
                    for pad in pads {
                        for off in offs {
                            for a in afters {
                                let text = format!("x := \"X\"\nfn nf_(p) {{\nreturn p\n}}\n{}q_ := $\"{}${{{}{}}}{}\"\n", stmt_pre, b, pad, off, a);
                                let (clean, marks) = extract_markers(&text);
                                let tok = off_to_pos(&clean, marks[0]);
                                // the slot's first character: after the last `${` before the marker
                                let open = clean[..marks[0]].rfind("${").unwrap() + 2;
                                let slot = off_to_pos(&clean, open);
                                let rel = if tok.0 == slot.0 { (1, tok.1 - slot.1 + 1) } else { (tok.0 - slot.0 + 1, tok.1) };
                                batch.push(Case::new(clean, 6, format!("{} {} {} {}\u{1}offender {:?} after {:?} with padding {:?}", slot.0, slot.1, rel.0, rel.1, off, b, pad)));
                                n_a += 1;
                            }
                        }
                    }
                }
            }
            // two textually identical literals at different places, the later one failing
            for (pre2, lit, inner) in [("    ", "$\"${\"ab\"[k_]}\"", (1u32, 1u32)), ("", "$\"é${\"ab\"[k_]}\"", (1, 1)), ("\t", "$\"${w_}${\"ab\"[k_]}\"", (1, 1))] {
                let src = format!("k_ := 0\nw_ := \"w\"\na_ := {}\nk_ = 5\n{}q_ := {}\n", lit, pre2, lit);
                let second = src.rfind("${\"ab\"").unwrap() + 2;
                let slot = off_to_pos(&src, second);
                batch.push(Case::new(src, 6, format!("{} {} {} {}\u{1}the second of two identical literals fails", slot.0, slot.1, inner.0, inner.1)));
            }
            ctx.judge(std::mem::take(&mut batch), |c, r, o| self.oracle(c, r, o))?;
        }
        // (C) offenders that are a newline or the end of the file: the position convention is
        // open, but it must be a function of where the newline is: text inserted before it on
        // the same line does not change the report, lines inserted above shift it by lines
        let nl_bases: [&str; 8] = [
            "print(1\n",
            "x := [1, 2\nprint(x)\n",
            "x := {\"a\": 1\n}\n",
            "if true\n{\n}\n",
            "fn f()\n{\n}\n",
            "x := 1 ..\n2\n",
            "print(1)",
            "x := (1 +\n2\n",
        ];
        let base_cases: Vec<Case> = nl_bases.iter().map(|b| Case::new(b.to_string(), 4, "newline offender base".to_string())).collect();
        let base_j = ctx.judge(base_cases, |_c, _r, _o| Verdict::Pass)?;
        for j in &base_j {
            let base_pos = match parse_pos(&j.o.msg) {
                Some((p, _)) if j.o.class == Class::Err => p,
                _ => continue,
            };
            // the offending newline ends line (base_pos.0 - 1) when the report uses column 0,
            // otherwise the reported line itself
            let src = &j.case.src;
            let nl_line = if base_pos.1 == 0 { base_pos.0 - 1 } else { base_pos.0 };
            let mut off = 0usize;
            let mut line = 1u32;
            for (i, ch) in src.char_indices() {
                if line == nl_line && ch == '\n' {
                    off = i;
                    break;
                }
                if ch == '\n' {
                    line += 1;
                }
                off = i + ch.len_utf8();
            }
            for ins in [" ", "\t", " # c é€", "   # x := 1", " \t # )"] {
                let mut v = src.clone();
                v.insert_str(off, ins);
                batch.push(Case::new(v, 3, format!("newline / end-of-file offender with {:?} before it\u{1}{}:{}", ins, base_pos.0, base_pos.1)));
            }
            for (pre, k) in [("\n", 1u32), ("\n\n", 2), ("y_ := 1\n", 1), ("# c\n\n", 2)] {
                batch.push(Case::new(format!("{}{}", pre, src), 3, format!("newline / end-of-file offender with {:?} above it\u{1}{}:{}", pre, base_pos.0 + k, base_pos.1)));
            }
        }
        ctx.judge(std::mem::take(&mut batch), |c, r, o| self.oracle(c, r, o))?;
        // (B)
        let mut n_b = 0u64;
        for (name, src) in &corp {
            let mut variants: Vec<(String, String)> = vec![(src.clone(), "original".to_string())];
            for e in edits(src) {
                variants.push((e.text, e.desc));
            }
            for (text, desc) in variants {
                for (mode, tag) in [(Mode::Tokens, 10u32), (Mode::Ast, 11u32)] {
                    let mut c = Case::new(text.clone(), tag, format!("{} [{}]", name, desc));
                    c.mode = mode;
                    c.no_ref = true;
                    batch.push(c);
                    n_b += 1;
                }
            }
            if batch.len() >= 60_000 {
                ctx.judge(std::mem::take(&mut batch), |c, r, o| self.oracle(c, r, o))?;
                if ctx.over_cap() {
                    break;
                }
            }
        }
        ctx.judge(std::mem::take(&mut batch), |c, r, o| self.oracle(c, r, o))?;
        ctx.extra.insert(
            "bounds".into(),
            json!({"offenders": OFFENDERS.len(), "layout_pieces": PIECES.len(), "max_prefix_pieces": max_prefix, "prefixes": pre.len(),
                   "offender_cases": n_a, "corpus_programs": corp.len(), "token_and_tree_dumps": n_b}),
        );
        Ok(())
    }

    fn oracle(&self, c: &Case, _r: &RefOutcome, o: &Outcome) -> Verdict {
        match c.tag {
            6 => {
                let (nums, what) = c.meta.split_once('\u{1}').unwrap_or((c.meta.as_str(), ""));
                let n: Vec<u32> = nums.split(' ').filter_map(|x| x.parse().ok()).collect();
                if o.class != Class::Err {
                    return viol("offender-not-reported", format!("{}: expected a diagnostic, the run ended {:?} printing {:?}", what, o.class, o.out_str()));
                }
                let first = o.msg.lines().next().unwrap_or("");
                let got = parse_pos(first).and_then(|(outer, rest)| parse_pos(rest).map(|(inner, _)| (outer, inner)));
                match got {
                    Some((outer, inner)) if outer == (n[0], n[1]) && inner == (n[2], n[3]) => Verdict::Pass,
                    _ => viol(
                        "slot-position",
                        format!("{}: the slot starts at {}:{} and the offender is at {}:{} within it; reported {:?}", what, n[0], n[1], n[2], n[3], first),
                    ),
                }
            }
            1 | 2 => {
                let (what, poss) = c.meta.split_once('\u{1}').unwrap_or((c.meta.as_str(), ""));
                let want: Vec<Pos> = poss
                    .split(',')
                    .filter(|s| !s.is_empty())
                    .map(|s| {
                        let (a, b) = s.split_once(':').unwrap();
                        (a.parse().unwrap(), b.parse().unwrap())
                    })
                    .collect();
                if o.class != Class::Err {
                    return viol("offender-not-reported", format!("{}: expected a diagnostic, the run ended {:?} printing {:?}", what, o.class, o.out_str()));
                }
                let mut got: Vec<Pos> = vec![];
                for (i, line) in o.msg.lines().enumerate() {
                    if i == 0 {
                        if let Some((p, _)) = parse_pos(line) {
                            got.push(p);
                        }
                    } else if let Some(rest) = line.trim_start().strip_prefix("case.sd:") {
                        if let Some((p, _)) = parse_pos(rest) {
                            got.push(p);
                        }
                    }
                }
                if got.len() != want.len() {
                    return viol("position", format!("{}: expected {} located lines (diagnostic + stack trace), got {:?} in {:?}", what, want.len(), got, o.msg));
                }
                for (k, (g, w)) in got.iter().zip(want.iter()).enumerate() {
                    if g != w {
                        // the known shape: an offender directly wrapped in parentheses is
                        // reported at the opening parenthesis
                        if c.tag == 2 {
                            if let Some(i) = c.src.find("(  ") {
                                if *g == off_to_pos(&c.src, i) {
                                    return viol("position-of-parenthesised-offender", format!("{}: reported at the opening parenthesis {}:{}, the offending token is at {}:{}", what, g.0, g.1, w.0, w.1));
                                }
                            }
                        }
                        return viol(
                            "position",
                            format!("{}: {} is reported at {}:{}, the generator put the token at {}:{} (characters, 1-based): {:?}", what, if k == 0 { "the diagnostic".to_string() } else { format!("stack-trace line {}", k) }, g.0, g.1, w.0, w.1, o.msg.lines().next().unwrap_or("")),
                        );
                    }
                }
                // a position cited inside the message (`... at [L:C]`) is the true position of an
                // earlier occurrence of the name the message quotes
                let first = o.msg.lines().next().unwrap_or("");
                if let Some(i) = first.find(" at [") {
                    let cited = &first[i + 5..];
                    let quoted: Vec<&str> = first[..i].split('\'').collect();
                    // the last quoted text before the citation
                    if let (Some(end), true) = (cited.find(']'), quoted.len() >= 3) {
                        let name = quoted[quoted.len() - 2];
                        if let Some((l, col)) = cited[..end].split_once(':') {
                            if let (Ok(l), Ok(col)) = (l.parse::<u32>(), col.parse::<u32>()) {
                                if (l, col) == (0, 0) {
                                    // what the interpreter itself declares (`print`) has no place in the script
                                    return Verdict::Pass;
                                }
                                let ok = crate::layout::pos_to_off(&c.src, (l, col)).map(|off| c.src[off..].starts_with(name)).unwrap_or(false);
                                let before = got.first().map(|g| (l, col) < *g).unwrap_or(true);
                                if !ok || !before {
                                    return viol("position", format!("{}: the message cites {}:{} for '{}', which is not an earlier occurrence of that name: {:?}", what, l, col, name, first));
                                }
                            }
                        }
                    }
                }
                Verdict::Pass
            }
            3 => {
                let (what, pos) = c.meta.split_once('\u{1}').unwrap();
                let (a, b) = pos.split_once(':').unwrap();
                let want: Pos = (a.parse().unwrap(), b.parse().unwrap());
                match parse_pos(&o.msg) {
                    Some((p, _)) if o.class == Class::Err && p == want => Verdict::Pass,
                    other => viol("newline-offender-translation", format!("{}: the report must be {}:{} (the same convention as without the inserted text), got {:?}: {:?}", what, want.0, want.1, other.map(|x| x.0), o.msg)),
                }
            }
            10 => match judge_tokens(&c.src, &o.out_str()) {
                Ok(()) => Verdict::Pass,
                Err(e) => viol("token-position", format!("{}: {}", c.meta, e)),
            },
            11 => match judge_ast(&c.src, &o.out_str()) {
                Ok(()) => Verdict::Pass,
                Err(e) => viol("tree-position", format!("{}: {}", c.meta, e)),
            },
            _ => Verdict::Pass,
        }
    }
}
