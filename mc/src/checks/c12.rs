//! C12 — objects behave as string-keyed maps with deterministic key order.
//! (1) Breadth-first exploration of all histories of insert / overwrite /
//! op-assign through `[]` and `.`, spread, collect and alias operations on two
//! objects over six keys (identifier, upper-case twin, empty, with a space,
//! digit), merged on the sorted contents of the objects; every history is
//! completed by printing, iterating, reading every present key both ways,
//! comparing the objects and reading an absent key.  (2) All object literals
//! of up to three entries over pairs, computed names, shorthands and spreads.
//! Oracle: reference model (sorted association list).
use super::Check;
use crate::engine::*;
use crate::explore::{bfs, Alphabet, CURSOR_MARK};
use crate::refm::eval::{run_prog_keep, Interp, RefOutcome, SVal, Val};
use crate::refm::parse::parse_prog;
use crate::subject::{Class, MachineryError, Outcome};
use serde_json::json;
use std::collections::HashMap;

pub struct C12;

const KEYS: [&str; 6] = ["a", "b", "B", "", "a b", "1"];
const PRELUDE: &str = "o := {}\np := {}\na := 100\nb := 200\nka := \"a\"\n";

fn ops() -> Vec<String> {
    let mut v = vec![];
    for k in KEYS {
        v.push(format!("o[\"{}\"] = K", k));
    }
    for k in ["a", "B", ""] {
        v.push(format!("p[\"{}\"] = K", k));
    }
    for k in ["a", "b", "B"] {
        v.push(format!("o.{} = K", k));
    }
    for s in [
        "o[\"a\"] += 1",
        "o.a += 1",
        "o[\"B\"] += 1",
        "o.b += 1",
        "o[\"\"] += 1",
        "o.zz += 1",
        "o[\"zz\"] += 1",
        "p = {o..}",
        "p = {o.., \"a\": K}",
        "p = {\"a\": K, o..}",
        "p = {o.., a}",
        "p = {a, o..}",
        "p = {o.., p..}",
        "p = {p.., o..}",
        "{..p} = o",
        "{\"a\": _, ..p} = o",
        "{b, ..p} = o",
        "o = {}",
        "o = p",
        "p = o",
        "o.a = o.b",
        "o[\"a b\"] = o[\"a\"]",
        "o[\"a\"] = p",
        "o[\"B\"] = p",
        "o.b = {\"z\": K}",
        "o[\"cur\"] = \"a\"",
        "o[o[\"cur\"]] = K",
        "o[o.cur] += 1",
        "print(o[o.cur])",
        "p[\"a\"] = o[o[\"cur\"]]",
        "o[$\"${ka}\"] = K",
        "o[$\"${ka} b\"] = K",
        "o[ka] = K",
        "o[\"a\"] = 1",
        "o[\"b\"] = 1",
        "p[\"B\"] = 1",
        "p[\"a\"] = 1",
        "p[\"1\"] = 1",
    ] {
        v.push(s.to_string());
    }
    v
}

#[derive(Clone)]
pub struct St {
    ops: Vec<u16>,
    text: String,
    next_k: u32,
}

struct Alpha {
    ops: Vec<String>,
}

fn obj_of<'a>(it: &'a Interp, name: &str) -> Option<(usize, &'a std::collections::BTreeMap<String, SVal>)> {
    match it.top_var(name) {
        Some(SVal { v: Val::Obj(a), .. }) => Some((*a, it.obj(*a))),
        _ => None,
    }
}

fn analyse(text: &str) -> (String, String) {
    let prog = match parse_prog(text) {
        Ok(p) => p,
        Err(_) => return (String::new(), String::new()),
    };
    let (_out, it) = run_prog_keep(&prog, REF_BUDGET);
    let mut suffix = String::from("print(o)\nprint(p)\nfor [k, v] in o {\nprint(k)\nprint(v)\n}\nfor e in p {\nprint(e)\n}\nprint(o == p)\nprint(p == o)\nprint(o === p)\n");
    let mut key = String::new();
    let mut ints: HashMap<i64, usize> = HashMap::new();
    let mut absent = "zz".to_string();
    let o = obj_of(&it, "o");
    let p = obj_of(&it, "p");
    for (name, ob) in [("o", &o), ("p", &p)] {
        key.push_str(name);
        key.push('{');
        if let Some((_, m)) = ob {
            for (k, v) in m.iter() {
                let vs = match &v.v {
                    Val::Int(n) if *n >= 1000 => {
                        let l = ints.len();
                        format!("k{}", *ints.entry(*n).or_insert(l))
                    }
                    Val::Int(n) => format!("i{}", n),
                    Val::Obj(a2) => {
                        // nested object: identity (against o / p) and contents
                        let who = if o.as_ref().map(|x| x.0) == Some(*a2) { "=o" } else if p.as_ref().map(|x| x.0) == Some(*a2) { "=p" } else { "" };
                        let inner: Vec<String> = it.obj(*a2).iter().map(|(k2, v2)| format!("{:?}:{}", k2, match &v2.v { Val::Int(n) if *n >= 1000 => { let l = ints.len(); format!("k{}", *ints.entry(*n).or_insert(l)) } Val::Int(n) => format!("i{}", n), other => format!("{:?}@{:?}", other.kind(), match other { Val::Obj(x) => *x, _ => 0 }) })).collect();
                        format!("O{}{{{}}}", who, inner.join(","))
                    }
                    Val::Str(sv) => format!("s{:?}", sv),
                    other => format!("{:?}", other.kind()),
                };
                key.push_str(&format!("{:?}:{},", k, vs));
            }
        }
        key.push('}');
    }
    if let (Some((ao, _)), Some((ap, _))) = (&o, &p) {
        key.push_str(if ao == ap { "alias" } else { "distinct" });
    }
    if let Some((_, m)) = &o {
        for k in m.keys() {
            suffix.push_str(&format!("print(o[\"{}\"])\n", k));
            if !k.is_empty() && k.chars().all(|c| c.is_ascii_alphanumeric()) && !k.chars().next().unwrap().is_ascii_digit() {
                suffix.push_str(&format!("print(o.{})\n", k));
            }
        }
        for k in KEYS {
            if !m.contains_key(k) {
                absent = k.to_string();
                break;
            }
        }
    }
    suffix.push_str("print(\"absent\")\n");
    suffix.push_str(&format!("print(o[\"{}\"])\n", absent));
    (suffix, key)
}

impl Alphabet for Alpha {
    type St = St;
    fn init(&self) -> St {
        St { ops: vec![], text: PRELUDE.to_string(), next_k: 1000 }
    }
    fn enabled(&self, _st: &St) -> Vec<u16> {
        (0..self.ops.len() as u16).collect()
    }
    fn apply(&self, st: &St, op: u16) -> St {
        let mut s = st.clone();
        s.ops.push(op);
        let t = &self.ops[op as usize];
        if t.contains('K') {
            s.text.push_str(&t.replace('K', &format!("{}", s.next_k)));
            s.next_k += 1;
        } else {
            s.text.push_str(t);
        }
        s.text.push('\n');
        s
    }
    fn program(&self, st: &St) -> String {
        let (suffix, _) = analyse(&st.text);
        format!("{}print(\"{}\")\n{}", st.text, CURSOR_MARK, suffix)
    }
    fn describe(&self, st: &St) -> String {
        st.ops.iter().map(|o| self.ops[*o as usize].clone()).collect::<Vec<_>>().join(" ; ")
    }
    fn nontrivial(&self, st: &St) -> bool {
        st.ops.len() >= 2
    }
    fn key(&self, st: &St, _prog: &str, _r: &RefOutcome, _o: &Outcome) -> u64 {
        h64(&analyse(&st.text).1)
    }
}

const ENTRIES: [&str; 12] = [
    "\"a\": 1",
    "\"b\": 2",
    "ka: 3",
    "a",
    "b",
    "x..",
    "y..",
    "\"\": 4",
    "t(\"a\"): t(5)",
    "t(\"c\"): t(6)",
    "\"a b\": 7",
    "B",
];

fn literal_cases(max_entries: usize) -> Vec<Case> {
    let pre = "a := 100\nb := 200\nB := 300\nka := \"a\"\nx := {\"a\": 7, \"c\": 8}\ny := {\"b\": 9}\nfn t(v) {\nprint(v)\nreturn v\n}\n";
    let mut out = vec![];
    let n = ENTRIES.len();
    for len in 0..=max_entries {
        for idx in 0..n.pow(len as u32) {
            let mut parts = vec![];
            let mut x = idx;
            for _ in 0..len {
                parts.push(ENTRIES[x % n]);
                x /= n;
            }
            let lit = format!("{{{}}}", parts.join(", "));
            let src = format!("{}r := {}\nprint(r)\nfor [k, v] in r {{\nprint(k)\n}}\nprint(r == {})\n", pre, lit, lit);
            out.push(Case::new(src, 500, format!("literal {}", lit)));
        }
    }
    // wide literals: a later entry for the same key replaces an earlier one at every size
    for n in [5usize, 10, 16, 20, 21, 22, 25, 33, 40, 64, 100] {
        let keys: Vec<String> = (0..n).map(|i| format!("k{:03}", (i * 7) % n)).collect();
        for dup in [0usize, 1, n / 2, n - 2, n - 1] {
            for at in [0usize, n / 3, n - 1] {
                // key `dup` is written once more at position `at` with a different value
                let mut parts: Vec<String> = keys.iter().enumerate().map(|(i, k)| format!("\"{}\": {}", k, i)).collect();
                parts.insert(at, format!("\"{}\": 999", keys[dup]));
                let lit = format!("{{{}}}", parts.join(", "));
                out.push(Case::new(format!("r := {}\nprint(r[\"{}\"])\nprint(r)\n", lit, keys[dup]), 500, format!("wide literal {} entries, key {} again at {}", n, dup, at)));
            }
        }
        // spread of a wide object before / after overriding pairs
        let wide = format!("{{{}}}", keys.iter().enumerate().map(|(i, k)| format!("\"{}\": {}", k, i)).collect::<Vec<_>>().join(", "));
        for k in [0usize, n / 2, n - 1] {
            out.push(Case::new(format!("w := {}\nr := {{\"{}\": 999, w..}}\nprint(r[\"{}\"])\ns := {{w.., \"{}\": 999}}\nprint(s[\"{}\"])\nprint(r == w)\nprint(s)\n", wide, keys[k], keys[k], keys[k], keys[k]), 500, format!("wide spread {} entries, override key {}", n, k)));
        }
    }
    // entries that must be rejected
    for bad in ["1: 2", "null: 1", "[\"a\"]: 1", "5", "\"a\"", "a + b", "3..", "..x", "[1]..", "zz", "x.a"] {
        for lit in [format!("{{{}}}", bad), format!("{{\"a\": 1, {}}}", bad), format!("{{{}, \"a\": 1}}", bad)] {
            out.push(Case::new(format!("{}print(\"pre\")\nr := {}\nprint(r)\n", pre, lit), 501, format!("bad literal {}", lit)));
        }
    }
    out
}

/// names that are not text, property values shared with other holders, interpolated names
fn extra_cases() -> Vec<Case> {
    let mut v = vec![];
    // op-assignment reads the property first, whatever the right operand is: every operator with
    // the operands that would leave a number unchanged, on missing and ill-typed properties
    for op in ["+=", "-=", "*=", "/=", "%="] {
        for rhs in ["0", "1", "-1", "\"\"", "[]", "{}", "z", "null"] {
            for (decl, target) in [
                ("o := {\"n\": 5}", "o.missing"), ("o := {\"n\": 5}", "o[\"missing\"]"), ("o := {\"n\": 5}", "o[k]"), ("o := {\"n\": \"s\"}", "o.n"), ("o := {\"n\": [1]}", "o[\"n\"]"),
                ("o := {\"n\": null}", "o.n"), ("o := {\"n\": {\"m\": 5}}", "o.n.q"), ("o := {\"n\": 5}", "o.n"), ("o := {\"n\": true}", "o.n"), ("o := {}", "o[\"\"]"),
            ] {
                v.push(Case::new(format!("{}\nk := \"other\"\nz := 0\nprint(\"pre\")\n{} {} {}\nprint(\"after\")\nprint(o)\n", decl, target, op, rhs), 601, format!("{} {} {} on {}", target, op, rhs, decl)));
            }
        }
    }
    // keys that look like the blank name, and properties that hold null, through every route
    for key in ["_", "__", "_x", "x_", "null", "this", "true", "print", "in"] {
        for val in ["1", "null", "\"s\""] {
            let dot_ok = !["null", "true", "in"].contains(&key);
            let mut progs = vec![
                "o := {}\no[\"K\"] = V\nprint(o)\nprint(o[\"K\"])\n".to_string(),
                "o := {\"K\": V, \"z\": 0}\nprint(o[\"K\"])\nk := \"K\"\nprint(o[k])\nprint(o[$\"${k}\"])\n".to_string(),
                "o := {\"K\": V}\n{\"K\": got} := o\nprint(got)\nfor [k, v] in o {\nprint([k, v])\n}\nprint({o..})\n{..rest} := o\nprint(rest)\n".to_string(),
                "o := {\"K\": V}\no[\"K\"] = [o[\"K\"]]\nprint(o)\np := {\"K\": V}\nprint(p == {\"K\": V})\n".to_string(),
                "o := {\"K\": V}\nfn get(ob, k) {\nreturn ob[k]\n}\nprint(get(o, \"K\"))\nprint(get(o, \"missing\"))\n".to_string(),
            ];
            if dot_ok {
                progs.push("o := {}\no.K = V\nprint(o)\nprint(o.K)\nprint(o[\"K\"])\no.K = [o.K]\nprint(o)\n".to_string());
                progs.push("o := {\"K\": 5}\no.K += 2\nprint(o)\no.K -= 1\nprint(o[\"K\"])\no[\"K\"] *= 3\nprint(o.K)\n".to_string());
                progs.push("o := {\"n\": {}}\no.n.K = V\nprint(o)\no.n.K = 7\nprint(o.n.K)\n".to_string());
            }
            for p in progs {
                v.push(Case::new(p.replace('K', key).replace('V', val), 601, format!("key {:?} holding {}", key, val)));
            }
        }
    }
    // a loop over an object walks the properties it had when the loop began, with the values they
    // had then
    for prog in [
        "stock := {\"apples\": 3, \"pears\": 5, \"total\": 0}\nfor [k, v] in stock {\nif k != \"total\" {\nstock.total += v\n}\nprint([k, v])\n}\nprint(stock)\n",
        "o := {\"a\": 1, \"b\": 2, \"c\": 3}\nfor [k, v] in o {\no.c = 30\no.b += 10\no[\"a\"] = \"x\"\nprint([k, v])\n}\nprint(o)\n",
        "o := {\"a\": [1], \"b\": [2]}\nfor [k, v] in o {\no.b = [20]\no.a[0] = 9\nprint([k, v])\n}\nprint(o)\n",
        "o := {\"a\": 1, \"b\": 2}\nseen := []\nfor [k, v] in o {\nfor [k2, v2] in o {\no[k2] = v2 * 10\n}\nseen += [[k, v]]\n}\nprint(seen)\nprint(o)\n",
        "o := {\"f\": fn () {\nreturn 1\n}, \"g\": 2}\nfor [k, v] in o {\no.g = fn () {\nreturn 3\n}\nprint([k, v->type()])\n}\n",
        "o := {\"a\": 1, \"b\": 2}\np := o\nfor [k, v] in o {\np.b = 99\np.c = 5\nprint([k, v])\n}\nfor [k, v] in p {\nprint([k, v])\n}\n",
    ] {
        v.push(Case::new(prog.to_string(), 601, "a loop over an object whose body writes to that object".to_string()));
    }
    // property names cut out of multi-byte characters: two different byte strings are two
    // different names (or both are rejected), never one
    let frags = ["\"é\"[0]", "\"é\"[1]", "\"ñ\"[1]", "\"€\"[1:3]", "\"€\"[0:2]", "\"a\"", "\"é\""];
    for k1 in frags {
        for k2 in frags {
            for prog in [
                "o := {}\nprint(\"pre\")\no[K1] = 1\nprint(\"one\")\no[K2] = 2\nprint(\"two\")\nn := 0\nfor e in o {\nn += 1\n}\nprint(n)\nprint(o[K1])\n",
                "print(\"pre\")\no := {K1: 1, K2: 2}\nn := 0\nfor e in o {\nn += 1\n}\nprint(n)\n",
                "o := {\"a\": 1}\nprint(\"pre\")\no[K1] += 1\nprint(\"after\")\n",
                "o := {\"a\": 1, \"é\": 2}\nprint(\"pre\")\n{K1: p, K2: q} := o\nprint(\"after\")\n",
            ] {
                v.push(Case::new(prog.replace("K1", k1).replace("K2", k2), 601, format!("names {} and {}", k1, k2)));
            }
        }
    }
    // a list or string held by a property and by something else: op-assignment through the
    // property builds a new value for that property only
    for val in ["[1]", "\"s\"", "{\"n\": 1}"] {
        let add = if val.starts_with('[') { "[2]" } else if val.starts_with('"') { "\"t\"" } else { "1" };
        for share in ["o := {\"p\": l, \"q\": l}", "o := {\"p\": l}\no.q = o.p", "o := {\"p\": l}\no[\"q\"] = l", "o1 := {\"p\": l}\no := {o1.., \"q\": o1.p}", "o := {\"p\": l, \"q\": [l][0]}"] {
            for upd in ["o.p += A", "o[\"p\"] += A", "k := \"p\"\no[k] += A", "o.p = o.p + A"] {
                if val.starts_with('{') {
                    continue;
                }
                v.push(Case::new(
                    format!("l := {}\n{}\n{}\nprint(o.p)\nprint(o.q)\nprint(l)\nprint(o.p == o.q)\n", val, share, upd.replace('A', add)),
                    601,
                    format!("shared property value {} / {} / {}", val, share.replace('\n', "; "), upd),
                ));
            }
        }
    }
    // entries collected from an iteration stay what they were; both read routes give the same
    // property, also as the receiver of a call
    for lit in ["{}", "{\"a\": 1}", "{\"b\": [2], \"a\": 1}", "{\"c\": 3, \"a\": 1, \"b\": 2}"] {
        v.push(Case::new(
            format!("o := {}\nes := []\nfor kv in o {{\nes += [kv]\n}}\nprint(es)\np := {{}}\nfor kv in es {{\np[kv[0]] = kv[1]\n}}\nprint(p == o)\nks := []\nfor [k, _] in o {{\nks += [k]\n}}\nprint(ks)\n", lit),
            601,
            format!("entries of {} collected from an iteration", lit),
        ));
    }
    v.push(Case::new(
        "base := {\"id\": \"B\", \"name\": fn () {\nreturn this.id\n}}\nd := {\"id\": \"D\", \"name\": base.name}\nprint(d.name())\nprint(d[\"name\"]())\nk := \"name\"\nprint(d[k]())\ne := {\"id\": \"E\"}\ne[\"name\"] = d[\"name\"]\nprint(e.name())\nprint(e[\"name\"]())\n".to_string(),
        601,
        "a function property read through . and through []".to_string(),
    ));
    for lit in ["{\"a\": 1, a}", "{a, \"a\": 1}", "{d.., a}", "{a, d..}", "{d.., a, \"a\": 3}", "{\"a\": 1, a, d..}"] {
        v.push(Case::new(format!("a := 2\nd := {{\"a\": 9, \"z\": 0}}\nprint({})\n", lit), 601, format!("shorthand against other entries {}", lit)));
    }
    // `.` and `[]` spell the same update at the edges of the integer range too
    for (start, op, by) in [("9223372036854775807", "+=", "1"), ("9223372036854775806", "+=", "1"), ("-9223372036854775807", "-=", "1"), ("-9223372036854775807", "-=", "2"), ("4611686018427387904", "*=", "2"), ("5", "/=", "0"), ("-9223372036854775807 - 1", "/=", "-1"), ("-9223372036854775807 - 1", "%=", "-1"), ("1", "+=", "\"s\"")] {
        for target in ["o.k", "o[\"k\"]", "o[key]", "w.o.k", "w[\"o\"][\"k\"]"] {
            v.push(Case::new(format!("key := \"k\"\no := {{\"k\": {}}}\nw := {{\"o\": o}}\nprint(\"pre\")\n{} {} {}\nprint(o.k)\nprint(o[\"k\"])\n", start, target, op, by), 601, format!("{} {} {} on {}", start, op, by, target)));
        }
    }
    // iteration sees the object as it is when the loop starts, every time
    for upd in ["o.a = 10", "o[\"a\"] = 10", "o.a += 5", "o.b = o.a", "o.a = [o.a]", "p := o\np.a = 10"] {
        v.push(Case::new(format!("o := {{\"b\": 2, \"a\": 1}}\nfor [k, x] in o {{\nprint([k, x])\n}}\n{}\nfor [k, x] in o {{\nprint([k, x])\n}}\nt := 0\nfor e in o {{\nt += 1\n}}\nprint(t)\n{}\nfor e in o {{\nprint(e)\n}}\n", upd, upd), 601, format!("iterate, {}, iterate again", upd.replace('\n', "; "))));
    }
    // chains of reads through a graph that returns to its start, spelled with `.` and with `[]`
    for chain in ["root.child.parent.name", "root[\"child\"][\"parent\"][\"name\"]", "root.child[\"parent\"].name", "root.child.parent.child.parent.name", "root.self.self.name", "root.child.parent.child.name"] {
        v.push(Case::new(format!("root := {{\"name\": \"R\"}}\nchild := {{\"name\": \"C\", \"parent\": root}}\nroot.child = child\nroot.self = root\nprint({})\nx := {}\nprint(x == \"R\" || x == \"C\")\n", chain, chain), 601, format!("read chain {}", chain)));
    }
    // the shorthand `{a}` means `{"a": a}` wherever `a` is declared
    for ctxt in ["@", "{\n@}\n", "if true {\n@}\n", "for e in [1] {\n@}\n", "fn f() {\n@}\nf()\n", "fn f(b) {\n@}\nf(2)\n", "g := fn () {\n{\n@}\n}\ng()\n", "ob := {\"m\": fn () {\n@}}\nob.m()\n", "fn f() {\nreturn fn () {\n@}\n}\nf()()\n", "i := 0\nwhile i < 1 {\ni += 1\n@}\n"] {
        for body in ["print({a})\n", "print({a, \"z\": 0})\n", "q := {a}\nprint(q.a)\n", "a2 := 5\nprint({a, a2})\n", "print({a} == {\"a\": a})\n"] {
            v.push(Case::new(format!("a := 1\n{}", ctxt.replace('@', body)), 601, format!("shorthand in {:?}", ctxt.replace('\n', " "))));
        }
    }
    // interpolated literals as names in every naming position
    for pos in [
        "o := {$\"k${x}\": 1}\nprint(o)\n",
        "o := {}\no[$\"k${x}\"] = 1\nx = \"2\"\no[$\"k${x}\"] = 2\nprint(o)\n",
        "o := {\"k1\": 5}\nprint(o[$\"k${x}\"])\no[$\"k${x}\"] += 1\nprint(o)\n",
        "o := {\"k1\": 5}\n{$\"k${x}\": v} := o\nprint(v)\n",
        "o := {\"k1\": 5, \"k${x}\": 6}\nprint(o)\n",
        "o := {\"k1\": 5}\nprint(o[\"k\" + x] == o[$\"k${x}\"])\n",
    ] {
        v.push(Case::new(format!("x := \"1\"\n{}", pos), 601, "interpolated name".to_string()));
    }
    v
}

impl Check for C12 {
    fn id(&self) -> &'static str {
        "C12"
    }

    fn run(&self, ctx: &mut Ctx) -> Result<(), MachineryError> {
        let depth = std::env::var("C12_DEPTH").ok().and_then(|s| s.parse().ok()).unwrap_or(ctx.tier.pick(5usize, 6usize));
        let alpha = Alpha { ops: ops() };
        let max_entries = ctx.tier.pick(3usize, 4usize);
        ctx.rule = format!(
            "breadth-first over all histories of <= {} operations from {} operations on objects o, p over the keys {:?} (insert / overwrite through [] and ., op-assign both ways, op-assign on a missing key, spread before / after other entries, shorthand after / before spread, collect, alias); states merged on the sorted contents of o and p; each history is completed by printing both objects, iterating both, reading every present key through [] and ., comparing them both ways and reading an absent key; plus all object literals of <= {} entries over {} entry forms (pairs, computed names, shorthands, spreads, printing name/value expressions) and rejected entry forms; non-trivial = history of >= 2 operations",
            depth,
            alpha.ops.len(),
            KEYS,
            max_entries,
            ENTRIES.len()
        );
        ctx.rule.push_str("; `op=` with the operands 0, 1, -1, \"\", [], {}, a variable and null on missing, null and ill-typed properties (5 operators, 10 targets); loops whose body writes to the object they walk (6 shapes)");
        let mut g_order = false;
        let stats = bfs(
            ctx,
            &alpha,
            depth,
            |c, r, o| self.oracle(c, r, o),
            |_ctx, pairs| {
                for (st, _j) in pairs {
                    // keys inserted in descending order must still be visited ascending
                    let t = &st.text;
                    if let (Some(i), Some(j)) = (t.find("o[\"b\"] ="), t.find("o[\"a\"] =")) {
                        if i < j {
                            g_order = true;
                        }
                    }
                }
            },
        )?;
        ctx.judge(literal_cases(max_entries), |c, r, o| self.oracle(c, r, o))?;
        // entries, computed names, spreads and keyed assignments are evaluated in source order
        let eo: Vec<Case> = super::evalorder::cases(600).into_iter().filter(|c| c.meta.contains("`r = {") || c.meta.contains("`o[") || c.meta.contains(".k")).collect();
        ctx.judge(eo, |c, r, o| self.oracle(c, r, o))?;
        ctx.judge(extra_cases(), |c, r, o| self.oracle(c, r, o))?;
        let sp: Vec<Case> = super::evalorder::SELF_TARGET_PROGRAMS.iter().filter(|p| p.contains('.')).map(|p| Case::new(p.to_string(), 601, "property targets written through `.` and `[]` in one pattern".to_string())).collect();
        ctx.judge(sp, |c, r, o| self.oracle(c, r, o))?;
        ctx.guard("keys were inserted in descending order", g_order);
        ctx.extra.insert(
            "bounds".into(),
            json!({"max_operations": depth, "completed_depth": stats.completed_depth, "operations": alpha.ops.len(), "keys": KEYS,
                   "levels(depth,generated,kept)": stats.levels, "dead_states": stats.dead, "merged_states": stats.merged,
                   "literal_entries_max": max_entries, "literal_entry_forms": ENTRIES.len()}),
        );
        Ok(())
    }

    fn oracle(&self, c: &Case, r: &RefOutcome, o: &Outcome) -> Verdict {
        if c.tag == 501 && o.class != Class::Err {
            return viol("bad-entry-accepted", format!("{}: must be a reported error, ended {:?} printing {:?}", c.meta, o.class, o.out_str()));
        }
        if o.stdout != r.stdout {
            return viol(
                "map-semantics",
                format!("{}: printed {:?}, reference {:?}", c.meta, o.out_str(), String::from_utf8_lossy(&r.stdout)),
            );
        }
        if r.is_ok() != (o.class == Class::Ok) {
            return viol(
                "termination",
                format!("{}: reference ends {}, run ended {:?} {}", c.meta, if r.is_ok() { "ok" } else { "with an error" }, o.class, o.msg),
            );
        }
        Verdict::Pass
    }
}
