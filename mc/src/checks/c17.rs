//! C17 — a failure is one well-formed located diagnostic after the output so
//! far.  Product: every reachable error kind x every syntactic position x
//! call depth 0..5 through named / anonymous / method calls, two prints before
//! the failure, run through the plain CLI under two path spellings.  Oracle:
//! the format grammar of the statement + the reference call stack.
use super::{parse_pos, Check};
use crate::engine::*;
use crate::refm::eval::{RefOutcome, RefResult};
use crate::subject::{CliOutcome, MachineryError, Outcome};
use serde_json::json;

pub struct C17;

const PRELUDE: &str = "ml_ := \"a plain literal\nover three\n  lines\"\nv := 0\nxs := [1, 2, 3]\nob := {\"a\": 1}\nfn id(a) {\nreturn a\n}\nfn nf(a) {\nreturn a\n}\nfn sf_() {\nreturn undef_q\n}\nfn pr_() {\nprint(\"arg\")\nreturn 1\n}\nfn two_(a, b) {\nreturn a\n}\nfn prl_() {\nprint(\"subject\")\nreturn [1, 2]\n}\nnd_ := [[1]]\non_ := {\"k\": {\"k\": 1}}\n";

/// expressions whose evaluation fails
pub const EXPR_ERRORS: &[(&str, &str)] = &[
    ("undefined name", "undef_v"),
    ("operator type error", "1 + \"a\""),
    ("integer overflow", "9223372036854775807 + 1"),
    ("subtraction overflow", "-9223372036854775807 - 2"),
    ("multiplication overflow", "4611686018427387904 * 2"),
    ("quotient overflow", "(-9223372036854775807 - 1) / -1"),
    ("zero divisor", "1 / 0"),
    ("zero remainder", "1 % 0"),
    ("list index out of bounds", "xs[5]"),
    ("negative index", "xs[-1]"),
    ("string index out of bounds", "\"abc\"[9]"),
    ("property not found", "ob.b"),
    ("key not found", "ob[\"b\"]"),
    ("property access on non-object", "v.a"),
    ("type function on null", "null->type"),
    ("unknown type function", "\"s\"->nope"),
    ("call of a non-function", "v()"),
    ("argument count", "nf(1, 2)"),
    ("too few arguments", "nf()"),
    ("list range out of bounds", "xs[0:5]"),
    ("string range reversed", "\"ab\"[1:0]"),
    ("list range reversed", "xs[2:1]"),
    ("comparison meeting an ill-typed pair after a container shared by both operands", "[xs, 1] == [xs, \"a\"]"),
    ("comparison of a list with a holder of itself", "nd_ == [nd_]"),
    ("comparison of a holder with the list it holds", "[nd_] == nd_"),
    ("comparison of an object with a holder of itself", "on_ == {\"k\": on_}"),
    ("comparison of objects that share a value, ill-typed later", "{\"a\": ob, \"b\": 1} == {\"a\": ob, \"b\": \"s\"}"),
    ("comparison of a container with one holding it at another depth", "[xs, [xs], 1] == [[xs], xs, 1]"),
    ("failing range bound after a printing subject", "prl_()[undef_b:]"),
    ("failing range end after a printing subject", "prl_()[0:undef_e]"),
    ("failing index after a printing subject", "prl_()[undef_i]"),
    ("list range reversed at the end", "xs[3:2]"),
    ("failing list item before a printing one", "[undef_l, pr_()]"),
    ("failing argument before a printing one", "two_(undef_a, pr_())"),
    ("failing object value before a printing one", "{\"a\": undef_o, \"b\": pr_()}"),
    ("failing operand before a printing one", "undef_p + pr_()"),
    ("spread of a non-list", "[v..]"),
    ("spread of a non-object", "{v..}"),
    ("property name is not a string", "{5: 1}"),
    ("non-string slot", "$\"${5}\""),
    ("collect outside a pattern", "[..xs]"),
    ("equality type mismatch", "1 == \"a\""),
    ("equality of functions", "id == id"),
    ("identity on a non-container", "xs === 1"),
    ("boolean operator on ints", "true && 1"),
    ("range bound is not an int", "1 .. \"a\""),
    ("builtin argument count", "print(1, 2)"),
    ("type function argument count", "\"s\"->len(1)"),
    ("index is not an int", "xs[\"0\"]"),
    ("index on a non-indexable", "v[0]"),
    ("range index on a non-indexable", "v[0:1]"),
    ("nested equality mismatch", "[1, [2]] == [1, [\"2\"]]"),
    ("shorthand undefined", "{undef_w}"),
    ("printing a self-containing list", "print(cyc)"),
    ("slot fails to parse", "$\"a ${1 +} b\""),
    ("a later slot fails to parse after a slot that printed", "$\"${[\"\", \"s\"][pr_()]}a${1 +}\""),
    ("a later slot fails to parse after a slot that fails", "$\"${undef_s}a${1 +}\""),
    ("a later slot holds an unexpected character after a slot that fails", "$\"${ob.zz}a${1 ~ 2}\""),
    ("a later slot fails to parse after a non-string slot", "$\"${5}${)}\""),
    ("an earlier slot fails to parse before a slot that would print", "$\"${(}${pr_()}\""),
    ("a later slot is empty after a slot that printed", "$\"${[\"\"][pr_() - 1]}${}\""),
    ("built-in called through an object", "{\"sink\": print}.sink(1)"),
    ("built-in called through an item", "[{\"p\": print}][0].p(\"x\")"),
    ("type function stored in an object and called", "{\"n\": \"abc\"->len}.n()"),
    ("slot fails", "$\"${undef_s}\""),
    ("slot holds an unexpected character", "$\"a ${1 ~ 2} b\""),
    ("slot holds an invalid escape", "$\"${\"\\q\"}\""),
    ("a function called from a slot fails", "$\"a${sf_()}b\""),
    ("a function called from a call fails", "id(sf_())"),
    ("call of a non-function whose argument prints", "v(pr_())"),
    ("call of an undefined name whose argument prints", "undef_c(pr_())"),
    ("call of a missing property whose argument prints", "ob.b(pr_())"),
    ("identity on ints", "1 === 1"),
    ("non-identity on a string and a list", "\"a\" !== xs"),
];

/// statements that fail
pub const STMT_ERRORS: &[(&str, &str)] = &[
    ("redeclaration", "x_ := 1\nx_ := 2\n"),
    ("parameter named this, function called through an object", "fn t_(this, s_) {\nprint(s_)\n}\nt_(1, \"direct\")\nto_ := {\"f\": t_}\nto_.f(2, \"via\")\n"),
    ("pattern parameter that binds this, function called through a key", "t_ := fn ([this]) {\n}\nto_ := {\"f\": t_}\nto_[\"f\"]([1])\n"),
    ("collector named this, function held by a variable read from an object", "fn t_(..this) {\n}\nto_ := {\"f\": t_}\nh_ := to_.f\nh_(1)\n"),
    ("this declared in the body of a method", "to_ := {\"f\": fn () {\nthis := 1\n}}\nto_.f()\n"),
    ("built-in stored in an object and called through it", "lg_ := {\"sink\": print, \"n\": 0}\nprint(\"direct\")\nlg_.sink(\"line\")\n"),
    ("built-in stored in an object and called by key", "lg_ := {\"sink\": print}\nlg_[\"sink\"](\"line\")\n"),
    ("built-in taken from an object and called later", "lg_ := {\"sink\": print}\nh_ := lg_.sink\nh_(\"line\")\n"),
    ("built-in reached through a method", "lg_ := {\"sink\": print, \"log\": fn (l) {\nthis.sink(l)\n}}\nlg_.log(\"line\")\n"),
    ("ill-shaped argument for a function with an empty body", "fn ig_([a_, b_]) {\n}\nig_([1])\n"),
    ("ill-shaped item for a loop with an empty body", "for [i_, [a_, b_]] in [[1]] {\n}\n"),
    ("missing property for a parameter pattern with an empty body", "ig_ := fn ({zz_}) {\n}\nig_({})\n"),
    ("name bound twice by a call with an empty body", "ig_ := fn (a_, [a_]) {\n}\nig_(1, [2])\n"),
    ("printing half a character", "hc_ := \"é\"\nprint(hc_[0])\n"),
    ("printing half a character cut by a range", "hc_ := \"a€b\"\nprint(hc_[0:2])\n"),
    ("printing half a character from an iteration", "for hc_ in \"é\" {\nprint(hc_[1])\n}\n"),
    ("name repeated in the pattern of a single parameter", "fn s_([a_, a_]) {\n}\n"),
    ("literal as the single parameter", "fn s_(1) {\n}\n"),
    ("element as the single parameter", "fn s_(xs[0]) {\n}\n"),
    ("spread inside the pattern of a single parameter", "fn s_([xs..]) {\n}\n"),
    ("name repeated in the object pattern of a single parameter", "fn s_({\"a\": k_, \"b\": k_}) {\n}\n"),
    ("failure at the bottom of a direct recursion", "fn rec_(n) {\nif n == 0 {\nreturn undef_r\n}\nreturn rec_(n - 1)\n}\nrec_(3)\n"),
    ("failure at the bottom of a mutual recursion", "fn ev_(n) {\nif n == 0 {\nreturn 1 / 0\n}\nreturn od_(n - 1)\n}\nfn od_(n) {\nreturn ev_(n - 1)\n}\nev_(4)\n"),
    ("failure twelve calls deep", "fn deep_(n) {\nif n == 0 {\nreturn xs[9]\n}\nreturn 1 + deep_(n - 1)\n}\ndeep_(12)\n"),
    ("failure in a recursive method", "tr_ := {\"d\": 2, \"go\": fn (n) {\nif n == 0 {\nreturn this.missing\n}\nreturn this.go(n - 1)\n}}\ntr_.go(2)\n"),
    ("assignment to an undefined name", "und_ = 1\n"),
    ("op-assignment to an undefined name", "und_ += 1\n"),
    ("list pattern length mismatch", "[p_, q_] := [1]\n"),
    ("too few to collect", "[p_, q_, ..r_] := [1]\n"),
    ("object pattern missing key", "{p_} := {}\n"),
    ("list pattern on a non-list", "[p_] := 5\n"),
    ("object pattern on a non-object", "{p_} := 5\n"),
    ("invalid bind target", "5 := 1\n"),
    ("element assignment out of bounds", "xs[5] = 1\n"),
    ("range assignment of a non-sequence", "xs[0:1] = 5\n"),
    ("range assignment length mismatch", "xs[0:2] = [1]\n"),
    ("op-assignment on a missing property", "ob.k += 1\n"),
    ("op-assignment on a missing key", "ob[\"k\"] += 1\n"),
    ("op-assignment type error on an element", "xs[0] += \"a\"\n"),
    ("op-assignment overflow on a property", "ob.a += 9223372036854775807\n"),
    ("parameter list pattern mismatch", "fn dp_([a_, b_]) {\n}\ndp_([1])\n"),
    ("parameter object pattern missing key", "fn dq_(c_, {k_}) {\n}\ndq_(1, {})\n"),
    ("duplicate parameter of an anonymous function", "ga_ := fn (a_, a_) {\n}\nga_(1, 2)\n"),
    ("parameter pattern on a non-list", "fn dr_([a_]) {\n}\ndr_(5)\n"),
    ("for over a non-iterable", "for e_ in 5 {\n}\n"),
    ("if condition is not a bool", "if 5 {\n}\n"),
    ("else-if condition is not a bool", "if false {\n} else if \"s\" {\n}\n"),
    ("while condition is not a bool", "while null {\n}\n"),
    ("break outside a loop", "break\n"),
    ("continue outside a loop", "continue\n"),
    ("duplicate parameter", "fn g_(a, a) {\n}\n"),
    ("op-assignment on a range", "xs[0:1] += [1]\n"),
    ("name bound twice", "[p_, p_] := [1, 2]\n"),
    ("assignment to a type property", "xs->type = 1\n"),
    ("property assignment on a non-object", "v.a = 1\n"),
    ("collect not last", "{..r_, p_} := {\"p_\": 1}\n"),
    ("spread in a pattern", "[xs.., p_] := [1, 2]\n"),
];

/// positions for a failing expression `@`
pub const POSITIONS: &[(&str, &str)] = &[
    ("statement", "@\n"),
    ("declaration rhs", "d_ := @\n"),
    ("assignment rhs", "v = @\n"),
    ("op-assignment rhs", "v += @\n"),
    ("if condition", "if @ {\n}\n"),
    ("else-if condition", "if false {\n} else if @ {\n}\n"),
    ("while condition", "while @ {\n}\n"),
    ("for iterable", "for e_ in @ {\n}\n"),
    ("return expression", "fn r_() {\nreturn @\n}\nr_()\n"),
    ("argument", "id(@)\n"),
    ("second argument", "print(id(1, @))\n"),
    ("index", "xs[@]\n"),
    ("range bound", "xs[@:]\n"),
    ("list item", "d_ := [1, @]\n"),
    ("object value", "d_ := {\"k\": @}\n"),
    ("property name", "d_ := {@: 1}\n"),
    ("operator lhs", "d_ := @ + 1\n"),
    ("operator rhs", "d_ := 1 + @\n"),
    ("slot", "d_ := $\"a${@}b\"\n"),
    ("inside a block", "{\nd_ := 1\n@\n}\n"),
    ("inside a loop", "for e_ in [1, 2] {\n@\n}\n"),
    ("inside a branch", "if false {\n} else {\n@\n}\n"),
    ("destructuring source", "[d_] := @\n"),
    ("element assignment rhs", "xs[0] = @\n"),
    ("element assignment index", "xs[@] = 1\n"),
    ("property assignment rhs", "ob.a = @\n"),
    ("callee", "(@)(1)\n"),
    ("spread operand", "d_ := [@..]\n"),
    ("range start", "d_ := @ .. 3\n"),
    ("parenthesised", "d_ := (@)\n"),
];

pub const FRONT_ERRORS: &[(&str, &str)] = &[
    ("unexpected character", "x := &\n"),
    ("unexpected character at file end", "x := 1\n!"),
    ("invalid escape as the last character of the file", "x := 1\ny := \"total: 5\\q"),
    ("invalid hex digit as the last character of the file", "y := \"a\\xg"),
    ("second hex digit invalid as the last character of the file", "y := \"a\\x4z"),
    ("unescaped dollar as the last character of the file", "y := \"cost $"),
    ("bad slot start as the last character of the file", "y := $\"a$x"),
    ("unescaped dollar first on the last line of the file", "y := \"a\n$"),
    ("invalid escape after a multi-byte character at the end of the file", "y := \"é€\\q"),
    ("unexpected character as the only character", "&"),
    ("unexpected character last after a multi-byte comment", "# é\nx := 1 ~"),
    ("invalid escape", "x := \"\\q\"\n"),
    ("invalid hex digit", "x := \"\\xg1\"\n"),
    ("unescaped dollar", "x := \"a$b\"\n"),
    ("bad slot start", "x := $\"$x\"\n"),
    ("integer too large", "x := 99999999999999999999\n"),
    ("unexpected token", "x := )\n"),
    ("unexpected end of input", "print(1\n"),
    ("missing terminator", "print(1) print(2)\n"),
    ("unclosed block", "if true {\nprint(1)\n"),
    ("else on a new line", "if true {\n}\nelse {\n}\n"),
    ("statement without terminator at end", "print(1)"),
];

/// wrap the failing statements in `depth` nested calls (innermost first: named, anonymous,
/// method, repeating from `rot`)
pub fn frames(stmts: &str, depth: usize, rot: usize) -> String {
    if depth == 0 {
        return stmts.to_string();
    }
    let mut s = String::new();
    let mut call = String::new();
    // rotations 3..5: every call is preceded, on its line, by multi-byte text and a tab
    let uni = rot >= 3;
    for d in 1..=depth {
        let body = if d == 1 { stmts.to_string() } else if uni { format!("z_ := \"é€😀\";\t{}\n", call) } else { format!("{}\n", call) };
        match (d + rot) % 3 {
            0 => {
                s.push_str(&format!("fn f{}() {{\n{}}}\n", d, body));
                call = format!("f{}()", d);
            }
            1 => {
                s.push_str(&format!("g{} := fn () {{\n{}}}\n", d, body));
                call = format!("g{}()", d);
            }
            _ => {
                s.push_str(&format!("o{} := {{\"m\": fn () {{\n{}}}}}\n", d, body));
                call = format!("o{}.m()", d);
            }
        }
    }
    if uni {
        s.push_str("z_ := \"é€😀\";\t");
    }
    s.push_str(&call);
    s.push('\n');
    s
}

fn looks_internal(msg: &str) -> Option<String> {
    // CamelCase identifiers, Rust Debug syntax, wrapper names
    let mut word = String::new();
    let mut check = |w: &str| -> Option<String> {
        let ups = w.chars().filter(|c| c.is_ascii_uppercase()).count();
        let lows = w.chars().filter(|c| c.is_ascii_lowercase()).count();
        if ups >= 2 && lows >= 2 && w.chars().next().map(|c| c.is_ascii_uppercase()).unwrap_or(false) && !w.chars().all(|c| c.is_ascii_uppercase()) {
            return Some(format!("internal identifier {:?}", w));
        }
        None
    };
    let mut in_quote = false;
    for c in msg.chars() {
        if c == '\'' {
            in_quote = !in_quote;
        }
        if c.is_ascii_alphanumeric() || c == '_' {
            word.push(c);
        } else {
            if !in_quote {
                if let Some(e) = check(&word) {
                    return Some(e);
                }
            }
            word.clear();
        }
    }
    if let Some(e) = check(&word) {
        return Some(e);
    }
    for pat in [" { ", "Some(", "Err(", "Ok(", "Failed"] {
        if msg.contains(pat) {
            return Some(format!("Rust debug syntax / wrapper name ({:?})", pat));
        }
    }
    None
}

fn count_lines(src: &str) -> u32 {
    let n = src.matches('\n').count() as u32;
    if src.is_empty() || src.ends_with('\n') {
        n.max(1)
    } else {
        n + 1
    }
}

pub fn judge(c: &Case, r: &RefOutcome, o: &CliOutcome) -> Verdict {
    let path = c.cli_path.clone().unwrap_or("case.sd".to_string());
    let stderr = o.stderr_str();
    match &r.result {
        RefResult::Ok => {
            if o.code != Some(0) || !o.stderr.is_empty() {
                return viol("success-is-silent", format!("{}: a successful script must exit 0 with empty stderr; got exit {:?}, stderr {:?}", c.meta, o.code, stderr));
            }
            if o.stdout != r.stdout {
                return viol("output", format!("{}: printed {:?}, reference {:?}", c.meta, String::from_utf8_lossy(&o.stdout), String::from_utf8_lossy(&r.stdout)));
            }
            Verdict::Pass
        }
        res => {
            if o.code != Some(103) {
                return viol("exit-status", format!("{}: a failing script must exit 103, got {:?} (signal {:?}) stderr {:?}", c.meta, o.code, o.signal, stderr));
            }
            if o.stdout != r.stdout {
                return viol("output-so-far", format!("{}: stdout must hold exactly the prints completed before the failure: got {:?}, reference {:?}", c.meta, String::from_utf8_lossy(&o.stdout), String::from_utf8_lossy(&r.stdout)));
            }
            if !stderr.ends_with('\n') {
                return viol("format", format!("{}: stderr does not end with a newline: {:?}", c.meta, stderr));
            }
            let lines: Vec<&str> = stderr[..stderr.len() - 1].split('\n').collect();
            let first = lines[0];
            let prefix = format!("{}:", path);
            let rest = match first.strip_prefix(&prefix) {
                Some(x) => x,
                None => return viol("format", format!("{}: the first stderr line must start with the script path as given ({:?}): {:?}", c.meta, path, first)),
            };
            let (pos, after) = match parse_pos(rest) {
                Some(x) => x,
                None => return viol("format", format!("{}: no <line>:<col>: after the path: {:?}", c.meta, first)),
            };
            let nlines = count_lines(&c.src);
            let front = matches!(res, RefResult::Front(_));
            if pos.0 < 1 || pos.0 > nlines + if front { 1 } else { 0 } {
                return viol("line-range", format!("{}: reported line {} is outside the script ({} lines): {:?}", c.meta, pos.0, nlines, first));
            }
            let mut msg = after;
            let mut in_fn: Option<String> = None;
            if let Some(x) = after.strip_prefix("in '") {
                if let Some(i) = x.find("': ") {
                    in_fn = Some(x[..i].to_string());
                    msg = &x[i + 3..];
                }
            }
            if msg.trim().is_empty() {
                return viol("format", format!("{}: empty message: {:?}", c.meta, first));
            }
            if let Some(why) = looks_internal(msg) {
                return viol("internal-identifier", format!("{}: the message is not human-readable text about the construct ({}): {:?}", c.meta, why, first));
            }
            match res {
                RefResult::Front(fe) => {
                    // a lexical error points at the offending character (end of line / end of
                    // input: convention open)
                    if let crate::refm::parse::FrontErr::Lex(le) = fe {
                        let at_end = crate::layout::pos_to_off(&c.src, le.pos).map(|o| o >= c.src.len()).unwrap_or(true);
                        if !le.at_newline && !at_end && pos != le.pos {
                            return viol("line-range", format!("{}: the offending character is at {}:{}, the diagnostic points at {}:{}: {:?}", c.meta, le.pos.0, le.pos.1, pos.0, pos.1, first));
                        }
                    }
                    if lines.len() != 1 || in_fn.is_some() {
                        return viol("format", format!("{}: a lexical / syntax error is exactly one line: {:?}", c.meta, stderr));
                    }
                    // an unexpected token is named by its own text
                    if let Some(tok) = c.meta.strip_prefix("front-end error: unexpected token ") {
                        if !msg.contains(tok) {
                            return viol("internal-identifier", format!("{}: the message does not name the unexpected token {:?}: {:?}", c.meta, tok, first));
                        }
                    }
                }
                RefResult::Err(e) => {
                    if in_fn != e.func && !e.in_slot {
                        return viol("function-prefix", format!("{}: the failing construct is in {:?}, the diagnostic says {:?}: {:?}", c.meta, e.func, in_fn, first));
                    }
                    if e.stack.is_empty() {
                        if lines.len() != 1 {
                            return viol("stack-trace", format!("{}: no user call is active, yet more than one line was written: {:?}", c.meta, stderr));
                        }
                    } else {
                        if lines.len() != e.stack.len() + 2 || lines[1] != "Stacktrace:" {
                            return viol("stack-trace", format!("{}: expected `Stacktrace:` and {} lines (one per active call): {:?}", c.meta, e.stack.len(), stderr));
                        }
                        for (i, (cpos, container)) in e.stack.iter().enumerate() {
                            let want = format!("  {}:{}:{}: in '{}'", path, cpos.0, cpos.1, container);
                            if lines[i + 2] != want {
                                return viol("stack-trace", format!("{}: trace line {} is {:?}, expected {:?}", c.meta, i + 1, lines[i + 2], want));
                            }
                        }
                        if e.stack.last().map(|x| x.1.as_str()) != Some("<root>") {
                            return viol("stack-trace", "reference stack does not end at <root>".to_string());
                        }
                    }
                }
                RefResult::Ok => {}
            }
            Verdict::Pass
        }
    }
}

impl Check for C17 {
    fn id(&self) -> &'static str {
        "C17"
    }

    fn run(&self, ctx: &mut Ctx) -> Result<(), MachineryError> {
        let thorough = ctx.tier == Tier::Thorough;
        ctx.rule = format!(
            "product through the plain CLI: {} failing expressions x {} syntactic positions + {} failing statements, each at call depth 0..5 through named / anonymous / method calls (3 rotations at depth 0..2), two prints before the failure, two path spellings; {} lexical / syntax errors{}; successful scripts; oracle: stdout = prints before the failure, exit 103, first stderr line `<path as given>:L:C: [in '<function>': ]<message>` with L inside the script, message free of internal identifiers, `Stacktrace:` with one `<path>:L:C: in '<caller>'` line per active call (positions and names from the reference call stack) ending at <root>; non-trivial = all",
            EXPR_ERRORS.len(),
            POSITIONS.len(),
            STMT_ERRORS.len(),
            FRONT_ERRORS.len(),
            if thorough { "; pairs of nested positions" } else { "" }
        );
        ctx.rule.push_str("; a later slot that does not lex / parse after a slot that printed or failed and the reverse, built-ins stored in objects and called through them, ill-shaped arguments for functions and loops with empty bodies");
        let mut cases: Vec<Case> = vec![];
        let paths = ["case.sd", "dir/sub/t.sd", "./x.sd"];
        let k = std::cell::Cell::new(0usize);
        let push = |src: String, meta: String, cases: &mut Vec<Case>| {
            let mut c = Case::new(src, 1, meta);
            c.cli_path = Some(paths[k.get() % paths.len()].to_string());
            k.set(k.get() + 1);
            cases.push(c);
        };
        let head = "print(\"out1\")\nprint(\"out2\")\ncyc := [0]\ncyc[0] = cyc\n";
        let depths: &[usize] = &[0, 1, 2, 3, 4, 5];
        for (en, e) in EXPR_ERRORS {
            for (pn, p) in POSITIONS {
                let stmts = p.replace('@', e);
                for &d in depths {
                    let rots: &[usize] = if d == 0 { &[0] } else if d <= 2 { &[0, 1, 2, 3] } else { &[0, 4] };
                    for &rot in rots {
                        if !thorough && d >= 3 && (k.get() % 2 == 1) {
                            k.set(k.get() + 1);
                            continue;
                        }
                        let src = format!("{}{}{}print(\"unreachable?\")\n", head, PRELUDE, frames(&stmts, d, rot));
                        push(src, format!("{} in position {} at call depth {} rotation {}", en, pn, d, rot), &mut cases);
                    }
                }
            }
        }
        for (sn, s) in STMT_ERRORS {
            for &d in depths {
                for rot in 0..4 {
                    let src = format!("{}{}{}print(\"after\")\n", head, PRELUDE, frames(s, d, rot));
                    push(src, format!("{} at call depth {} rotation {}", sn, d, rot), &mut cases);
                }
            }
        }
        for (fname, f) in FRONT_ERRORS {
            for pre in ["", "print(\"out1\")\n", "print(\"out1\")\n\n# c\nfn f() {\nreturn 1\n}\n"] {
                push(format!("{}{}", pre, f), format!("front-end error: {}", fname), &mut cases);
            }
        }
        // a syntax error at every kind of token: the diagnostic names the token by its text
        for tok in [
            "+", "-", "*", "/", "%", "==", "!=", "<", "<=", ">", ">=", "&&", "||", "=", ":=", "+=", "-=", "*=", "/=", "%=", ",", ".", ")", "[", "]", "{", "}", ":", "..", "->", "===", "!==",
            "if", "else", "while", "for", "in", "fn", "return", "break", "continue", "null", "true", "false", "12", "\"s\"", "$\"s\"",
        ] {
            let shown = tok.trim_start_matches('$');
            for pre in ["", "print(\"out1\")\n"] {
                push(format!("{}fn {}\n", pre, tok), format!("front-end error: unexpected token {}", shown), &mut cases);
                if !["[", "{", "-", "fn", "null", "true", "false", "12", "\"s\"", "$\"s\"", "."].contains(&tok) {
                    push(format!("{}x := {}\n", pre, tok), format!("front-end error: unexpected token {}", shown), &mut cases);
                }
            }
        }
        // successful scripts
        for s in ["print(1)\n", "", "# only a comment\n", "fn f() {\nreturn 1\n}\nprint(f())\n", "x := [1]\nx[0] = 2\n"] {
            push(s.to_string(), "successful script".to_string(), &mut cases);
        }
        if thorough {
            for (en, e) in EXPR_ERRORS.iter() {
                for (pn1, p1) in POSITIONS {
                    for (pn2, p2) in POSITIONS {
                        // nest position 2 (as a statement list) inside a function called from position 1
                        let inner = format!("fn in_() {{\n{}return 1\n}}\n", p2.replace('@', e));
                        let outer = p1.replace('@', "in_()");
                        let src = format!("{}{}{}{}print(\"after\")\n", head, PRELUDE, inner, outer);
                        push(src, format!("{} in position {} inside a call in position {}", en, pn2, pn1), &mut cases);
                    }
                }
            }
        }
        let n = cases.len();
        for chunk in cases.chunks(20_000) {
            ctx.judge_cli(chunk.to_vec(), |c, r, o| judge(c, r, o))?;
            if ctx.over_cap() {
                break;
            }
        }
        ctx.extra.insert(
            "bounds".into(),
            json!({"failing_expressions": EXPR_ERRORS.len(), "positions": POSITIONS.len(), "failing_statements": STMT_ERRORS.len(),
                   "call_depths": "0..5", "front_end_errors": FRONT_ERRORS.len(), "cli_runs": n, "path_spellings": paths.len()}),
        );
        Ok(())
    }

    fn oracle(&self, _c: &Case, _r: &RefOutcome, _o: &Outcome) -> Verdict {
        // C17 is judged on raw CLI outcomes (see `judge`); batch replay has no verdict
        Verdict::Pass
    }

    fn oracle_cli(&self, c: &Case, r: &RefOutcome, o: &CliOutcome) -> Option<Verdict> {
        Some(judge(c, r, o))
    }
}
