//! C19 — runs are deterministic and printing is a canonical function of the
//! value.  (1) Through the plain CLI: programs that use every hash-based
//! container of the interpreter x the full product of working directory x
//! environment / locale x path spelling x stdin x output sink, and a sweep of
//! controlled hash seeds (getrandom shim) that provably covers every
//! iteration order of 3- (thorough: 4-) key sets at every creation offset
//! (probe built with the same toolchain).  All runs of one program must be
//! byte-identical (stderr modulo the echoed path).  (2) In batch: every
//! container skeleton up to a depth bound, and wide containers, each built
//! along every construction history; `print(v)` must equal the rendering
//! written from the statement and the reference renderer; `print` returns null.
use super::Check;
use crate::engine::*;
use crate::refm::eval::RefOutcome;
use crate::subject::{self, run_cli, Class, CliRun, MachineryError, Outcome, StdinMode, BUILD_DIR};
use rayon::prelude::*;
use serde_json::json;
use std::path::{Path, PathBuf};
use std::time::Duration;

pub struct C19;

pub fn programs() -> Vec<(&'static str, String)> {
    let big = "o := {\"k6\": 6, \"k1\": 1, \"k5\": 5, \"k2\": 2, \"k4\": 4, \"k3\": 3}\n";
    vec![
        ("many variables in one scope", "a := 1\nb := 2\nc := 3\nd := 4\ne := 5\nf := 6\ng := 7\nprint([a, b, c, d, e, f, g])\n".to_string()),
        ("object collect over five remaining keys", format!("{}{{k1, ..rest}} := o\nprint(rest)\nfor [k, v] in rest {{\nprint(k)\n}}\n", big)),
        ("object collect compared", format!("{}{{k1, k2, ..r}} := o\nprint(r == {{\"k3\": 3, \"k4\": 4, \"k5\": 5, \"k6\": 6}})\nprint(r)\n", big)),
        ("collect of everything", format!("{}{{..r}} := o\nprint(r)\nprint(r == o)\n", big)),
        ("several missing properties", "print(\"start\")\n{x, y, z, w, u} := {\"q\": 1}\n".to_string()),
        ("several missing properties in a function", "fn describe(p) {\n{x, y, z, label, colour, weight, id, parent} := p\nprint(x)\n}\nprint(\"start\")\ndescribe({\"x\": 1, \"y\": 2})\n".to_string()),
        ("duplicate parameter names", "print(\"start\")\nfn f(a, b, c, a, b) {\n}\n".to_string()),
        ("duplicate anonymous parameter names", "print(\"start\")\ng := fn (k, v, k, v) {\n}\ng(1, 2, 3, 4)\n".to_string()),
        ("duplicate names in a pattern", "print(\"start\")\n[p, q, p, q] := [1, 2, 3, 4]\n".to_string()),
        ("several names already declared", "p := 0\nq := 0\nr := 0\nprint(\"start\")\n[r, q, p] := [1, 2, 3]\n".to_string()),
        ("nested scopes and closures", "a := 1\nb := 2\nfn mk(c, d, e) {\nf := 6\ng := 7\nreturn fn (h) {\nreturn [a, b, c, d, e, f, g, h]\n}\n}\nprint(mk(3, 4, 5)(8))\n".to_string()),
        ("error in a function with many locals", "fn f(a, b, c) {\nd := 1\ne := 2\ng := 3\nreturn a + b + c + d + e + g + missing\n}\nprint(\"start\")\nprint(f(1, 2, 3))\n".to_string()),
        ("nested value", "print([{\"b\": [1, {\"z\": null, \"a\": \"x\\ny\"}], \"a\": []}, [[]], {}])\n".to_string()),
        ("object built in two orders", "o := {}\nfor k in [\"d\", \"a\", \"c\", \"b\", \"e\"] {\no[k[1]] = k[0]\n}\np := {}\nfor k in [\"e\", \"b\", \"c\", \"a\", \"d\"] {\np[k[1]] = 4 - k[0]\n}\nprint(o)\nprint(p)\nfor e in o {\nprint(e)\n}\n".to_string()),
        ("runtime error after output", "print(1)\nprint([2])\nx := [1][3]\nprint(3)\n".to_string()),
        ("lexical error", "print(1)\nx := &\n".to_string()),
        ("syntax error", "print(1)\nx := )\n".to_string()),
        ("object spread merges", "a := {\"x\": 1, \"y\": 2, \"z\": 3}\nb := {\"y\": 20, \"w\": 0, \"v\": 5, \"u\": 6}\nprint({a.., b..})\nprint({b.., a..})\n".to_string()),
        ("undefined among many", "a := 1\nb := 2\nc := 3\nd := 4\ne := 5\nprint(a + b + c + d + e + f)\n".to_string()),
        ("redeclaration cites the position", "a := 1\nb := 2\nc := 3\nb := 4\n".to_string()),
        ("recursion with locals", "fn r(n, acc) {\na := n\nb := acc\nif n == 0 {\nreturn acc\n}\nreturn r(n - 1, acc + [a])\n}\nprint(r(20, []))\n".to_string()),
        ("unicode text", "s := \"é€😀\"\nprint(s + s)\nprint($\"<${s}>\")\nprint(s->len())\n".to_string()),
        ("equality on wide objects", format!("{}p := {{}}\nfor [k, v] in o {{\np[k] = v\n}}\nprint(p == o)\nprint(o)\n", big)),
        ("printing half a character", "s := \"né\"\nprint(\"start\")\nprint(s[1])\nprint(\"unreachable\")\n".to_string()),
        ("printing half a character from a loop", "for [i, c] in \"aé\" {\nprint(i)\nprint(c)\n}\n".to_string()),
        ("type function stored in an object", "name := \"abc\"\ntools := {\"size\": name->len, \"kind\": name->type, \"f\": fn () {\nreturn 1\n}}\nprint(\"start\")\nprint(tools.size())\n".to_string()),
        ("two different duplicated parameter names in patterns", "print(\"start\")\nfn area([width, height], {\"w\": width, \"h\": height}, depth, depth) {\n}\n".to_string()),
        ("error inside nested calls", "fn a1(x) {\nreturn b1(x)\n}\nfn b1(y) {\nreturn c1(y)\n}\nfn c1(z) {\nreturn z.missing\n}\nprint(\"start\")\na1({\"k\": 1})\n".to_string()),
        ("syntax error where an operator could follow", "print(1)\nx := [10 20]\n".to_string()),
        ("syntax error between arguments", "print(1)\nf(a b)\n".to_string()),
        ("syntax error after an operand", "print(1)\nx := 1 2\n".to_string()),
        ("syntax error in an object literal", "print(1)\nx := {\"a\" 1}\n".to_string()),
        ("syntax error after a condition", "print(1)\nif true print(1)\n".to_string()),
        ("syntax error at a keyword", "print(1)\nx := fn\n".to_string()),
        ("syntax error at the end of the file", "print(1)\nx := (1 +".to_string()),
        ("printing function values", "fn named(a) {\n}\nanon := fn () {\n}\nprint(named)\nprint(anon)\nprint([anon, fn (q) {\n}, named])\nprint({\"m\": anon, \"t\": \"s\"->len, \"p\": print})\nprint(1->type)\n".to_string()),
        ("undefined name close to several declared names", "total1 := 1\ntotal2 := 2\ntotal3 := 3\ntotals := 4\nprint(\"start\")\nprint(total)\n".to_string()),
        ("missing property close to several existing ones", "o := {\"name1\": 1, \"name2\": 2, \"name3\": 3, \"names\": 4}\nprint(\"start\")\nprint(o.name)\n".to_string()),
        ("unknown type function", "print(\"start\")\nprint(\"s\"->lenn())\n".to_string()),
        ("error twelve frames deep through distinct functions", "fn f0(x) {\nreturn x.missing\n}\nfn f1(x) {\nreturn f0(x)\n}\nfn f2(x) {\nreturn f1(x)\n}\nfn f3(x) {\nreturn f2(x)\n}\nfn f4(x) {\nreturn f3(x)\n}\nfn f5(x) {\nreturn f4(x)\n}\nfn f6(x) {\nreturn f5(x)\n}\nfn f7(x) {\nreturn f6(x)\n}\nfn f8(x) {\nreturn f7(x)\n}\nfn f9(x) {\nreturn f8(x)\n}\nfn fa(x) {\nreturn f9(x)\n}\nfn fb(x) {\nreturn fa(x)\n}\nprint(\"start\")\nfb({})\n".to_string()),
        ("error at the bottom of a deep recursion", "fn r(n) {\nif n == 0 {\nreturn [][1]\n}\nreturn 1 + r(n - 1)\n}\nprint(\"start\")\nprint(r(15))\n".to_string()),
        ("recursion twenty-five calls deep", "fn r(n) {\nif n == 0 {\nreturn 0\n}\nreturn 1 + r(n - 1)\n}\nprint(r(25))\n".to_string()),
        ("comparison of objects with an unequal and an ill-typed property", "a := {\"k1\": 1, \"k2\": \"x\", \"k3\": 3, \"k4\": [4], \"k5\": 5, \"k6\": null}\nb := {\"k1\": 2, \"k2\": 5, \"k3\": 3, \"k4\": 4, \"k5\": \"5\", \"k6\": 0}\nprint(\"start\")\nprint(a == b)\nprint(a != b)\n".to_string()),
        ("comparison of objects whose first property is ill-typed", "a := {\"k1\": \"1\", \"k2\": 1, \"k3\": 3, \"k4\": 4, \"k5\": 5}\nb := {\"k1\": 1, \"k2\": 2, \"k3\": 4, \"k4\": 5, \"k5\": 6}\nprint(\"start\")\nprint(a == b)\n".to_string()),
        ("a part reached twice, made before its holder", "s := [1]\nt := {\"k\": s}\na := [s, s, t, t]\nprint(a)\nprint({\"p\": s, \"q\": s, \"r\": [s]})\n".to_string()),
        ("a part reached twice, made after its holder", "h := {\"x\": null, \"y\": null, \"z\": []}\nl := [0, 0, 0]\npad := [[1], [2], [3], [4]]\ns := [1]\nh.x = s\nh.y = s\nh.z = [s, s]\nl[0] = s\nl[2] = s\nl[1] = h\nprint(h)\nprint(l)\n".to_string()),
        ("parts shared at several depths, made in mixed order", "inner := {\"v\": [7]}\nmid1 := [inner]\nouter := {\"a\": null, \"b\": null, \"c\": null}\nmid2 := {\"i\": inner}\nouter.a = mid1\nouter.b = mid2\nouter.c = [mid1, mid2, inner, inner.v]\nprint(outer)\nlate := [outer, mid1]\nprint(late)\n".to_string()),
        ("for over an object built by collect", format!("{}{{k3, ..r}} := o\nfor [k, v] in r {{\nprint([k, v])\n}}\n{{k1, k2, ..s}} = r\nprint(s)\n", big).replace("{k1, k2, ..s} = r", "k1 := 0\nk2 := 0\ns := 0\n{k1, k2, ..s} = r")),
    ]
}

#[derive(Clone, Debug)]
struct Config {
    cwd: u8,   // 0 script dir, 1 /, 2 decoy dir
    env: u8,   // 0..8
    path: u8,  // 0 relative, 1 ./relative, 2 absolute, 3 detour, 4 symlink
    stdin: u8, // 0 closed, 1 /dev/null, 2 pipe with data
    sink: u8,  // 0 pipes, 1 files
    seed: u64,
}

fn env_for(k: u8, seed: u64) -> Vec<(String, String)> {
    let mut v: Vec<(String, String)> = vec![];
    let shim = format!("{}/getrandom_shim.so", BUILD_DIR);
    if Path::new(&shim).exists() {
        v.push(("LD_PRELOAD".into(), shim));
        v.push(("SEED_VERIF_HASHSEED".into(), format!("{}", seed)));
    }
    match k {
        0 => {}
        1 => {
            v.push(("PATH".into(), "/usr/bin:/bin".into()));
            v.push(("HOME".into(), "/root".into()));
            v.push(("USER".into(), "root".into()));
            v.push(("TERM".into(), "xterm".into()));
            v.push(("RUST_MIN_STACK".into(), "65536".into()));
        }
        2 => v.push(("LANG".into(), "C".into())),
        3 => v.push(("LC_ALL".into(), "en_US.UTF-8".into())),
        4 => v.push(("LC_ALL".into(), "tr_TR.UTF-8".into())),
        5 => v.push(("LANG".into(), "xx_INVALID".into())),
        6 => {
            v.push(("RUST_BACKTRACE".into(), "1".into()));
            v.push(("RUST_MIN_STACK".into(), "268435456".into()));
            v.push(("RUST_LOG".into(), "trace".into()));
        }
        _ => {
            v.push(("HOME".into(), "/nonexistent".into()));
            v.push(("TZ".into(), "Pacific/Kiritimati".into()));
            v.push(("TMPDIR".into(), "/nonexistent".into()));
        }
    }
    v
}

struct Run {
    stdout: Vec<u8>,
    stderr: String,
    code: Option<i32>,
    signal: Option<i32>,
}

fn run_config(bin: &Path, root: &Path, cfg: &Config) -> Result<Run, MachineryError> {
    let script = root.join("d").join("case.sd");
    let (cwd, rel): (PathBuf, String) = match cfg.cwd {
        0 => (root.join("d"), "case.sd".to_string()),
        1 => (PathBuf::from("/"), script.to_string_lossy().trim_start_matches('/').to_string()),
        _ => (root.join("decoy"), "../d/case.sd".to_string()),
    };
    let arg: String = match cfg.path {
        0 => rel.clone(),
        1 => format!("./{}", rel),
        2 => script.to_string_lossy().to_string(),
        3 => {
            // detour through the script's own directory
            let abs = root.join("d").join("..").join("d").join("case.sd");
            abs.to_string_lossy().to_string()
        }
        _ => match cfg.cwd {
            0 => "link.sd".to_string(),
            1 => root.join("d").join("link.sd").to_string_lossy().trim_start_matches('/').to_string(),
            _ => "../d/link.sd".to_string(),
        },
    };
    let env = env_for(cfg.env, cfg.seed);
    let sink_dir = if cfg.sink == 1 { Some(subject::scratch_dir()) } else { None };
    let mut o = None;
    for limit in [10u64, 60] {
        let r = run_cli(CliRun {
            bin,
            arg: &arg,
            cwd: &cwd,
            env: &env,
            stdin: match cfg.stdin {
                0 => StdinMode::Closed,
                1 => StdinMode::Null,
                _ => StdinMode::Data(b"print(\"from stdin\")\njunk\n".to_vec()),
            },
            to_files: sink_dir.as_deref(),
            timeout: Duration::from_secs(limit),
        })?;
        // a slow start under load is not a hang: decide with a generous limit
        let timed_out = r.timed_out;
        o = Some(r);
        if !timed_out {
            break;
        }
    }
    let o = o.unwrap();
    if let Some(d) = sink_dir {
        let _ = std::fs::remove_dir_all(d);
    }
    // the echoed path is abstracted
    let stderr = o.stderr_str().replace(&arg, "<P>");
    Ok(Run { stdout: o.stdout, stderr, code: o.code, signal: o.signal })
}

/// smallest seed list 0..n such that at every creation offset < `offsets` all orders of a
/// `keys`-element set occur (decided with the probe, under the shim)
fn seed_list(keys: usize, offsets: usize, cap: u64) -> Result<(Vec<u64>, usize), MachineryError> {
    let probe = format!("{}/mc/release/hashprobe", BUILD_DIR);
    let shim = format!("{}/getrandom_shim.so", BUILD_DIR);
    if !Path::new(&probe).exists() || !Path::new(&shim).exists() {
        return Err(MachineryError("hash-seed probe or getrandom shim missing (run ./setup.sh)".to_string()));
    }
    let names: Vec<String> = (0..keys).map(|i| format!("k{}", i)).collect();
    let fact: usize = (1..=keys).product();
    let mut seen: Vec<std::collections::HashSet<String>> = vec![Default::default(); offsets];
    let mut seeds = vec![];
    for s in 0..cap {
        let out = std::process::Command::new(&probe)
            .arg(format!("{}", offsets))
            .args(&names)
            .env_clear()
            .env("LD_PRELOAD", &shim)
            .env("SEED_VERIF_HASHSEED", format!("{}", s))
            .output()
            .map_err(|e| MachineryError(format!("probe: {}", e)))?;
        for (i, l) in String::from_utf8_lossy(&out.stdout).lines().enumerate() {
            if i < offsets {
                seen[i].insert(l.to_string());
            }
        }
        seeds.push(s);
        if seen.iter().all(|x| x.len() == fact) {
            return Ok((seeds, fact));
        }
    }
    let min = seen.iter().map(|x| x.len()).min().unwrap_or(0);
    Ok((seeds, min))
}

// ----- values -----

#[derive(Clone, Debug, PartialEq)]
enum V {
    Null,
    Bool(bool),
    Int(i64),
    Str(String),
    List(Vec<V>),
    Obj(Vec<(String, V)>), // ascending keys
}

fn esc(s: &str) -> String {
    s.replace('\\', "\\\\").replace('"', "\\\"").replace('\n', "\\n").replace('\r', "\\r").replace('$', "\\$")
}

impl V {
    fn lit(&self) -> String {
        match self {
            V::Null => "null".into(),
            V::Bool(b) => format!("{}", b),
            V::Int(n) => format!("{}", n),
            V::Str(s) => format!("\"{}\"", esc(s)),
            V::List(v) => format!("[{}]", v.iter().map(|x| x.lit()).collect::<Vec<_>>().join(", ")),
            V::Obj(v) => format!("{{{}}}", v.iter().rev().map(|(k, x)| format!("\"{}\": {}", esc(k), x.lit())).collect::<Vec<_>>().join(", ")),
        }
    }
    /// the rendering rule of the statement
    fn render(&self) -> String {
        match self {
            V::Null => "<null>".into(),
            V::Bool(b) => format!("{}", b),
            V::Int(n) => format!("{}", n),
            V::Str(s) => s.clone(),
            V::List(v) => {
                let mut s = String::from("[\n");
                for x in v {
                    s.push_str("    ");
                    s.push_str(&x.render().replace('\n', "\n    "));
                    s.push_str(",\n");
                }
                s.push(']');
                s
            }
            V::Obj(v) => {
                let mut s = String::from("{\n");
                for (k, x) in v {
                    s.push_str("    ");
                    s.push_str(&format!("\"{}\": {}", k, x.render().replace('\n', "\n    ")));
                    s.push_str(",\n");
                }
                s.push('}');
                s
            }
        }
    }
    /// statements that build the value into variable `name` along history `h`
    fn build(&self, name: &str, h: u8, ctr: &mut u32, out: &mut String) {
        match self {
            V::List(items) if h > 0 => {
                let mut kids = vec![];
                for it in items {
                    *ctr += 1;
                    let n = format!("t{}", ctr);
                    it.build(&n, h, ctr, out);
                    kids.push(n);
                }
                match h {
                    1 => {
                        out.push_str(&format!("{} := []\n", name));
                        for k in &kids {
                            out.push_str(&format!("{} += [{}]\n", name, k));
                        }
                    }
                    2 => out.push_str(&format!("{} := [{}]\n", name, kids.iter().map(|k| format!("[{}]..", k)).collect::<Vec<_>>().join(", "))),
                    3 => {
                        if kids.is_empty() {
                            out.push_str(&format!("{} := [] + []\n", name));
                        } else {
                            out.push_str(&format!("{} := {}\n", name, kids.iter().map(|k| format!("[{}]", k)).collect::<Vec<_>>().join(" + ")));
                        }
                    }
                    _ => out.push_str(&format!("[..{}] := [{}]\n", name, kids.join(", "))),
                }
            }
            V::Obj(items) if h > 0 => {
                let mut kids = vec![];
                for (k, it) in items {
                    *ctr += 1;
                    let n = format!("t{}", ctr);
                    it.build(&n, h, ctr, out);
                    kids.push((k.clone(), n));
                }
                match h {
                    1 => {
                        out.push_str(&format!("{} := {{}}\n", name));
                        for (k, n) in kids.iter().rev() {
                            out.push_str(&format!("{}[\"{}\"] = {}\n", name, esc(k), n));
                        }
                    }
                    2 => out.push_str(&format!("{} := {{{}}}\n", name, kids.iter().rev().map(|(k, n)| format!("{{\"{}\": {}}}..", esc(k), n)).collect::<Vec<_>>().join(", "))),
                    3 => {
                        out.push_str(&format!("{} := {{}}\n", name));
                        for (k, n) in &kids {
                            out.push_str(&format!("{} = {{{}.., \"{}\": {}}}\n", name, name, esc(k), n));
                        }
                    }
                    _ => out.push_str(&format!("{{..{}}} := {{{}}}\n", name, kids.iter().map(|(k, n)| format!("\"{}\": {}", esc(k), n)).collect::<Vec<_>>().join(", "))),
                }
            }
            other => out.push_str(&format!("{} := {}\n", name, other.lit())),
        }
    }
}

fn skeletons(depth: usize, leaves: &[V], keys: &[&str]) -> Vec<V> {
    if depth == 0 {
        return leaves.to_vec();
    }
    let sub = skeletons(depth - 1, leaves, keys);
    let mut out = leaves.to_vec();
    out.push(V::List(vec![]));
    for a in &sub {
        out.push(V::List(vec![a.clone()]));
    }
    for a in &sub {
        for b in &sub {
            out.push(V::List(vec![a.clone(), b.clone()]));
        }
    }
    out.push(V::Obj(vec![]));
    for a in &sub {
        out.push(V::Obj(vec![(keys[0].to_string(), a.clone())]));
    }
    for a in &sub {
        for b in &sub {
            out.push(V::Obj(vec![(keys[0].to_string(), a.clone()), (keys[1].to_string(), b.clone())]));
        }
    }
    out
}

fn value_case(v: &V, h: u8) -> Case {
    let mut src = String::new();
    let mut ctr = 0;
    v.build("v", h, &mut ctr, &mut src);
    src.push_str("print(print(v))\n");
    let exp = format!("{}\n<null>\n", v.render());
    Case::new(src, 20, format!("history {}\u{1}{}", h, exp))
}

impl Check for C19 {
    fn id(&self) -> &'static str {
        "C19"
    }

    fn run(&self, ctx: &mut Ctx) -> Result<(), MachineryError> {
        let thorough = ctx.tier == Tier::Thorough;
        let progs = programs();
        let progs: Vec<_> = progs;
        // seeds that cover every iteration order
        let (seeds, covered) = seed_list(if thorough { 4 } else { 3 }, 32, if thorough { 600 } else { 200 })?;
        let fact = if thorough { 24 } else { 6 };
        ctx.guard("the seed list yields every iteration order at every creation offset < 32", covered == fact);
        let envs: Vec<u8> = if thorough { (0..8).collect() } else { vec![0, 1, 4, 6] };
        ctx.rule = format!(
            "(1) {} programs (every hash-based container of the interpreter in use; succeeding and failing) through the plain CLI x the full product of 3 working directories (script dir, /, a directory with a decoy script) x {} environments (empty, usual, LANG / LC_ALL in C / en_US / tr_TR / invalid, RUST_BACKTRACE, no HOME + TZ) x 5 path spellings (relative, ./, absolute, d/../d detour, symlink) x 3 stdin kinds (closed, /dev/null, pipe with data) x 2 sinks (pipes, files) under hash seed 0, and x {} controlled hash seeds (the smallest list for which the probe shows every iteration order of a {}-key set at every creation offset < 32) under the base configuration; all runs of one program byte-identical (stderr modulo the echoed path); (2) every value skeleton of depth <= {} (lists / objects of 0..2 children over the leaves 0 and \"a\\nb\", keys a and \"k\\nq\") built as a literal, and every skeleton of depth <= {} built along 5 construction histories (literal; element by element / key by key in reverse order; spread; concatenation / merge; collect); lists of 0..8 atoms and objects of 0..8 keys in {} insertion orders; print(v) must equal the rendering rule of the statement and print must return null; non-trivial = all",
            progs.len(),
            envs.len(),
            seeds.len(),
            if thorough { 4 } else { 3 },
            3,
            if thorough { 3 } else { 2 },
            if thorough { 24 } else { 6 }
        );
        ctx.rule.push_str("; values nested 1..24, 32, 40 and 64 containers deep; containers that contain themselves and strings that are not UTF-8 inside containers (a print is one whole rendering or nothing); all ordered pairs of 18 values: `==` answers true exactly when the two print identically");
        // ---- (1) configurations ----
        let root = subject::scratch_dir();
        std::fs::create_dir_all(root.join("d")).map_err(|e| MachineryError(e.to_string()))?;
        std::fs::create_dir_all(root.join("decoy")).map_err(|e| MachineryError(e.to_string()))?;
        std::fs::write(root.join("decoy").join("case.sd"), "print(\"DECOY\")\n").map_err(|e| MachineryError(e.to_string()))?;
        let _ = std::os::unix::fs::symlink("case.sd", root.join("d").join("link.sd"));
        let mut configs: Vec<Config> = vec![];
        for cwd in 0..3u8 {
            for env in &envs {
                for path in 0..5u8 {
                    for stdin in 0..3u8 {
                        for sink in 0..2u8 {
                            configs.push(Config { cwd, env: *env, path, stdin, sink, seed: 0 });
                        }
                    }
                }
            }
        }
        for s in &seeds {
            configs.push(Config { cwd: 0, env: 0, path: 0, stdin: 1, sink: 0, seed: *s });
            if thorough {
                configs.push(Config { cwd: 2, env: 4, path: 3, stdin: 2, sink: 1, seed: *s });
            }
        }
        let bin = ctx.bin.clone();
        let mut n_runs = 0u64;
        for (pname, src) in &progs {
            std::fs::write(root.join("d").join("case.sd"), src).map_err(|e| MachineryError(e.to_string()))?;
            let base = run_config(&bin, &root, &Config { cwd: 0, env: 0, path: 0, stdin: 1, sink: 0, seed: 0 })?;
            // the reference agrees on what the program prints (and whether it fails)
            let r = crate::refm::eval::run(src, REF_BUDGET);
            let results: Vec<Result<Run, MachineryError>> = configs.par_iter().map(|c| run_config(&bin, &root, c)).collect();
            let mut reported = 0;
            for (cfg, res) in configs.iter().zip(results.into_iter()) {
                let run = res?;
                n_runs += 1;
                ctx.evaluations += 1;
                ctx.transitions += 1;
                ctx.cli_confirmations += 1;
                ctx.states.insert(h64(&(pname, cfg.cwd, cfg.env, cfg.path, cfg.stdin, cfg.sink, cfg.seed)));
                ctx.distinct_nontrivial += 1;
                ctx.outcomes.insert(h64(&(&run.stdout, &run.stderr, run.code)));
                if run.stdout != base.stdout || run.stderr != base.stderr || run.code != base.code || run.signal != base.signal {
                    if reported < 2 {
                        reported += 1;
                        let c = Case::new(src.clone(), 1, format!("program {:?} under {:?}", pname, cfg));
                        let o = Outcome { class: Class::Err, stdout: run.stdout.clone(), msg: run.stderr.clone() };
                        ctx.report(&c, Some(&r), &o, "nondeterminism", format!("{:?}: configuration {:?} gives exit {:?} stdout {:?} stderr {:?}; the base configuration gives exit {:?} stdout {:?} stderr {:?}", pname, cfg, run.code, String::from_utf8_lossy(&run.stdout), run.stderr, base.code, String::from_utf8_lossy(&base.stdout), base.stderr));
                    } else {
                        ctx.violation_count += 1;
                    }
                }
            }
            // how a function value is rendered is not fixed by the statement: only its run-to-run
            // identity is checked there
            let fn_text = pname.contains("function values");
            if (base.stdout != r.stdout && !fn_text) || r.is_ok() != (base.code == Some(0)) || !(base.code == Some(0) || base.code == Some(103)) {
                let c = Case::new(src.clone(), 1, format!("program {:?}", pname));
                let o = Outcome { class: if base.code == Some(0) { Class::Ok } else { Class::Err }, stdout: base.stdout.clone(), msg: base.stderr.clone() };
                ctx.report(&c, Some(&r), &o, "output", format!("{:?}: printed {:?} (exit {:?}), reference {:?}", pname, String::from_utf8_lossy(&base.stdout), base.code, String::from_utf8_lossy(&r.stdout)));
            }
            if ctx.samples.len() < 3 {
                ctx.samples.push(json!({"case": src, "how": format!("{} x {} configurations", pname, configs.len()), "outcome": format!("exit {:?}", base.code)}));
            }
        }
        let _ = std::fs::remove_dir_all(&root);
        // ---- (2) values ----
        let leaves = vec![V::Int(0), V::Str("a\nb".to_string())];
        let keys = ["a", "k\nq"];
        let mut batch: Vec<Case> = vec![];
        let mut n_values = 0u64;
        for v in skeletons(3, &leaves, &keys) {
            batch.push(value_case(&v, 0));
            n_values += 1;
            if batch.len() >= 100_000 {
                ctx.judge(std::mem::take(&mut batch), |c, r, o| self.oracle(c, r, o))?;
                if ctx.over_cap() {
                    break;
                }
            }
        }
        for v in skeletons(if thorough { 3 } else { 2 }, &leaves, &keys) {
            for h in 1..=4u8 {
                batch.push(value_case(&v, h));
                n_values += 1;
            }
            if batch.len() >= 100_000 {
                ctx.judge(std::mem::take(&mut batch), |c, r, o| self.oracle(c, r, o))?;
                if ctx.over_cap() {
                    break;
                }
            }
        }
        // the same with every kind of atom and with strings whose line structure matters to the
        // indentation (empty, ending in a line break, CR LF, blank lines, only a line break)
        let rich: Vec<V> = vec![
            V::Null,
            V::Bool(true),
            V::Int(-5),
            V::Str(String::new()),
            V::Str("end\n".into()),
            V::Str("a\r\nb".into()),
            V::Str("\n".into()),
            V::Str("x\n\ny\n\n".into()),
            V::Str(" pad ".into()),
            V::Str("é,".into()),
            V::Str("\"q\": [".into()),
        ];
        let rkeys = ["", "k\r\nq\n"];
        for v in skeletons(2, &rich, &rkeys) {
            batch.push(value_case(&v, 0));
            n_values += 1;
            if batch.len() >= 100_000 {
                ctx.judge(std::mem::take(&mut batch), |c, r, o| self.oracle(c, r, o))?;
            }
        }
        // long lines: strings of 1..3 lines whose last line is around the usual buffer sizes, bare
        // and inside containers
        for n in [1usize, 1023, 1024, 1025, 4095, 4096, 4097, 8191, 8192, 8193, 65535, 65536, 65537] {
            for head in ["", "x\n", "x\n\ny\n"] {
                let sv = V::Str(format!("{}{}", head, "b".repeat(n)));
                for v in [sv.clone(), V::List(vec![sv.clone()]), V::Obj(vec![("k".into(), sv.clone())]), V::List(vec![V::Int(1), V::List(vec![sv.clone(), sv.clone()])])] {
                    batch.push(value_case(&v, 0));
                    n_values += 1;
                }
            }
        }
        // wide family and atoms
        let atoms = vec![V::Null, V::Bool(true), V::Bool(false), V::Int(-1), V::Str(String::new()), V::Str("x".into())];
        for a in &atoms {
            batch.push(value_case(a, 0));
        }
        let wkeys = ["k0", "k1", "k2", "k3", "k4", "k5", "k6", "k7"];
        for n in 0..=8usize {
            let lst = V::List((0..n).map(|i| atoms[i % atoms.len()].clone()).collect());
            let obj = V::Obj((0..n).map(|i| (wkeys[i].to_string(), atoms[i % atoms.len()].clone())).collect());
            for v in [lst.clone(), obj.clone(), V::List(vec![lst.clone(), obj.clone()]), V::Obj(vec![("in".into(), obj.clone()), ("lst".into(), lst.clone())])] {
                for h in 0..=4u8 {
                    batch.push(value_case(&v, h));
                    n_values += 1;
                }
            }
            // insertion orders of the object's keys
            let mut orders: Vec<Vec<usize>> = vec![];
            permutations(n, &mut orders, if thorough { 24 } else { 6 });
            for ord in orders {
                let mut src = String::from("v := {}\n");
                for i in &ord {
                    src.push_str(&format!("v[\"{}\"] = {}\n", wkeys[*i], atoms[*i % atoms.len()].lit()));
                }
                src.push_str("print(print(v))\n");
                batch.push(Case::new(src, 20, format!("insertion order {:?}\u{1}{}\n<null>\n", ord, obj.render())));
                n_values += 1;
            }
        }
        // aliasing does not change the print
        for (a, b) in [("x := [0]\nv := [x, x, {\"a\": x}]\n", "v := [[0], [0], {\"a\": [0]}]\n"), ("e := []\nv := [e, e]\n", "v := [[], []]\n"), ("o := {}\nv := {\"a\": o, \"b\": o, \"c\": [o]}\n", "v := {\"a\": {}, \"b\": {}, \"c\": [{}]}\n")] {
            let exp_prog = format!("{}print(print(v))\n", b);
            let r = crate::refm::eval::run(&exp_prog, REF_BUDGET);
            let exp = String::from_utf8_lossy(&r.stdout).to_string();
            batch.push(Case::new(format!("{}print(print(v))\n", a), 20, format!("shared children\u{1}{}", exp)));
            batch.push(Case::new(exp_prog, 20, format!("separate children\u{1}{}", exp)));
        }
        // values nested far deeper than the skeletons, and values that cannot be rendered: a print is
        // one whole rendering or nothing
        for p in super::evalorder::deep_print_programs() {
            batch.push(Case::new(p, 21, "deeply nested value".to_string()));
            n_values += 1;
        }
        for p in [
            "xs := [1, [2]]\nxs[1][0] = xs\nprint(\"pre\")\nprint(xs)\nprint(\"post\")\n",
            "xs := [1, 2, 3]\nxs[2] = xs\nprint(\"pre\")\nprint(xs)\n",
            "o := {\"a\": 1, \"b\": {}}\no.b.c = o\nprint(\"pre\")\nprint(o)\n",
            "o := {\"a\": [1, 2], \"z\": null}\no.z = [o.a, {\"back\": o}]\nprint(\"pre\")\nprint(o.a)\nprint(o)\n",
            "xs := [\"a\\nb\", {\"k\": []}]\nxs[1].k += [xs]\nprint(\"pre\")\nprint([0, xs])\n",
            "s := \"né\"\nprint(\"pre\")\nprint([1, \"a\", s[1]])\nprint(\"post\")\n",
            "s := \"né\"\nprint(\"pre\")\nprint({\"a\": 1, \"b\": [s[2]]})\n",
            "s := \"€\"\nprint(\"pre\")\nprint([[s[0:1]], 2])\n",
            "xs := [1]\nys := [xs, xs]\nprint(ys)\nxs[0] = ys\nprint(\"pre\")\nprint(ys)\n",
        ] {
            batch.push(Case::new(p.to_string(), 21, "a value that cannot be rendered".to_string()));
            n_values += 1;
        }
        // values that are equal print identically; values that print differently are not equal
        {
            let vals = [
                "{\"id\": 1, \"tags\": 2}", "{\"id\": 1, \"labels\": 2}", "{\"tags\": 2, \"id\": 1}", "{\"a\": 1, \"b\": 2}", "{\"b\": 1, \"c\": 2}", "{\"a\": 1}", "{\"b\": 1}",
                "{\"a\": {\"x\": 1}}", "{\"a\": {\"y\": 1}}", "[{\"p\": 0}]", "[{\"q\": 0}]", "{\"a\": 1, \"b\": 2, \"c\": 3}", "{\"a\": 1, \"b\": 2, \"d\": 3}", "{\"a\": 1, \"c\": 2, \"d\": 3}", "{}", "[]", "[1, 2]", "{\"0\": 1, \"1\": 2}",
            ];
            for a in vals {
                for b in vals {
                    batch.push(Case::new(format!("a := {}\nb := {}\nprint(a == b)\nprint(a)\nprint(\"--\")\nprint(b)\n", a, b), 22, format!("{} == {}", a, b)));
                    n_values += 1;
                }
            }
        }
        ctx.judge(std::mem::take(&mut batch), |c, r, o| self.oracle(c, r, o))?;
        ctx.extra.insert(
            "bounds".into(),
            json!({"programs": progs.len(), "configurations_per_program": configs.len(), "cli_runs": n_runs, "hash_seeds": seeds.len(),
                   "iteration_orders_covered_at_every_offset": covered, "creation_offsets_checked": 32,
                   "value_programs": n_values, "skeleton_depth": 3}),
        );
        Ok(())
    }

    fn oracle(&self, c: &Case, r: &RefOutcome, o: &Outcome) -> Verdict {
        if c.tag == 20 {
            let (what, exp) = c.meta.split_once('\u{1}').unwrap_or((c.meta.as_str(), ""));
            if o.class != Class::Ok || o.out_str() != exp {
                return viol("rendering", format!("{}: {:?} printed {:?} ({:?} {}), the rendering rule gives {:?}", what, c.src, o.out_str(), o.class, o.msg, exp));
            }
            if r.stdout != o.stdout {
                return viol("rendering", format!("{}: printed {:?}, reference renderer {:?}", what, o.out_str(), String::from_utf8_lossy(&r.stdout)));
            }
        }
        if c.tag == 21 || c.tag == 22 {
            if r.stdout != o.stdout || r.is_ok() != (o.class == Class::Ok) {
                return viol("rendering", format!("{}: {:?} printed {:?} and ended {:?} {}; the reference prints {:?} and {}", c.meta, c.src, o.out_str(), o.class, o.msg, String::from_utf8_lossy(&r.stdout), if r.is_ok() { "completes" } else { "reports an error" }));
            }
        }
        if c.tag == 22 {
            let out = o.out_str();
            if let Some((first, rest)) = out.split_once('\n') {
                if let Some((pa, pb)) = rest.split_once("--\n") {
                    if (first == "true") != (pa == pb) {
                        return viol("equal-values-print-identically", format!("{}: `==` answers {} but the two values print {:?} and {:?}", c.meta, first, pa, pb));
                    }
                }
            }
        }
        Verdict::Pass
    }
}

fn permutations(n: usize, out: &mut Vec<Vec<usize>>, cap: usize) {
    fn go(cur: &mut Vec<usize>, used: &mut Vec<bool>, n: usize, out: &mut Vec<Vec<usize>>, cap: usize) {
        if out.len() >= cap {
            return;
        }
        if cur.len() == n {
            out.push(cur.clone());
            return;
        }
        // descending first so that the first orders are far from the sorted one
        for i in (0..n).rev() {
            if !used[i] {
                used[i] = true;
                cur.push(i);
                go(cur, used, n, out, cap);
                cur.pop();
                used[i] = false;
            }
        }
    }
    go(&mut vec![], &mut vec![false; n], n, out, cap);
}
