//! C10 — `==` is a structural equivalence; `===` is identity; comparing never
//! mutates.  All ordered pairs over an exhaustive pool of small nested values
//! x sharing patterns (built twice / every equal sub-term built once and
//! referenced everywhere / object keys written in reverse order).  Oracle: a
//! tolerant structural-equality reference computed without short-cuts, plus
//! laws on the subject's own answers (operand order, transitivity, negation,
//! sharing- and order-independence, reflexivity / symmetry of `===`, `===`
//! implies `==`, values unchanged).
use super::Check;
use crate::engine::*;
use crate::refm::eval::RefOutcome;
use crate::subject::{Class, MachineryError, Outcome};
use serde_json::json;
use std::collections::HashMap;

pub struct C10;

#[derive(Clone, Debug, PartialEq, Eq, Hash)]
pub enum T {
    Null,
    Bool(bool),
    Int(i64),
    Str(&'static str),
    Func,
    List(Vec<T>),
    Obj(Vec<(&'static str, T)>), // keys ascending
}

impl T {
    fn kind(&self) -> &'static str {
        match self {
            T::Null => "null",
            T::Bool(_) => "bool",
            T::Int(_) => "int",
            T::Str(_) => "string",
            T::Func => "func",
            T::List(_) => "list",
            T::Obj(_) => "object",
        }
    }
    fn has_func(&self) -> bool {
        match self {
            T::Func => true,
            T::List(v) => v.iter().any(|x| x.has_func()),
            T::Obj(v) => v.iter().any(|x| x.1.has_func()),
            _ => false,
        }
    }
    fn is_container(&self) -> bool {
        matches!(self, T::List(_) | T::Obj(_))
    }
    fn lit(&self, rev: bool) -> String {
        match self {
            T::Null => "null".into(),
            T::Bool(b) => format!("{}", b),
            T::Int(n) => format!("{}", n),
            T::Str(s) => format!("\"{}\"", s),
            T::Func => "fnv".into(),
            T::List(v) => format!("[{}]", v.iter().map(|x| x.lit(rev)).collect::<Vec<_>>().join(", ")),
            T::Obj(v) => {
                let mut parts: Vec<String> = v.iter().map(|(k, x)| format!("\"{}\": {}", k, x.lit(rev))).collect();
                if rev {
                    parts.reverse();
                }
                format!("{{{}}}", parts.join(", "))
            }
        }
    }
}

/// statements that build `u` and `v` with every equal container sub-term built once
/// like `shared_build`, but sub-terms are shared inside each operand only
fn shared_build_separate(u: &T, v: &T) -> String {
    let a = shared_build(u, &T::Null).replace("v := null\n", "").replace("t", "ta");
    let b = shared_build(&T::Null, v).replace("u := null\n", "").replace("t", "tb");
    // `replace("t", ..)` also hits the keyword-free literals `true`: undo
    format!("{}{}", a.replace("tarue", "true"), b.replace("tbrue", "true"))
}

fn shared_build(u: &T, v: &T) -> String {
    fn go(t: &T, names: &mut HashMap<T, String>, out: &mut String) -> String {
        match t {
            T::List(items) => {
                if let Some(n) = names.get(t) {
                    return n.clone();
                }
                let parts: Vec<String> = items.iter().map(|x| go(x, names, out)).collect();
                let n = format!("t{}", names.len());
                out.push_str(&format!("{} := [{}]\n", n, parts.join(", ")));
                names.insert(t.clone(), n.clone());
                n
            }
            T::Obj(items) => {
                if let Some(n) = names.get(t) {
                    return n.clone();
                }
                let parts: Vec<String> = items.iter().map(|(k, x)| format!("\"{}\": {}", k, go(x, names, out))).collect();
                let n = format!("t{}", names.len());
                out.push_str(&format!("{} := {{{}}}\n", n, parts.join(", ")));
                names.insert(t.clone(), n.clone());
                n
            }
            other => other.lit(false),
        }
    }
    let mut names = HashMap::new();
    let mut out = String::new();
    let nu = go(u, &mut names, &mut out);
    let nv = go(v, &mut names, &mut out);
    out.push_str(&format!("u := {}\nv := {}\n", nu, nv));
    out
}

#[derive(Default, Debug)]
struct Cmp {
    equal: bool,
    /// kind mismatches / function pairs at corresponding positions: (left kind, right kind, under an identical container?)
    mism: Vec<(&'static str, &'static str, bool)>,
    plain_diff: bool,
}

/// tolerant structural comparison, no short-cuts; `shared` = identical container sub-terms
/// are the same container (variant 1)
fn compare(u: &T, v: &T, shared: bool) -> Cmp {
    fn go(u: &T, v: &T, shared: bool, under_ident: bool, c: &mut Cmp) -> bool {
        match (u, v) {
            (T::Null, T::Null) => true,
            (T::Bool(a), T::Bool(b)) => {
                if a != b {
                    c.plain_diff = true;
                }
                a == b
            }
            (T::Int(a), T::Int(b)) => {
                if a != b {
                    c.plain_diff = true;
                }
                a == b
            }
            (T::Str(a), T::Str(b)) => {
                if a != b {
                    c.plain_diff = true;
                }
                a == b
            }
            (T::List(a), T::List(b)) => {
                let ident = under_ident || (shared && u == v);
                let mut eq = a.len() == b.len();
                if !eq {
                    c.plain_diff = true;
                }
                for (x, y) in a.iter().zip(b.iter()) {
                    if !go(x, y, shared, ident, c) {
                        eq = false;
                    }
                }
                eq
            }
            (T::Obj(a), T::Obj(b)) => {
                let ident = under_ident || (shared && u == v);
                let mut eq = a.len() == b.len();
                if !eq {
                    c.plain_diff = true;
                }
                for (k, x) in a {
                    match b.iter().find(|e| e.0 == *k) {
                        Some((_, y)) => {
                            if !go(x, y, shared, ident, c) {
                                eq = false;
                            }
                        }
                        None => {
                            eq = false;
                            c.plain_diff = true;
                        }
                    }
                }
                eq
            }
            (a, b) => {
                // different kinds, or two functions
                c.mism.push((a.kind(), b.kind(), under_ident));
                false
            }
        }
    }
    let mut c = Cmp::default();
    c.equal = go(u, v, shared, false, &mut c);
    c
}

fn pool(tier: Tier) -> Vec<T> {
    let atoms_all = vec![T::Null, T::Bool(true), T::Bool(false), T::Int(0), T::Int(1), T::Str(""), T::Str("a"), T::Func];
    let a1 = vec![T::Null, T::Bool(true), T::Int(0), T::Int(1), T::Str("a"), T::Func];
    let containers = |elems: &Vec<T>| -> Vec<T> {
        let mut v = vec![T::List(vec![])];
        for x in elems {
            v.push(T::List(vec![x.clone()]));
        }
        for x in elems {
            for y in elems {
                v.push(T::List(vec![x.clone(), y.clone()]));
            }
        }
        v.push(T::Obj(vec![]));
        for x in elems {
            v.push(T::Obj(vec![("a", x.clone())]));
            v.push(T::Obj(vec![("b", x.clone())]));
        }
        for x in elems {
            for y in elems {
                v.push(T::Obj(vec![("a", x.clone()), ("b", y.clone())]));
            }
        }
        v
    };
    let mut p = atoms_all.clone();
    p.extend(containers(&a1));
    let sub: Vec<T> = match tier {
        Tier::Quick => vec![
            T::Int(0),
            T::Str("a"),
            T::List(vec![]),
            T::List(vec![T::Int(0)]),
            T::Obj(vec![]),
            T::Obj(vec![("a", T::Int(0))]),
            T::Func,
            T::List(vec![T::List(vec![])]),
        ],
        Tier::Thorough => vec![
            T::Int(0),
            T::Int(1),
            T::Str("a"),
            T::Null,
            T::Func,
            T::List(vec![]),
            T::List(vec![T::Int(0)]),
            T::List(vec![T::Int(1)]),
            T::List(vec![T::Int(0), T::Int(1)]),
            T::Obj(vec![]),
            T::Obj(vec![("a", T::Int(0))]),
            T::Obj(vec![("a", T::Int(1))]),
            T::Obj(vec![("b", T::Int(0))]),
        ],
    };
    for c in containers(&sub) {
        if !p.contains(&c) {
            p.push(c);
        }
    }
    if tier == Tier::Thorough {
        // one more level over a small sub-pool
        let sub3 = vec![T::Int(0), T::List(vec![T::List(vec![T::Int(0)])]), T::Obj(vec![("a", T::List(vec![T::Int(0)]))]), T::List(vec![T::Obj(vec![])])];
        for c in containers(&sub3) {
            if !p.contains(&c) {
                p.push(c);
            }
        }
    }
    p
}

fn long_family() -> (Vec<T>, Vec<T>) {
    let mut lists = vec![];
    for len in 0..=5usize {
        for bits in 0..(1u32 << len) {
            lists.push(T::List((0..len).map(|i| T::Int(((bits >> i) & 1) as i64)).collect()));
        }
    }
    let keys = ["a", "b", "c", "d"];
    let mut objs = vec![];
    // every subset of four keys, every 0/1 valuation: 3^4 = 81
    for code in 0..81u32 {
        let mut x = code;
        let mut e = vec![];
        for k in keys {
            match x % 3 {
                1 => e.push((k, T::Int(0))),
                2 => e.push((k, T::Int(1))),
                _ => {}
            }
            x /= 3;
        }
        objs.push(T::Obj(e));
    }
    (lists, objs)
}

const PRE: &str = "fn fnv() {\n}\n";

#[derive(Clone, Debug, PartialEq)]
enum Ans {
    B(bool),
    E(String),
    Other,
}

fn first_answer(o: &Outcome, line: usize) -> Ans {
    let out = o.out_str();
    let lines: Vec<&str> = out.lines().collect();
    if let Some(l) = lines.get(line) {
        return match *l {
            "true" => Ans::B(true),
            "false" => Ans::B(false),
            _ => Ans::Other,
        };
    }
    if o.class == Class::Err && lines.len() == line {
        return Ans::E(o.msg.lines().next().unwrap_or("").to_string());
    }
    Ans::Other
}

fn kinds_in_msg(msg: &str) -> Vec<&'static str> {
    const KS: [&str; 7] = ["null", "bool", "int", "string", "list", "object", "func"];
    let mut out = vec![];
    let b: Vec<char> = msg.chars().collect();
    let mut i = 0;
    while i < b.len() {
        // an opening quote follows a space (an apostrophe inside a word does not)
        if b[i] == '\'' && (i == 0 || b[i - 1] == ' ' || b[i - 1] == '(') {
            if let Some(j) = (i + 1..b.len()).find(|j| b[*j] == '\'') {
                let w: String = b[i + 1..j].iter().collect();
                if let Some(k) = KS.iter().find(|k| **k == w) {
                    out.push(*k);
                }
                i = j + 1;
                continue;
            }
        }
        i += 1;
    }
    out
}

fn judge_answer(a: &Ans, c: &Cmp, negate: bool) -> Result<(), String> {
    let want = |b: bool| if negate { !b } else { b };
    if c.mism.is_empty() {
        return match a {
            Ans::B(b) if *b == want(c.equal) => Ok(()),
            other => Err(format!("no differently-typed values can be reached, the answer must be {}; got {:?}", want(c.equal), other)),
        };
    }
    match a {
        Ans::E(msg) => {
            let ks = kinds_in_msg(msg);
            if ks.len() >= 2 {
                let (l, r) = (ks[ks.len() - 2], ks[ks.len() - 1]);
                if c.mism.iter().any(|m| m.0 == l && m.1 == r) {
                    return Ok(());
                }
            }
            Err(format!("the diagnostic {:?} does not name a pair of kinds that occurs at corresponding positions {:?}", msg, c.mism))
        }
        Ans::B(b) => {
            let raw = if negate { !*b } else { *b };
            if !raw {
                if c.plain_diff {
                    Ok(())
                } else {
                    Err("answered `not equal` although the only differences are differently-typed values / functions, which must be reported".to_string())
                }
            } else {
                // `equal`: only acceptable when every mismatch lies inside an identical container
                if c.mism.iter().all(|m| m.2) && !c.plain_diff {
                    Ok(())
                } else {
                    Err(format!("answered `equal` although differently-typed values / two functions are at corresponding positions {:?}", c.mism))
                }
            }
        }
        Ans::Other => Err("no boolean and no diagnostic".to_string()),
    }
}

impl Check for C10 {
    fn id(&self) -> &'static str {
        "C10"
    }

    fn run(&self, ctx: &mut Ctx) -> Result<(), MachineryError> {
        let p = pool(ctx.tier);
        let (ll, lo) = long_family();
        ctx.rule = format!(
            "all ordered pairs over a pool of {} values (atoms null/true/false/0/1/\"\"/\"a\"/a function; every list of length <= 2 and object over keys a, b of atoms; the same one level deeper over a sub-pool{}) x 3 construction patterns (built twice; every equal container sub-term built once and referenced everywhere, across and inside the operands; object keys written in reverse order) x 4 programs (u == v then u != v then both values printed; v == u; u != v first; the === matrix); plus all pairs of lists over {{0,1}} of length <= 5 ({}) and of objects over every subset of four keys with values in {{0,1}} ({}); plus all comparisons of 7 extreme integers (bare and nested), all pairs of 10 byte strings cut out of multi-byte characters, 11 containers compared with 9 holders of themselves in both orders; plus the identity of two containers obtained from every pair of 12 list and 6 object producers (literal, +, range, range read, collect, rest parameter, spread, call); symmetry, negation, sharing-independence and transitivity are checked on the table of the subject's own answers; non-trivial = all",
            p.len(),
            if ctx.tier == Tier::Thorough { ", and a third level over 4 values" } else { "" },
            ll.len(),
            lo.len()
        );
        let n = p.len();
        // answers of variant 0 for the laws: eq[i][j]
        let mut table: Vec<Vec<Option<Ans>>> = vec![vec![None; n]; n];
        let mut pairs_done = 0u64;
        let mut law_viol = 0u64;
        let families: Vec<(&str, &Vec<T>, bool)> = vec![("pool", &p, true), ("long lists", &ll, false), ("long objects", &lo, false)];
        for (fname, vals, is_pool) in families {
            let m = vals.len();
            for i0 in (0..m).step_by(8) {
                let mut cases: Vec<Case> = vec![];
                for i in i0..(i0 + 8).min(m) {
                    for j in 0..m {
                        let (u, v) = (&vals[i], &vals[j]);
                        let variants: &[u32] = if is_pool { &[0, 1, 2, 3] } else { &[0, 1, 3] };
                        for &var in variants {
                            let build = match var {
                                0 => format!("u := {}\nv := {}\n", u.lit(false), v.lit(false)),
                                1 => shared_build(u, v),
                                3 => shared_build_separate(u, v),
                                _ => format!("u := {}\nv := {}\n", u.lit(true), v.lit(true)),
                            };
                            let dump = if u.has_func() || v.has_func() { "" } else { "print(u)\nprint(v)\n" };
                            let meta = format!("{} {} {} {}", fname, i, j, var);
                            cases.push(Case::new(format!("{}{}print(u == v)\nprint(u != v)\n{}", PRE, build, dump), 1, meta.clone()));
                            cases.push(Case::new(format!("{}{}print(v == u)\n", PRE, build), 2, meta.clone()));
                            cases.push(Case::new(format!("{}{}print(u != v)\nprint(u == v)\n", PRE, build), 3, meta.clone()));
                            if u.is_container() || v.is_container() || *u == T::Func || *v == T::Func {
                                cases.push(Case::new(
                                    format!("{}{}print(u === v)\nprint(v === u)\nprint(u !== v)\nprint(u === u)\nprint(v === v)\n", PRE, build),
                                    4,
                                    meta.clone(),
                                ));
                            }
                        }
                        pairs_done += 1;
                    }
                }
                let judged = ctx.judge(cases, |c, r, o| self.oracle(c, r, o))?;
                // group by (i, j, variant)
                let mut by: HashMap<String, Vec<&Judged>> = HashMap::new();
                for jd in &judged {
                    by.entry(jd.case.meta.clone()).or_default().push(jd);
                }
                for (meta, group) in by {
                    let parts: Vec<&str> = meta.rsplitn(4, ' ').collect();
                    let var: u32 = parts[0].parse().unwrap();
                    let j: usize = parts[1].parse().unwrap();
                    let i: usize = parts[2].parse().unwrap();
                    let (u, v) = (&vals[i], &vals[j]);
                    let cmp = compare(u, v, var == 1);
                    let cmp_rev = compare(v, u, var == 1);
                    let find = |tag: u32| group.iter().find(|g| g.case.tag == tag);
                    let mut fail = |jd: &Judged, clause: &str, d: String, ctx: &mut Ctx| {
                        law_viol += 1;
                        ctx.report(&jd.case, Some(&jd.r), &jd.o, clause, d);
                    };
                    if let Some(a) = find(1) {
                        let eq = first_answer(&a.o, 0);
                        if let Err(e) = judge_answer(&eq, &cmp, false) {
                            fail(a, "structural-equality", format!("u == v for u = {} v = {} ({}): {}", u.lit(false), v.lit(false), variant_name(var), e), ctx);
                        }
                        if let Ans::B(b) = eq {
                            // `!=` is the negation
                            match first_answer(&a.o, 1) {
                                Ans::B(nb) if nb == !b => {}
                                other => fail(a, "negation", format!("u == v is {} but u != v is {:?} for u = {} v = {}", b, other, u.lit(false), v.lit(false)), ctx),
                            }
                            // values unchanged, printing canonical
                            if !u.has_func() && !v.has_func() && a.o.stdout != a.r.stdout {
                                fail(a, "unchanged", format!("after comparing, the operands print {:?}, reference {:?}", a.o.out_str(), String::from_utf8_lossy(&a.r.stdout)), ctx);
                            }
                        }
                        if is_pool && var == 0 {
                            table[i][j] = Some(eq.clone());
                        }
                        // operand order
                        if let Some(b) = find(2) {
                            let rev = first_answer(&b.o, 0);
                            if let Err(e) = judge_answer(&rev, &cmp_rev, false) {
                                fail(b, "structural-equality", format!("v == u for u = {} v = {} ({}): {}", u.lit(false), v.lit(false), variant_name(var), e), ctx);
                            }
                            if let (Ans::B(x), Ans::B(y)) = (&eq, &rev) {
                                if x != y {
                                    fail(b, "operand-order", format!("u == v is {} but v == u is {} for u = {} v = {}", x, y, u.lit(false), v.lit(false)), ctx);
                                }
                            }
                        }
                        // `!=` evaluated first agrees with `==`
                        if let Some(cn) = find(3) {
                            let ne = first_answer(&cn.o, 0);
                            if let Err(e) = judge_answer(&ne, &cmp, true) {
                                fail(cn, "negation", format!("u != v for u = {} v = {} ({}): {}", u.lit(false), v.lit(false), variant_name(var), e), ctx);
                            }
                            match (&eq, &ne) {
                                (Ans::B(x), Ans::B(y)) if x == y => fail(cn, "negation", format!("u == v and u != v are both {} for u = {} v = {}", x, u.lit(false), v.lit(false)), ctx),
                                (Ans::B(_), Ans::E(_)) | (Ans::E(_), Ans::B(_)) => fail(cn, "negation", format!("u == v gives {:?} but u != v gives {:?}", eq, ne), ctx),
                                _ => {}
                            }
                        }
                        // identity laws
                        if let Some(d) = find(4) {
                            let ident = first_answer(&d.o, 0);
                            if d.o.stdout != d.r.stdout || d.r.is_ok() != (d.o.class == Class::Ok) {
                                fail(d, "identity", format!("=== matrix for u = {} v = {} ({}): printed {:?} {:?}, reference {:?}", u.lit(false), v.lit(false), variant_name(var), d.o.out_str(), d.o.class, String::from_utf8_lossy(&d.r.stdout)), ctx);
                            }
                            if let (Ans::B(true), Ans::B(false)) = (&ident, &eq) {
                                if !u.has_func() {
                                    fail(d, "identity-implies-equality", format!("u === v but u == v is false for u = {}", u.lit(false)), ctx);
                                }
                            }
                        }
                    }
                }
                if ctx.over_cap() {
                    break;
                }
            }
        }
        // sharing- and order-independence + transitivity on the subject's own answers
        // (variants are compared through the tolerant reference above; transitivity here)
        let data: Vec<usize> = (0..n).filter(|i| !p[*i].has_func()).collect();
        let mut trans_checked = 0u64;
        let mut trans_viol = 0u64;
        for &a in &data {
            for &b in &data {
                if table[a][b] != Some(Ans::B(true)) {
                    continue;
                }
                for &c in &data {
                    if table[b][c] == Some(Ans::B(true)) {
                        trans_checked += 1;
                        if let Some(Ans::B(false)) = table[a][c] {
                            trans_viol += 1;
                            if trans_viol <= 3 {
                                let src = format!("{}a := {}\nb := {}\nc := {}\nprint(a == b)\nprint(b == c)\nprint(a == c)\n", PRE, p[a].lit(false), p[b].lit(false), p[c].lit(false));
                                let case = Case::new(src, 9, format!("transitivity {} {} {}", a, b, c));
                                let o = Outcome { class: Class::Ok, stdout: b"true\ntrue\nfalse\n".to_vec(), msg: String::new() };
                                ctx.report(&case, None, &o, "transitivity", format!("a == b and b == c but a != c for a = {} b = {} c = {}", p[a].lit(false), p[b].lit(false), p[c].lit(false)));
                            }
                        }
                    }
                }
            }
        }
        // identity of separately produced containers: every pair of producers of an equal value
        // (literals, operators, ranges, range reads, collects, rest parameters, spreads, calls)
        {
            let setup = "fn rest(..r) {\nreturn r\n}\nfn fresh() {\nreturn []\n}\nfn freshobj() {\nreturn {}\n}\nfn id(p) {\nreturn p\n}\nxs := [1]\nob := {\"a\": 1}\n";
            let lists: [(&str, &str); 12] = [
                ("@ := []", "literal"),
                ("@ := [] + []", "+"),
                ("@ := 0 .. 0", "range"),
                ("@ := xs[0:0]", "range read"),
                ("@ := xs[1:]", "open range read"),
                ("[..@] := []", "collect"),
                ("[_, ..@] := xs", "collect after one"),
                ("@ := rest()", "rest parameter"),
                ("@ := rest([]..)", "rest parameter of an empty spread"),
                ("@ := [[]..]", "spread"),
                ("@ := fresh()", "call"),
                ("@ := id([])", "argument"),
            ];
            let objs: [(&str, &str); 6] = [
                ("@ := {}", "literal"),
                ("{..@} := {}", "collect"),
                ("{a, ..@} := ob", "collect after one"),
                ("@ := {{}..}", "spread"),
                ("@ := freshobj()", "call"),
                ("@ := id({})", "argument"),
            ];
            let mut cases = vec![];
            for group in [&lists[..], &objs[..]] {
                for (p, pn) in group {
                    for (q, qn) in group {
                        let src = format!(
                            "{}{}\n{}\nprint(u === v)\nprint(v === u)\nprint(u !== v)\nprint(u === u)\nprint(u == v)\nw := u\nprint(w === u)\nprint(w !== u)\n",
                            setup,
                            p.replace('@', "u").replace("{a,", "{a,").replace("{a, ..u}", "{a, ..u}"),
                            q.replace('@', "v").replace("{a, ..v} := ob", "{\"a\": a2, ..v} := ob")
                        );
                        cases.push(Case::new(src, 9, format!("identity of two containers produced by {} and {}", pn, qn)));
                    }
                }
            }
            ctx.judge(cases, |c, r, o| {
                if o.stdout != r.stdout || r.is_ok() != (o.class == Class::Ok) {
                    viol("identity", format!("{}: printed {:?} ({:?}), reference {:?}", c.meta, o.out_str(), o.class, String::from_utf8_lossy(&r.stdout)))
                } else {
                    Verdict::Pass
                }
            })?;
        }
        // extreme integers, byte fragments of multi-byte characters, and an operand that is contained
        // in the other one (the same container, not a copy)
        {
            let mut cases = vec![];
            let ints = ["-9223372036854775807 - 1", "-9223372036854775807", "-1", "0", "1", "9223372036854775806", "9223372036854775807"];
            for a in ints {
                for b in ints {
                    for op in ["==", "!=", "<", "<=", ">", ">="] {
                        cases.push(Case::new(format!("a := {}\nb := {}\nprint(a {} b)\n", a, b, op), 10, format!("extreme integers {} {} {}", a, op, b)));
                        if op == "==" || op == "!=" {
                            cases.push(Case::new(format!("a := {}\nb := {}\nprint([a] {} [b])\nprint({{\"k\": [0, a]}} {} {{\"k\": [0, b]}})\n", a, b, op, op), 10, format!("extreme integers nested {} {} {}", a, op, b)));
                        }
                    }
                }
            }
            let frags = ["\"é\"[0]", "\"é\"[1]", "\"ñ\"[1]", "\"é\"[0:1]", "\"€\"[0:2]", "\"€\"[1:3]", "\"€\"[0]", "\"a\"", "\"é\"", "\"\""];
            for a in frags {
                for b in frags {
                    cases.push(Case::new(format!("a := {}\nb := {}\nprint(a == b)\nprint(a != b)\nprint([a] == [b])\nprint({{\"k\": a}} != {{\"k\": b}})\nprint((a + b) == \"é\")\nprint((a + a) == (b + b))\n", a, b), 10, format!("byte strings {} and {}", a, b)));
                }
            }
            for u in ["[]", "{}", "[0]", "{\"a\": 0}", "[[]]", "{\"a\": {}}", "{\"a\": []}", "[{}]", "{\"a\": {\"a\": 0}}", "[[0], 1]", "{\"a\": [0], \"b\": {}}"] {
                for wrap in ["[u]", "{\"a\": u}", "[[u]]", "{\"a\": [u]}", "{\"a\": {\"a\": u}}", "[u, u]", "{\"a\": u, \"b\": u}", "[u, 0]", "{\"a\": u, \"b\": 0}"] {
                    for cmp in ["u == v", "v == u", "u != v", "v != u"] {
                        cases.push(Case::new(format!("u := {}\nv := {}\nprint({})\n", u, wrap, cmp), 11, format!("{} with u = {} inside v = {}", cmp, u, wrap)));
                    }
                    cases.push(Case::new(format!("u := {}\nv := {}\nw := {}\nprint(v == w)\nprint(w == v)\nprint(v != w)\nprint(u)\nprint(v)\n", u, wrap, wrap), 10, format!("two holders of u = {} as {}", u, wrap)));
                }
            }
            // a comparison depends on the contents at the moment it is evaluated: compare, change one
            // operand through every kind of write, compare again in both orders
            for (val, writes) in [
                ("[1, [2], 3]", vec!["a[0] = 9", "a[0:1] = [9]", "a[1][0] = 9", "a[1:2] = [[9]]", "a[2] += 1", "[a[0]] = [9]", "for [i, e] in [0] {\na[i] = 9\n}", "al := a\nal[0] = 9", "setf(a)", "a[0:3] = [1, [2], 4]", "a[1] += [1]"]),
                ("{\"k\": 1, \"l\": [2]}", vec!["a.k = 9", "a[\"k\"] = 9", "a.l[0] = 9", "a.k += 1", "{\"z\": a.k} = {\"z\": 9}", "al := a\nal.k = 9", "a.n = 1", "seto(a)", "a.l[0:1] = [9]", "a.l += [1]"]),
            ] {
                for w in writes {
                    cases.push(Case::new(
                        format!("fn setf(p) {{\np[0] = 9\n}}\nfn seto(p) {{\np.k = 9\n}}\na := {}\nb := {}\nprint(a == b)\nprint(b == a)\nprint(a != b)\n{}\nprint(a == b)\nprint(b == a)\nprint(a != b)\nprint(b != a)\nprint([a] == [b])\nc := {}\nprint(a == c)\n", val, val, w, val),
                        10,
                        format!("comparison before and after the write {:?} on {}", w.replace('\n', "; "), val),
                    ));
                }
            }
            // functions: the same function value reached along different routes is `===` itself
            cases.push(Case::new("fn f() {\nreturn 1\n}\no := {\"f\": f, \"id\": 1}\np := {\"f\": o.f}\ng := o.f\nxs := [f, o.f]\nprint(o.f === f)\nprint(g === f)\nprint(p.f === o.f)\nprint(xs[0] === xs[1])\nprint(f !== g)\nprint(o[\"f\"] === p.f)\nh := fn () {\nreturn 1\n}\nprint(h === f)\nprint(h === h)\n".to_string(), 10, "one function value reached along several routes".to_string()));
            // literals written directly on both sides, interpolated ones included
            for (l, r2) in [("$\"Hello ${n}\"", "\"Hello Jo\""), ("\"Hello Jo\"", "$\"Hello ${n}\""), ("$\"${n}\"", "\"\\${n}\""), ("$\"${n}\"", "$\"${n}\""), ("\"a\"", "\"a\""), ("\"a\"", "\"b\""), ("[1, \"a\"]", "[1, \"a\"]"), ("{\"k\": $\"${n}\"}", "{\"k\": \"Jo\"}"), ("1", "\"1\""), ("$\"${n}\"", "1")] {
                for op in ["==", "!="] {
                    cases.push(Case::new(format!("n := \"Jo\"\nprint(\"pre\")\nprint({} {} {})\n", l, op, r2), 10, format!("literals compared directly: {} {} {}", l, op, r2)));
                }
            }
            // the same expression written on both sides produces two values
            for e in ["[]", "{}", "[1]", "{\"k\": 1}", "fn () {\n}", "[[]]", "mk()", "xs[:]", "xs + []", "0 .. 2", "[xs..]", "{ob..}"] {
                cases.push(Case::new(format!("fn mk() {{\nreturn []\n}}\nxs := [1]\nob := {{\"a\": 1}}\nprint({e} === {e})\nprint({e} !== {e})\nprint([{e}, {e}][0] === [{e}, {e}][1])\nu := {e}\nprint(u === {e})\nprint(u === u)\n", e = e), 10, format!("the expression {} written twice", e.replace('\n', " "))));
                if !e.starts_with("fn") {
                    cases.push(Case::new(format!("fn mk() {{\nreturn []\n}}\nxs := [1]\nob := {{\"a\": 1}}\nprint({e} == {e})\nprint({e} != {e})\n", e = e), 10, format!("the expression {} compared with itself", e)));
                }
            }
            ctx.judge(cases, |c, r, o| {
                if !matches!(o.class, Class::Ok | Class::Err) {
                    return viol("crash", format!("{}: {:?}", c.meta, o.class));
                }
                if r.is_ok() {
                    if o.class != Class::Ok || o.stdout != r.stdout {
                        return viol("value", format!("{}: printed {:?} ({:?} {}), reference {:?}", c.meta, o.out_str(), o.class, o.msg, String::from_utf8_lossy(&r.stdout)));
                    }
                } else if c.tag == 11 && o.class == Class::Ok {
                    // a differently-typed pair exists; a plain difference may be met first
                    let want = if c.meta.starts_with("u ==") || c.meta.starts_with("v ==") { "false\n" } else { "true\n" };
                    if o.out_str() != want {
                        return viol("value", format!("{}: printed {:?} although the operands differ", c.meta, o.out_str()));
                    }
                } else if c.tag == 10 && o.class == Class::Ok {
                    return viol("value", format!("{}: the reference reports {}, the run printed {:?}", c.meta, ref_summary(r), o.out_str()));
                }
                Verdict::Pass
            })?;
        }
        ctx.guard("pairs with differently-typed corresponding positions were explored", pairs_done > 0);
        ctx.extra.insert(
            "bounds".into(),
            json!({"pool_values": n, "ordered_pairs": pairs_done, "construction_patterns": 3, "long_lists": ll.len(), "long_objects": lo.len(),
                   "transitivity_triples_checked": trans_checked, "law_violations": law_viol}),
        );
        Ok(())
    }

    fn oracle(&self, _c: &Case, _r: &RefOutcome, o: &Outcome) -> Verdict {
        // per-pair judgement happens on the grouped answers; here only the universal clause
        match o.class {
            Class::Ok | Class::Err => Verdict::Pass,
            _ => viol("crash", format!("{:?}", o.class)),
        }
    }
}

fn variant_name(v: u32) -> &'static str {
    match v {
        0 => "operands built separately",
        1 => "equal sub-terms shared",
        3 => "equal sub-terms shared inside each operand",
        _ => "object keys written in reverse order",
    }
}
