//! C06 — integer arithmetic is exact over 64 bits or reports an error.
//! Complete product over a grid of boundary values: every ordered pair x
//! {+ - * / %} x 5 forms, 6 comparisons, the division identity, literal
//! spellings, too-large literals, ranges.  Oracle: i128 arithmetic.
use super::{find_symbol, Check};
use crate::engine::*;
use crate::refm::eval::RefOutcome;
use crate::subject::{Class, MachineryError, Outcome};
use serde_json::json;

pub struct C06;

const T_ARITH: u32 = 1;
const T_CMP: u32 = 2;
const T_IDENT: u32 = 3;
const T_LIT: u32 = 4;
const T_BIGLIT: u32 = 5;
const T_RANGE: u32 = 6;
const T_CHAIN: u32 = 7;
const T_REF: u32 = 8;

const AR: [&str; 5] = ["+", "-", "*", "/", "%"];
const CMP: [&str; 6] = ["<", "<=", ">", ">=", "==", "!="];

pub fn grid(tier: Tier) -> Vec<i64> {
    let mut v: Vec<i128> = vec![];
    match tier {
        Tier::Quick => {
            for x in [0i128, 1, 2, 3, 7, 10] {
                v.push(x);
                v.push(-x);
            }
            for k in [2u32, 3, 4, 5, 7, 8, 9, 12, 15, 16, 20, 24, 30, 31, 32, 33, 40, 47, 48, 53, 56, 60, 61, 62, 63] {
                let p = 1i128 << k;
                for d in [-1i128, 0, 1] {
                    v.push(p + d);
                    v.push(-(p + d));
                }
            }
            for x in [3037000499i128, 3037000500] {
                v.push(x);
                v.push(-x);
            }
            let max = i64::MAX as i128;
            let min = i64::MIN as i128;
            v.extend_from_slice(&[max, max - 1, min, min + 1, min + 2, max / 2, max / 2 + 1, min / 2, min / 2 - 1]);
        }
        Tier::Thorough => {
            for k in 0..=63u32 {
                let p = 1i128 << k;
                for d in [-2i128, -1, 0, 1, 2] {
                    v.push(p + d);
                    v.push(-(p + d));
                }
                v.push(3 * p);
                v.push(-3 * p);
            }
            for x in [3i128, 5, 7, 10, 3037000499, 3037000500, 3037000501, 2147483647, 4294967295, 6074001000, 1000000007] {
                v.push(x);
                v.push(-x);
            }
            let max = i64::MAX as i128;
            let min = i64::MIN as i128;
            v.extend_from_slice(&[max, max - 1, max - 2, min, min + 1, min + 2, max / 3, min / 3, max / 2, max / 2 + 1, min / 2, min / 2 - 1]);
        }
    }
    let mut out: Vec<i64> = v
        .into_iter()
        .filter(|x| *x >= i64::MIN as i128 && *x <= i64::MAX as i128)
        .map(|x| x as i64)
        .collect();
    out.sort();
    out.dedup();
    out
}

/// source text denoting `n` (MIN cannot be written as a literal)
pub fn lit(n: i64) -> String {
    if n == i64::MIN {
        "(-9223372036854775807 - 1)".to_string()
    } else {
        format!("{}", n)
    }
}

fn exact(op: &str, a: i64, b: i64) -> Option<i128> {
    let (x, y) = (a as i128, b as i128);
    let r = match op {
        "+" => x + y,
        "-" => x - y,
        "*" => x * y,
        "/" => {
            if y == 0 {
                return None;
            }
            x / y
        }
        "%" => {
            if y == 0 {
                return None;
            }
            x % y
        }
        _ => unreachable!(),
    };
    if r >= i64::MIN as i128 && r <= i64::MAX as i128 {
        Some(r)
    } else {
        None
    }
}

fn arith_prog(a: i64, b: i64, op: &str, form: usize) -> String {
    match form {
        0 => format!("a := {}\nb := {}\nprint(a {} b)\n", lit(a), lit(b), op),
        1 => format!("x := {}\nb := {}\nx {}= b\nprint(x)\n", lit(a), lit(b), op),
        2 => format!("xs := [0, {}]\nb := {}\nxs[1] {}= b\nprint(xs[1])\n", lit(a), lit(b), op),
        3 => format!("o := {{\"k\": {}}}\nb := {}\no.k {}= b\nprint(o.k)\n", lit(a), lit(b), op),
        4 => format!("o := {{\"k\": {}}}\nb := {}\no[\"k\"] {}= b\nprint(o[\"k\"])\n", lit(a), lit(b), op),
        _ => format!("x := {}\nb := {}\nx = x {} b\nprint(x)\n", lit(a), lit(b), op),
    }
}

fn has_number(msg: &str, n: i64) -> bool {
    let s = format!("{}", n);
    let b = msg.as_bytes();
    let mut from = 0;
    while let Some(i) = msg[from..].find(&s) {
        let st = from + i;
        let en = st + s.len();
        let before_ok = st == 0 || !(b[st - 1] as char).is_ascii_digit();
        let after_ok = en >= b.len() || !(b[en] as char).is_ascii_digit();
        if before_ok && after_ok {
            return true;
        }
        from = st + 1;
    }
    false
}

fn render_int_list(v: &[i64]) -> String {
    let mut s = String::from("[\n");
    for x in v {
        s.push_str(&format!("    {},\n", x));
    }
    s.push_str("]\n");
    s
}

impl Check for C06 {
    fn id(&self) -> &'static str {
        "C06"
    }

    fn run(&self, ctx: &mut Ctx) -> Result<(), MachineryError> {
        let g = grid(ctx.tier);
        ctx.rule = "complete product over the boundary grid G: every ordered pair (a,b) x {+ - * / %} x 6 forms (expression, op-assign on variable / list element / property (two spellings), x = x op b), 6 comparisons, the identity (a/b)*b + a%b == a, every `_` placement (<=2) of every non-negative grid literal with and without `-`, every non-negative grid literal padded with leading zeros to 8 widths up to 64 digits, too-large literals, ranges a .. a+d for d in [-2,6], every descending pair as a range, ranges iterated directly / evaluated again after the first result changed / spread, op-assignment on a variable shadowing another one, three-operand chains, ranges whose bounds are changed by the loop body or written as `t ± k` at the edges, element op-assignment at every position of lists of 1..6 items, 9 exact / inexact operations in 19 expression positions (conditions of if / else-if / while, iterables, indices, bounds, arguments, returns, literals, targets); non-trivial = every case (all are distinct tuples); distinct = distinct (reference outcome, diagnostic shape)".to_string();
        ctx.rule.push_str("; operators between literal / name / `]` / `)` operands written in four spacings (8 x 8 operands, 11 operators)");
        let mut total_pairs = 0u64;
        let mut overflow_cells = 0u64;
        for chunk in g.chunks(8) {
            let mut cases = vec![];
            for &a in chunk {
                for &b in &g {
                    total_pairs += 1;
                    for (oi, op) in AR.iter().enumerate() {
                        if exact(op, a, b).is_none() {
                            overflow_cells += 1;
                        }
                        for form in 0..6 {
                            let mut c = Case::new(arith_prog(a, b, op, form), T_ARITH, format!("{} {} {} {}", a, b, oi, form));
                            c.nontrivial = true;
                            cases.push(c);
                        }
                    }
                    for (oi, op) in CMP.iter().enumerate() {
                        cases.push(Case::new(
                            format!("a := {}\nb := {}\nprint(a {} b)\n", lit(a), lit(b), op),
                            T_CMP,
                            format!("{} {} {}", a, b, oi),
                        ));
                    }
                    // identity, where every part is defined
                    if b != 0 && !(a == i64::MIN && b == -1) {
                        cases.push(Case::new(
                            format!("a := {}\nb := {}\nprint(((a / b) * b + a % b) == a)\n", lit(a), lit(b)),
                            T_IDENT,
                            format!("{} {}", a, b),
                        ));
                    }
                }
            }
            ctx.judge(cases, |c, r, o| self.oracle(c, r, o))?;
            if ctx.over_cap() {
                break;
            }
        }
        // literals
        let mut cases = vec![];
        for &n in g.iter().filter(|n| **n >= 0) {
            let digits = format!("{}", n);
            let k = digits.len();
            let mut placements: Vec<Vec<usize>> = vec![vec![]];
            for i in 1..=k {
                placements.push(vec![i]);
                for j in i..=k {
                    placements.push(vec![i, j]);
                }
            }
            for p in placements {
                let mut s = String::new();
                for (i, ch) in digits.chars().enumerate() {
                    s.push(ch);
                    for q in &p {
                        if *q == i + 1 {
                            s.push('_');
                        }
                    }
                }
                cases.push(Case::new(format!("print({})\n", s), T_LIT, format!("{} +", n)));
                cases.push(Case::new(format!("print(-{})\n", s), T_LIT, format!("{} -", n)));
                cases.push(Case::new(format!("print(0 - {})\n", s), T_LIT, format!("{} -", n)));
            }
        }
        // leading zeros do not change the value, whatever the number of digits
        for &n in g.iter().filter(|n| **n >= 0) {
            let digits = format!("{}", n);
            for width in [digits.len() + 1, 18, 19, 20, 21, 25, 40, 64] {
                if width <= digits.len() {
                    continue;
                }
                let s = format!("{}{}", "0".repeat(width - digits.len()), digits);
                cases.push(Case::new(format!("print({})\n", s), T_LIT, format!("{} +", n)));
                cases.push(Case::new(format!("print(-{})\n", s), T_LIT, format!("{} -", n)));
                let s2 = format!("{}_{}", "0".repeat(width - digits.len()), digits);
                cases.push(Case::new(format!("print(1 - {})\n", s2), T_REF, format!("zero-padded literal {} with a separator", s2)));
            }
        }
        for big in ["9223372036854775808", "9223372036854775809", "9_223_372_036_854_775_808", "18446744073709551616", "99999999999999999999999"] {
            for ctxt in ["print(@)\n", "print(-@)\n", "print(0 - @)\n", "print(-1 - @)\n", "x := 5\nprint(x -@)\n", "x := 5\nprint(x - @)\n", "print(1)\nx := [@]\n"] {
                cases.push(Case::new(ctxt.replace('@', big), T_BIGLIT, big.to_string()));
            }
        }
        // every descending or empty range over the grid is the empty list
        for &a in &g {
            for &b in &g {
                if b <= a {
                    cases.push(Case::new(
                        format!("a := {}\nb := {}\nprint(a .. b)\n", lit(a), lit(b)),
                        T_RANGE,
                        format!("{} {}", a, b),
                    ));
                }
            }
        }
        // three-operand chains: evaluated left to right, every step exact or reported
        let small: Vec<i64> = {
            let max = i64::MAX;
            let min = i64::MIN;
            vec![0, 1, -1, 2, -2, 3037000500, -3037000500, 1 << 62, -(1 << 62), max, max - 1, min, min + 1, 4611686018427387905]
        };
        for &a in &small {
            for &b in &small {
                for &c3 in &small {
                    for o1 in ["+", "-", "*"] {
                        for o2 in ["+", "-", "*"] {
                            cases.push(Case::new(
                                format!("x := {}\nprint(x {} {} {} {})\n", lit(a), o1, lit(b), o2, lit(c3)),
                                T_CHAIN,
                                format!("{} {} {} {} {}", a, o1, b, o2, c3),
                            ));
                            // parentheses on the right are honoured (no re-association)
                            cases.push(Case::new(
                                format!("x := {}\ny := {}\nprint(x {} (y {} {}))\n", lit(a), lit(b), o1, o2, lit(c3)),
                                T_CHAIN,
                                format!("{} {} {} {} {} R", a, o1, b, o2, c3),
                            ));
                        }
                    }
                }
            }
        }
        // operators between literal operands with and without the separators around them
        for &a in &[0i64, 1, -1, 10, -10, 25, i64::MAX, -i64::MAX] {
            for &b in &[0i64, 1, -1, 10, -10, 37, i64::MAX, -i64::MAX] {
                for op in AR.iter().chain(CMP.iter()) {
                    for (l, r) in [(" ", " "), ("", ""), (" ", ""), ("", " ")] {
                        cases.push(Case::new(format!("print({}{}{}{}{})\n", a, l, op, r, b), T_REF, format!("{} {} {} written {:?}", a, op, b, format!("{}{}{}{}{}", a, l, op, r, b))));
                        cases.push(Case::new(format!("x := {}\nxs := [x]\nprint(x{}{}{}{})\nprint(xs[0]{}{}{}{})\nprint((x){}{}{}{})\n", a, l, op, r, b, l, op, r, b, l, op, r, b), T_REF, format!("x = {}: x{}{}{}{} after a name, `]` and `)`", a, l, op, r, b)));
                    }
                }
            }
        }
        ctx.judge(std::mem::take(&mut cases), |c, r, o| self.oracle(c, r, o))?;
        // ranges
        for &a in &g {
            for d in -2i128..=6 {
                let b = a as i128 + d;
                if b < i64::MIN as i128 || b > i64::MAX as i128 {
                    continue;
                }
                cases.push(Case::new(
                    format!("a := {}\nb := {}\nprint(a .. b)\n", lit(a), lit(b as i64)),
                    T_RANGE,
                    format!("{} {}", a, b),
                ));
            }
        }
        // uses of a range: iterated directly, twice with a change to the first result in between,
        // as a spread; and x op= y on a variable that shadows another one -- judged against the
        // reference interpreter (which is held to exact arithmetic by the cases above)
        let edge: Vec<i64> = vec![i64::MIN, i64::MIN + 1, -3, -1, 0, 1, 2, i64::MAX - 2, i64::MAX - 1, i64::MAX];
        for &a in &edge {
            for &b in &edge {
                if (b as i128) - (a as i128) > 6 {
                    continue;
                }
                let (la, lb) = (lit(a), lit(b));
                cases.push(Case::new(format!("n := 0\nfor e in {} .. {} {{\nn += 1\nprint(e)\n}}\nprint(n)\n", la, lb), T_REF, format!("for over the range literal {} .. {}", a, b)));
                cases.push(Case::new(format!("a := {}\nb := {}\nn := 0\nfor [i, v] in a .. b {{\nn += v\n}}\nprint(n)\n", la, lb), T_REF, format!("for over the range {} .. {} of variables", a, b)));
                cases.push(Case::new(format!("a := {}\nb := {}\nr1 := a .. b\nr1 += [7]\nr1[0] = 99\nr2 := a .. b\nprint(r2)\nprint(r1)\nprint([(a .. b).., 5])\n", la, lb), T_REF, format!("the range {} .. {} evaluated again after its first result changed", a, b)));
                cases.push(Case::new(format!("a := {}\nb := {}\nr1 := a .. b\nfor [i, v] in r1 {{\nr1[i] = 0\n}}\nprint(a .. b)\n", la, lb), T_REF, format!("the range {} .. {} evaluated again after its elements were overwritten", a, b)));
            }
        }
        for &a in &edge {
            for &b in &edge {
                for op in AR {
                    cases.push(Case::new(format!("x := 7\nb := {}\n{{\nx := {}\nx {}= b\nprint(x)\n}}\nprint(x)\n", lit(b), lit(a), op), T_REF, format!("{} {}= {} on a block variable shadowing another", a, op, b)));
                    cases.push(Case::new(format!("x := 7\nb := {}\nfn f() {{\nx := {}\nx {}= b\nprint(x)\nreturn fn () {{\nx {}= 1\nreturn x\n}}\n}}\nprint(f()())\nprint(x)\n", lit(b), lit(a), op, op), T_REF, format!("{} {}= {} on a function variable shadowing a global", a, op, b)));
                }
            }
        }
        // a range is built once from its two bounds: a body that changes what a bound read does not
        // change the iteration; bounds written as `expr + literal` are exact or reported like any sum
        for (lo, hi) in [(2i64, 6i64), (0, 3), (-2, 2), (5, 5)] {
            for body in ["n -= 1", "n += 1", "m += 1", "n = 0", "m = n"] {
                cases.push(Case::new(format!("m := {}\nn := {}\nfor [i, v] in m .. n {{\n{}\nprint([i, v])\n}}\nprint([m, n])\n", lo, hi, body), T_REF, format!("for over {} .. {} whose body runs {}", lo, hi, body)));
                cases.push(Case::new(format!("m := {}\nn := {}\nfor v in m .. n + 1 {{\n{}\nprint(v)\n}}\nfor v in m - 1 .. n {{\nprint(v)\nbreak\n}}\n", lo, hi, body), T_REF, format!("for over {} .. {} + 1 whose body runs {}", lo, hi, body)));
            }
        }
        for top in [i64::MAX, i64::MAX - 1, i64::MAX - 2, i64::MIN, i64::MIN + 1, i64::MIN + 2, 5] {
            for k in [1i64, 2, 3] {
                for tmpl in ["print(t .. t + K)\n", "print(t - K .. t)\n", "print(t + K .. t)\n", "print(t .. t - K)\n", "xs := [1, 2, 3]\nprint(xs[0:t + K])\n", "for e in t - K .. t {\nbreak\n}\nprint(1)\n", "x := t + K\n", "x := [t - K, t + K]\n", "print(0 .. t * K)\n"] {
                    cases.push(Case::new(format!("t := {}\nprint(\"pre\")\n{}print(\"post\")\n", lit(top), tmpl.replace('K', &format!("{}", k))), T_REF, format!("bound {} with offset {} in {:?}", top, k, tmpl)));
                }
            }
        }
        // op-assignment on an element changes that element only, wherever it stands in the list
        for n in 1..=6usize {
            for i in 0..n {
                for op in AR {
                    let items: Vec<String> = (0..n).map(|j| format!("{}", 10 * (j + 1))).collect();
                    cases.push(Case::new(format!("a := [{}]\na[{}] {}= 5\nprint(a)\nb := a\nb[{}] {}= 3\nprint(a)\n", items.join(", "), i, op, n - 1 - i, op), T_REF, format!("element {} of {} items {}= 5", i, n, op)));
                }
            }
        }
        // an operation that cannot be exact is reported wherever the expression stands
        for (a, op, b) in [(i64::MAX, "+", 1i64), (i64::MIN, "-", 1), (i64::MAX, "*", 2), (i64::MIN, "/", -1), (5, "/", 0), (5, "%", 0), (i64::MIN, "*", -1), (3, "+", 4), (i64::MIN, "%", -1)] {
            let e = format!("a {} b", op);
            for pos in [
                "if @ == 0 {\nprint(\"t\")\n} else {\nprint(\"f\")\n}\n",
                "if false {\n} else if @ == 0 {\nprint(\"t\")\n}\n",
                "n := 0\nwhile @ != 0 && n < 2 {\nn += 1\n}\nprint(n)\n",
                "n := 0\nwhile n < 2 && @ != 0 {\nn += 1\n}\nprint(n)\n",
                "for e in 0 .. (@) {\nbreak\n}\n",
                "for e in [@] {\nprint(e)\n}\n",
                "xs := [1, 2, 3, 4, 5, 6, 7, 8]\nprint(xs[@])\n",
                "xs := [1, 2, 3, 4, 5, 6, 7, 8]\nprint(xs[0:@])\n",
                "xs := [1, 2, 3, 4, 5, 6, 7, 8]\nxs[@] = 0\nprint(xs)\n",
                "fn f(p) {\nreturn p\n}\nprint(f(@))\n",
                "fn f() {\nreturn @\n}\nprint(f())\n",
                "print([0, @])\n",
                "print({\"k\": @})\n",
                "x := 1\nx += @\nprint(x)\n",
                "x := @\nprint(x)\n",
                "[x] := [@]\nprint(x)\n",
                "print((@) == (@))\n",
                "print(-(@))\n",
                "o := {\"m\": fn (p) {\nreturn p\n}}\nprint(o.m(@))\n",
            ] {
                cases.push(Case::new(format!("a := {}\nb := {}\nprint(\"pre\")\n{}print(\"post\")\n", lit(a), lit(b), pos.replace('@', &e)), T_REF, format!("{} {} {} in position {:?}", a, op, b, pos.replace('\n', " "))));
            }
        }
        ctx.judge(cases, |c, r, o| self.oracle(c, r, o))?;
        ctx.guard("some operation overflowed and some did not", overflow_cells > 0 && overflow_cells < total_pairs * 5);
        ctx.extra.insert(
            "bounds".into(),
            json!({"grid_values": g.len(), "ordered_pairs": total_pairs, "arith_forms": 6,
                   "cells_out_of_range_or_zero_divisor": overflow_cells}),
        );
        Ok(())
    }

    fn oracle(&self, c: &Case, r: &RefOutcome, o: &Outcome) -> Verdict {
        if c.tag == T_REF {
            if o.stdout != r.stdout || r.is_ok() != (o.class == Class::Ok) {
                return viol("range-or-op-assign", format!("{}: printed {:?} ({:?}), reference {:?}", c.meta, o.out_str(), o.class, String::from_utf8_lossy(&r.stdout)));
            }
            return Verdict::Pass;
        }
        let p: Vec<&str> = c.meta.split(' ').collect();
        match c.tag {
            T_ARITH => {
                let a: i64 = p[0].parse().unwrap();
                let b: i64 = p[1].parse().unwrap();
                let op = AR[p[2].parse::<usize>().unwrap()];
                match exact(op, a, b) {
                    Some(v) => {
                        let exp = format!("{}\n", v);
                        if o.class != Class::Ok || o.out_str() != exp {
                            return viol(
                                "inexact-result",
                                format!("{} {} {} (form {}) must be {} but the run ended {:?} printing {:?} {}", a, op, b, p[3], v, o.class, o.out_str(), o.msg),
                            );
                        }
                    }
                    None => {
                        if o.class != Class::Err {
                            return viol(
                                "unreported-overflow",
                                format!("{} {} {} (form {}) does not fit / has a zero divisor, but the run ended {:?} printing {:?}", a, op, b, p[3], o.class, o.out_str()),
                            );
                        }
                        if !o.stdout.is_empty() {
                            return viol("output-before-failure", format!("printed {:?}", o.out_str()));
                        }
                        let line = o.msg.lines().next().unwrap_or("");
                        if find_symbol(line, op).is_none() || !has_number(line, a) || !has_number(line, b) {
                            return viol(
                                "diagnostic-names-operation",
                                format!("diagnostic {:?} does not name the operation {} and the operands {} and {}", line, op, a, b),
                            );
                        }
                    }
                }
                Verdict::Pass
            }
            T_CMP => {
                let a: i64 = p[0].parse().unwrap();
                let b: i64 = p[1].parse().unwrap();
                let op = CMP[p[2].parse::<usize>().unwrap()];
                let v = match op {
                    "<" => a < b,
                    "<=" => a <= b,
                    ">" => a > b,
                    ">=" => a >= b,
                    "==" => a == b,
                    _ => a != b,
                };
                let exp = format!("{}\n", v);
                if o.class != Class::Ok || o.out_str() != exp {
                    return viol("comparison", format!("{} {} {} must be {}: {:?} {:?} {}", a, op, b, v, o.class, o.out_str(), o.msg));
                }
                Verdict::Pass
            }
            T_IDENT => {
                if o.class != Class::Ok || o.out_str() != "true\n" {
                    return viol("division-identity", format!("(a/b)*b + a%b == a fails for a={} b={}: {:?} {:?} {}", p[0], p[1], o.class, o.out_str(), o.msg));
                }
                Verdict::Pass
            }
            T_LIT => {
                let n: i64 = p[0].parse().unwrap();
                let v: i128 = if p[1] == "-" { -(n as i128) } else { n as i128 };
                let exp = format!("{}\n", v);
                if o.class != Class::Ok || o.out_str() != exp {
                    return viol("literal-value", format!("{:?} must print {}: {:?} {:?} {}", c.src, v, o.class, o.out_str(), o.msg));
                }
                Verdict::Pass
            }
            T_BIGLIT => {
                if o.class != Class::Err || !o.stdout.is_empty() {
                    return viol("literal-too-large", format!("{:?}: a literal above 2^63-1 must be rejected before anything runs: {:?} {:?}", c.src, o.class, o.out_str()));
                }
                Verdict::Pass
            }
            T_CHAIN => {
                // x o1 b o2 c with the tiers of the language: `*` binds tighter than `+ -`,
                // equal tiers group left to right
                let a: i64 = p[0].parse().unwrap();
                let b: i64 = p[2].parse().unwrap();
                let c3: i64 = p[4].parse().unwrap();
                let (o1, o2) = (p[1], p[3]);
                let tight = |o: &str| o == "*";
                let result: Option<i128> = if p.len() > 5 || (tight(o2) && !tight(o1)) {
                    exact(o2, b, c3).and_then(|t| exact(o1, a, t as i64))
                } else {
                    exact(o1, a, b).and_then(|t| exact(o2, t as i64, c3))
                };
                match result {
                    Some(v) => {
                        if o.class != Class::Ok || o.out_str() != format!("{}\n", v) {
                            return viol("inexact-result", format!("{} {} {} {} {} must be {}: {:?} {:?} {}", a, o1, b, o2, c3, v, o.class, o.out_str(), o.msg));
                        }
                    }
                    None => {
                        if o.class != Class::Err {
                            return viol("unreported-overflow", format!("{} {} {} {} {}: an intermediate or final result does not fit, but the run ended {:?} printing {:?}", a, o1, b, o2, c3, o.class, o.out_str()));
                        }
                    }
                }
                Verdict::Pass
            }
            T_RANGE => {
                let a: i64 = p[0].parse().unwrap();
                let b: i64 = p[1].parse().unwrap();
                let v: Vec<i64> = (a..b).collect();
                let exp = render_int_list(&v);
                if o.class != Class::Ok || o.out_str() != exp {
                    return viol("range", format!("{} .. {} must be {:?}: {:?} {:?} {}", a, b, v, o.class, o.out_str(), o.msg));
                }
                Verdict::Pass
            }
            _ => Verdict::Pass,
        }
    }
}
