//! Reference evaluator: an independent executable reading of docs/features.md
//! and of the property statements (design/reference_semantics.md).
//! Integer-addressed store, linked environment frames, jumps as `Flow` values
//! propagated by every construct, arithmetic in i128 with range check.
use super::ast::*;
use super::lex::{Piece, Pos};
use super::parse::{parse_expr, parse_prog, FrontErr};
use std::collections::BTreeMap;
use std::rc::Rc;

pub type Addr = usize;

#[derive(Clone, Copy, Debug, PartialEq, Eq, Hash, PartialOrd, Ord)]
pub enum Kind {
    Null,
    Bool,
    Int,
    Str,
    List,
    Obj,
    Func,
}

impl Kind {
    pub fn name(self) -> &'static str {
        match self {
            Kind::Null => "null",
            Kind::Bool => "bool",
            Kind::Int => "int",
            Kind::Str => "string",
            Kind::List => "list",
            Kind::Obj => "object",
            Kind::Func => "func",
        }
    }
}

#[derive(Clone, Copy, Debug, PartialEq, Eq)]
pub enum Bi {
    Print,
    Type,
    Len,
}

#[derive(Clone, Debug, PartialEq)]
pub enum Val {
    Null,
    Bool(bool),
    Int(i64),
    Str(Rc<Vec<u8>>),
    List(Addr),
    Obj(Addr),
    Func(Addr),
    Builtin(Bi),
}

impl Val {
    pub fn kind(&self) -> Kind {
        match self {
            Val::Null => Kind::Null,
            Val::Bool(_) => Kind::Bool,
            Val::Int(_) => Kind::Int,
            Val::Str(_) => Kind::Str,
            Val::List(_) => Kind::List,
            Val::Obj(_) => Kind::Obj,
            Val::Func(_) | Val::Builtin(_) => Kind::Func,
        }
    }
    pub fn str(s: &str) -> Val {
        Val::Str(Rc::new(s.as_bytes().to_vec()))
    }
}

/// a stored value together with its provenance (the object it was last read from)
#[derive(Clone, Debug)]
pub struct SVal {
    pub v: Val,
    pub src: Option<Box<Val>>,
}

impl SVal {
    pub fn plain(v: Val) -> SVal {
        SVal { v, src: None }
    }
}

pub struct FuncData {
    pub name: Option<String>,
    pub params: Vec<Expr>,
    pub collect: bool,
    pub body: Rc<Vec<Stmt>>,
    pub env: usize,
}

pub enum Cell {
    List(Vec<SVal>),
    Obj(BTreeMap<String, SVal>),
    Func(FuncData),
}

struct Frame {
    vars: Vec<(String, SVal, Pos)>,
    parent: Option<usize>,
}

#[derive(Clone, Debug, PartialEq)]
pub enum EKind {
    Undefined(String),
    Redeclared { name: String, prev: Pos },
    OpType { op: Op, l: Kind, r: Kind },
    EqType { op: Op, l: Kind, r: Kind },
    Overflow { op: Op, a: i64, b: i64 },
    NotCallable(Kind),
    Arity,
    BreakOutside,
    ContinueOutside,
    ReturnOutside,
    /// a typed context received the wrong kind (condition, index, bound, name, slot, ...)
    CtxType(&'static str, Kind),
    SlotParse,
    RenderCycle,
    Other(&'static str),
    Budget,
}

#[derive(Clone, Debug)]
pub struct RErr {
    pub kind: EKind,
    /// position the reference attributes to the error
    pub pos: Pos,
    /// true when a property fixes this position (C18/C20); otherwise only the
    /// bounds of C17 apply
    pub exact: bool,
    /// name of the innermost user function the failing construct is in
    pub func: Option<String>,
    /// active user calls, innermost first: (position of the call, name of the function
    /// containing the call or `<root>`)
    pub stack: Vec<(Pos, String)>,
    /// the error was raised inside an interpolation slot (position convention open)
    pub in_slot: bool,
}

pub enum Flow {
    None,
    Break(Pos),
    Continue(Pos),
    Return(SVal, Pos),
}

#[derive(Clone, Debug)]
pub enum RefResult {
    Ok,
    Front(FrontErr),
    Err(RErr),
}

#[derive(Clone, Debug)]
pub struct RefOutcome {
    pub stdout: Vec<u8>,
    pub result: RefResult,
    /// the program printed or `==`-traversed a container reachable from itself
    pub cyclic_touch: bool,
    pub steps: u64,
}

impl RefOutcome {
    pub fn is_ok(&self) -> bool {
        matches!(self.result, RefResult::Ok)
    }
    pub fn budget_exceeded(&self) -> bool {
        matches!(&self.result, RefResult::Err(e) if e.kind == EKind::Budget)
    }
}

pub struct Interp {
    pub heap: Vec<Cell>,
    frames: Vec<Frame>,
    pub out: Vec<u8>,
    steps: u64,
    budget: u64,
    fn_stack: Vec<String>,
    pub cyclic_touch: bool,
    in_slot: u32,
    depth: u32,
}

type R<T> = Result<T, RErr>;

#[derive(Clone, Copy, PartialEq)]
enum Mode {
    Decl,
    Assign,
}

pub fn run(src: &str, budget: u64) -> RefOutcome {
    match parse_prog(src) {
        Err(fe) => RefOutcome {
            stdout: vec![],
            result: RefResult::Front(fe),
            cyclic_touch: false,
            steps: 0,
        },
        Ok(prog) => run_prog(&prog, budget),
    }
}

pub fn run_prog(prog: &[Stmt], budget: u64) -> RefOutcome {
    let (o, _) = run_prog_keep(prog, budget);
    o
}

/// run and also return the interpreter (heap, top-level frame) for inspection
pub fn run_prog_keep(prog: &[Stmt], budget: u64) -> (RefOutcome, Interp) {
    let mut it = Interp {
        heap: vec![],
        frames: vec![],
        out: vec![],
        steps: 0,
        budget,
        fn_stack: vec![],
        cyclic_touch: false,
        in_slot: 0,
        depth: 0,
    };
    it.frames.push(Frame { vars: vec![], parent: None });
    it.frames[0].vars.push(("print".to_string(), SVal::plain(Val::Builtin(Bi::Print)), (0, 0)));
    let r = it.exec_stmts(prog, 0);
    let result = match r {
        Ok(Flow::None) => RefResult::Ok,
        Ok(Flow::Break(p)) => RefResult::Err(it.mk(EKind::BreakOutside, p, true)),
        Ok(Flow::Continue(p)) => RefResult::Err(it.mk(EKind::ContinueOutside, p, true)),
        Ok(Flow::Return(_, p)) => RefResult::Err(it.mk(EKind::ReturnOutside, p, true)),
        Err(e) => RefResult::Err(e),
    };
    let o = RefOutcome {
        stdout: it.out.clone(),
        result,
        cyclic_touch: it.cyclic_touch,
        steps: it.steps,
    };
    (o, it)
}

impl Interp {
    pub fn top_var(&self, name: &str) -> Option<&SVal> {
        self.frames[0].vars.iter().find(|v| v.0 == name).map(|v| &v.1)
    }

    fn mk(&self, kind: EKind, pos: Pos, exact: bool) -> RErr {
        RErr {
            kind,
            pos,
            exact,
            func: self.fn_stack.last().cloned(),
            stack: vec![],
            in_slot: self.in_slot > 0,
        }
    }
    fn fail<T>(&self, kind: EKind, pos: Pos) -> R<T> {
        Err(self.mk(kind, pos, false))
    }
    fn fail_exact<T>(&self, kind: EKind, pos: Pos) -> R<T> {
        Err(self.mk(kind, pos, true))
    }
    fn tick(&mut self) -> R<()> {
        self.steps += 1;
        if self.steps > self.budget || self.depth > 150 {
            return self.fail(EKind::Budget, (0, 0));
        }
        Ok(())
    }

    fn alloc(&mut self, c: Cell) -> Addr {
        self.heap.push(c);
        self.heap.len() - 1
    }
    fn new_list(&mut self, v: Vec<SVal>) -> SVal {
        let a = self.alloc(Cell::List(v));
        SVal::plain(Val::List(a))
    }
    fn new_obj(&mut self, m: BTreeMap<String, SVal>) -> SVal {
        let a = self.alloc(Cell::Obj(m));
        SVal::plain(Val::Obj(a))
    }
    pub fn list(&self, a: Addr) -> &Vec<SVal> {
        match &self.heap[a] {
            Cell::List(v) => v,
            _ => panic!("ref: not a list"),
        }
    }
    fn list_mut(&mut self, a: Addr) -> &mut Vec<SVal> {
        match &mut self.heap[a] {
            Cell::List(v) => v,
            _ => panic!("ref: not a list"),
        }
    }
    pub fn obj(&self, a: Addr) -> &BTreeMap<String, SVal> {
        match &self.heap[a] {
            Cell::Obj(v) => v,
            _ => panic!("ref: not an object"),
        }
    }
    fn obj_mut(&mut self, a: Addr) -> &mut BTreeMap<String, SVal> {
        match &mut self.heap[a] {
            Cell::Obj(v) => v,
            _ => panic!("ref: not an object"),
        }
    }

    // ----- environments -----

    fn push_frame(&mut self, parent: usize) -> usize {
        self.frames.push(Frame { vars: vec![], parent: Some(parent) });
        self.frames.len() - 1
    }
    fn lookup(&self, env: usize, name: &str) -> Option<SVal> {
        let mut f = Some(env);
        while let Some(i) = f {
            if let Some(v) = self.frames[i].vars.iter().find(|v| v.0 == name) {
                return Some(v.1.clone());
            }
            f = self.frames[i].parent;
        }
        None
    }
    fn assign_var(&mut self, env: usize, name: &str, v: SVal) -> bool {
        let mut f = Some(env);
        while let Some(i) = f {
            if let Some(slot) = self.frames[i].vars.iter_mut().find(|v| v.0 == name) {
                slot.1 = v;
                return true;
            }
            f = self.frames[i].parent;
        }
        false
    }
    fn declare(&mut self, env: usize, name: &str, pos: Pos, v: SVal) -> Result<(), Pos> {
        if let Some(x) = self.frames[env].vars.iter().find(|x| x.0 == name) {
            return Err(x.2);
        }
        self.frames[env].vars.push((name.to_string(), v, pos));
        Ok(())
    }

    // ----- statements -----

    fn exec_in_new_scope(&mut self, stmts: &[Stmt], env: usize) -> R<Flow> {
        let f = self.push_frame(env);
        self.exec_stmts(stmts, f)
    }

    fn exec_stmts(&mut self, stmts: &[Stmt], env: usize) -> R<Flow> {
        for s in stmts {
            match self.exec(s, env)? {
                Flow::None => {}
                f => return Ok(f),
            }
        }
        Ok(Flow::None)
    }

    fn exec(&mut self, s: &Stmt, env: usize) -> R<Flow> {
        self.tick()?;
        match s {
            Stmt::Block(b) => self.exec_in_new_scope(b, env),
            Stmt::Expr(e) => {
                self.eval(e, env)?;
                Ok(Flow::None)
            }
            Stmt::Declare(l, r) => {
                let v = self.eval(r, env)?;
                self.bind(l, v, env, Mode::Decl, None, &mut vec![])?;
                Ok(Flow::None)
            }
            Stmt::Assign(l, r) => {
                let v = self.eval(r, env)?;
                self.bind(l, v, env, Mode::Assign, None, &mut vec![])?;
                Ok(Flow::None)
            }
            Stmt::OpAssign { lhs, op, op_pos, rhs } => {
                let v = self.eval(rhs, env)?;
                self.bind(lhs, v, env, Mode::Assign, Some((*op, *op_pos)), &mut vec![])?;
                Ok(Flow::None)
            }
            Stmt::If { branches, els } => {
                for (c, b) in branches {
                    if self.eval_bool(c, env, "condition")? {
                        return self.exec_in_new_scope(b, env);
                    }
                }
                if let Some(b) = els {
                    return self.exec_in_new_scope(b, env);
                }
                Ok(Flow::None)
            }
            Stmt::While(c, b) => {
                loop {
                    self.tick()?;
                    if !self.eval_bool(c, env, "condition")? {
                        break;
                    }
                    match self.exec_in_new_scope(b, env)? {
                        Flow::None | Flow::Continue(_) => {}
                        Flow::Break(_) => break,
                        f @ Flow::Return(..) => return Ok(f),
                    }
                }
                Ok(Flow::None)
            }
            Stmt::For { lhs, iter, body } => {
                let it = self.eval(iter, env)?;
                let pairs: Vec<(SVal, SVal)> = match &it.v {
                    Val::Str(s) => s
                        .iter()
                        .enumerate()
                        .map(|(i, c)| {
                            (
                                SVal::plain(Val::Int(i as i64)),
                                SVal::plain(Val::Str(Rc::new(vec![*c]))),
                            )
                        })
                        .collect(),
                    Val::List(a) => self
                        .list(*a)
                        .iter()
                        .enumerate()
                        .map(|(i, v)| (SVal::plain(Val::Int(i as i64)), v.clone()))
                        .collect(),
                    Val::Obj(a) => self
                        .obj(*a)
                        .iter()
                        .map(|(k, v)| (SVal::plain(Val::str(k)), v.clone()))
                        .collect(),
                    v => return self.fail(EKind::CtxType("for iterable", v.kind()), iter.ppos),
                };
                for (k, v) in pairs {
                    self.tick()?;
                    let pair = self.new_list(vec![k, v]);
                    let f = self.push_frame(env);
                    self.bind(lhs, pair, f, Mode::Decl, None, &mut vec![])?;
                    match self.exec_stmts(body, f)? {
                        Flow::None | Flow::Continue(_) => {}
                        Flow::Break(_) => break,
                        fl @ Flow::Return(..) => return Ok(fl),
                    }
                }
                Ok(Flow::None)
            }
            Stmt::Break(p) => Ok(Flow::Break(*p)),
            Stmt::Continue(p) => Ok(Flow::Continue(*p)),
            Stmt::Func { name, name_pos, params, collect, body } => {
                self.validate_params(params)?;
                let a = self.alloc(Cell::Func(FuncData {
                    name: Some(name.clone()),
                    params: params.clone(),
                    collect: *collect,
                    body: body.clone(),
                    env,
                }));
                if name != "_" {
                    if let Err(prev) =
                        self.declare(env, name, *name_pos, SVal::plain(Val::Func(a)))
                    {
                        return self.fail_exact(
                            EKind::Redeclared { name: name.clone(), prev },
                            *name_pos,
                        );
                    }
                }
                Ok(Flow::None)
            }
            Stmt::Return(p, e) => {
                let v = self.eval(e, env)?;
                Ok(Flow::Return(v, *p))
            }
        }
    }

    fn validate_params(&mut self, params: &[Expr]) -> R<()> {
        let mut queue: std::collections::VecDeque<Expr> = params.iter().cloned().collect();
        let mut seen: Vec<String> = vec![];
        while let Some(p) = queue.pop_front() {
            match &*p.k {
                EK::Var(n) => {
                    if n == "_" {
                        // open behaviour (copied): validation stops at the first `_`
                        break;
                    }
                    if seen.contains(n) {
                        return self.fail(EKind::Other("duplicate parameter name"), p.ppos);
                    }
                    seen.push(n.clone());
                }
                EK::Object { props } => {
                    for pr in props {
                        match pr {
                            Prop::Pair { v, .. } => queue.push_back(v.clone()),
                            Prop::Single { e, spread, .. } => {
                                if *spread {
                                    return self
                                        .fail(EKind::Other("spread in parameter list"), p.ppos);
                                }
                                queue.push_back(e.clone());
                            }
                        }
                    }
                }
                EK::List { items, .. } => {
                    for it in items {
                        if it.spread {
                            return self.fail(EKind::Other("spread in parameter list"), p.ppos);
                        }
                        queue.push_back(it.e.clone());
                    }
                }
                _ => return self.fail(EKind::Other("invalid bind target"), p.ppos),
            }
        }
        Ok(())
    }

    // ----- binding -----

    fn bind(
        &mut self,
        lhs: &Expr,
        rhs: SVal,
        env: usize,
        mode: Mode,
        op: Option<(Op, Pos)>,
        names: &mut Vec<String>,
    ) -> R<()> {
        self.tick()?;
        match &*lhs.k {
            EK::Var(name) => self.bind_name(name, lhs.pos, rhs, env, mode, op, names),
            EK::Index { e, i } => {
                let subj = self.eval(e, env)?;
                match subj.v {
                    Val::List(a) => {
                        let n = self.eval_index(i, env)?;
                        if n >= self.list(a).len() {
                            return self.fail(EKind::Other("index outside list bounds"), lhs.ppos);
                        }
                        let cur = self.list(a)[n].clone();
                        let nv = self.op_apply(cur, rhs, op)?;
                        self.list_mut(a)[n] = nv;
                        Ok(())
                    }
                    Val::Obj(a) => {
                        let key = self.eval_str(i, env, "property")?;
                        if let Some(cur) = self.obj(a).get(&key).cloned() {
                            let nv = self.op_apply(cur, rhs, op)?;
                            self.obj_mut(a).insert(key, nv);
                            return Ok(());
                        }
                        if op.is_some() {
                            return self
                                .fail(EKind::Other("op-assign on undefined index"), lhs.ppos);
                        }
                        self.obj_mut(a).insert(key, rhs);
                        Ok(())
                    }
                    v => self.fail(EKind::CtxType("index assignment subject", v.kind()), lhs.ppos),
                }
            }
            EK::RangeIndex { e, a, b } => {
                if op.is_some() {
                    return self.fail(EKind::Other("op-assign on range index"), lhs.ppos);
                }
                let subj = self.eval(e, env)?;
                let la = match subj.v {
                    Val::List(la) => la,
                    v => {
                        return self
                            .fail(EKind::CtxType("range assignment subject", v.kind()), lhs.ppos)
                    }
                };
                let items: Vec<SVal> = match &rhs.v {
                    Val::List(ra) => self.list(*ra).clone(),
                    Val::Str(s) => {
                        s.iter().map(|c| SVal::plain(Val::Str(Rc::new(vec![*c])))).collect()
                    }
                    v => {
                        return self.fail(EKind::CtxType("range assignment rhs", v.kind()), lhs.ppos)
                    }
                };
                let start = match a {
                    Some(a) => self.eval_index(a, env)?,
                    None => 0,
                };
                let len = self.list(la).len();
                let end = match b {
                    Some(b) => self.eval_index(b, env)?,
                    None => len,
                };
                if start > len || start >= end || end > len {
                    return self.fail(EKind::Other("bad range assignment bounds"), lhs.ppos);
                }
                if end - start != items.len() {
                    return self.fail(EKind::Other("range assignment length mismatch"), lhs.ppos);
                }
                for (k, v) in items.into_iter().enumerate() {
                    self.list_mut(la)[start + k] = v;
                }
                Ok(())
            }
            EK::Prop { e, name, tp } => {
                if *tp {
                    return self.fail(EKind::Other("assign to type property"), lhs.ppos);
                }
                let subj = self.eval(e, env)?;
                match subj.v {
                    Val::Obj(a) => {
                        if let Some(cur) = self.obj(a).get(name).cloned() {
                            let nv = self.op_apply(cur, rhs, op)?;
                            self.obj_mut(a).insert(name.clone(), nv);
                            return Ok(());
                        }
                        if op.is_some() {
                            return self
                                .fail(EKind::Other("op-assign on undefined property"), lhs.ppos);
                        }
                        self.obj_mut(a).insert(name.clone(), rhs);
                        Ok(())
                    }
                    v => self.fail(EKind::CtxType("property assignment subject", v.kind()), lhs.ppos),
                }
            }
            EK::Object { props } => {
                if op.is_some() {
                    return self.fail(EKind::Other("op-assign on object pattern"), lhs.ppos);
                }
                let oa = match rhs.v {
                    Val::Obj(a) => a,
                    v => {
                        return self
                            .fail(EKind::CtxType("object destructuring source", v.kind()), lhs.ppos)
                    }
                };
                let mut remaining: Vec<String> = self.obj(oa).keys().cloned().collect();
                let n = props.len();
                for (idx, p) in props.iter().enumerate() {
                    match p {
                        Prop::Single { e, spread, collect } => {
                            if *spread {
                                return self
                                    .fail(EKind::Other("spread in object pattern"), e.ppos);
                            }
                            let name = match &*e.k {
                                EK::Var(n) => n.clone(),
                                _ => {
                                    return self
                                        .fail(EKind::Other("shorthand is not a variable"), e.ppos)
                                }
                            };
                            if *collect {
                                if idx != n - 1 {
                                    return self.fail(EKind::Other("collect is not last"), e.ppos);
                                }
                                let mut m = BTreeMap::new();
                                for k in &remaining {
                                    m.insert(k.clone(), self.obj(oa)[k].clone());
                                }
                                let nv = self.new_obj(m);
                                self.bind_name(&name, e.pos, nv, env, mode, None, names)?;
                                continue;
                            }
                            self.bind_obj_prop(e, oa, &name, e.ppos, env, mode, names)?;
                            remaining.retain(|k| *k != name);
                        }
                        Prop::Pair { k, v } => {
                            let key = self.eval_str(k, env, "property")?;
                            self.bind_obj_prop(v, oa, &key, k.ppos, env, mode, names)?;
                            remaining.retain(|x| *x != key);
                        }
                    }
                }
                Ok(())
            }
            EK::List { items, collect } => {
                if op.is_some() {
                    return self.fail(EKind::Other("op-assign on list pattern"), lhs.ppos);
                }
                let la = match rhs.v {
                    Val::List(a) => a,
                    v => {
                        return self
                            .fail(EKind::CtxType("list destructuring source", v.kind()), lhs.ppos)
                    }
                };
                let ln = items.len();
                let rn = self.list(la).len();
                if *collect {
                    if ln - 1 > rn {
                        return self.fail(EKind::Other("too few items to collect"), lhs.ppos);
                    }
                } else if ln != rn {
                    return self.fail(EKind::Other("list pattern length mismatch"), lhs.ppos);
                }
                for (i, it) in items.iter().enumerate() {
                    if it.spread {
                        return self.fail(EKind::Other("spread in list pattern"), lhs.ppos);
                    }
                    let v = if *collect && i == ln - 1 {
                        let rest = self.list(la)[ln - 1..].to_vec();
                        self.new_list(rest)
                    } else {
                        self.list(la)[i].clone()
                    };
                    self.bind(&it.e, v, env, mode, None, names)?;
                }
                Ok(())
            }
            _ => self.fail(EKind::Other("invalid bind target"), lhs.ppos),
        }
    }

    fn bind_obj_prop(
        &mut self,
        target: &Expr,
        oa: Addr,
        key: &str,
        key_pos: Pos,
        env: usize,
        mode: Mode,
        names: &mut Vec<String>,
    ) -> R<()> {
        if key == "_" {
            return Ok(());
        }
        let v = match self.obj(oa).get(key) {
            Some(v) => v.clone(),
            None => return self.fail(EKind::Other("property not found"), key_pos),
        };
        self.bind(target, v, env, mode, None, names)
    }

    fn bind_name(
        &mut self,
        name: &str,
        pos: Pos,
        rhs: SVal,
        env: usize,
        mode: Mode,
        op: Option<(Op, Pos)>,
        names: &mut Vec<String>,
    ) -> R<()> {
        if name == "_" {
            return Ok(());
        }
        if names.iter().any(|n| n == name) {
            return self.fail(EKind::Other("name bound twice in one pattern"), pos);
        }
        names.push(name.to_string());
        match mode {
            Mode::Decl => {
                if let Err(prev) = self.declare(env, name, pos, rhs) {
                    return self
                        .fail_exact(EKind::Redeclared { name: name.to_string(), prev }, pos);
                }
                Ok(())
            }
            Mode::Assign => {
                let mut v = rhs;
                if let Some((op, op_pos)) = op {
                    let cur = match self.lookup(env, name) {
                        Some(c) => c,
                        None => {
                            return self.fail_exact(EKind::Undefined(name.to_string()), pos)
                        }
                    };
                    let r = self.binop(op, op_pos, &cur.v, &v.v)?;
                    v = SVal::plain(r);
                }
                if !self.assign_var(env, name, v) {
                    return self.fail_exact(EKind::Undefined(name.to_string()), pos);
                }
                Ok(())
            }
        }
    }

    fn op_apply(&mut self, cur: SVal, rhs: SVal, op: Option<(Op, Pos)>) -> R<SVal> {
        match op {
            None => Ok(rhs),
            Some((op, op_pos)) => {
                let r = self.binop(op, op_pos, &cur.v, &rhs.v)?;
                Ok(SVal::plain(r))
            }
        }
    }

    // ----- expressions -----

    fn eval_bool(&mut self, e: &Expr, env: usize, what: &'static str) -> R<bool> {
        match self.eval(e, env)?.v {
            Val::Bool(b) => Ok(b),
            v => self.fail(EKind::CtxType(what, v.kind()), e.ppos),
        }
    }
    fn eval_int(&mut self, e: &Expr, env: usize, what: &'static str) -> R<i64> {
        match self.eval(e, env)?.v {
            Val::Int(n) => Ok(n),
            v => self.fail(EKind::CtxType(what, v.kind()), e.ppos),
        }
    }
    fn eval_index(&mut self, e: &Expr, env: usize) -> R<usize> {
        let n = self.eval_int(e, env, "index")?;
        if n < 0 {
            return self.fail(EKind::Other("negative index"), e.ppos);
        }
        Ok(n as usize)
    }
    fn eval_str(&mut self, e: &Expr, env: usize, what: &'static str) -> R<String> {
        match self.eval(e, env)?.v {
            Val::Str(s) => match String::from_utf8((*s).clone()) {
                Ok(s) => Ok(s),
                Err(_) => self.fail(EKind::Other("string is not UTF-8"), e.ppos),
            },
            v => self.fail(EKind::CtxType(what, v.kind()), e.ppos),
        }
    }

    fn eval_items(&mut self, items: &[Item], env: usize) -> R<Vec<SVal>> {
        let mut out = vec![];
        for it in items {
            let v = self.eval(&it.e, env)?;
            if !it.spread {
                out.push(v);
                continue;
            }
            match v.v {
                Val::List(a) => out.extend(self.list(a).iter().cloned()),
                o => return self.fail(EKind::CtxType("list spread", o.kind()), it.e.ppos),
            }
        }
        Ok(out)
    }

    pub fn eval(&mut self, e: &Expr, env: usize) -> R<SVal> {
        self.tick()?;
        self.depth += 1;
        let r = self.eval_inner(e, env);
        self.depth -= 1;
        r
    }

    fn eval_inner(&mut self, e: &Expr, env: usize) -> R<SVal> {
        match &*e.k {
            EK::Null => Ok(SVal::plain(Val::Null)),
            EK::Bool(b) => Ok(SVal::plain(Val::Bool(*b))),
            EK::Int(n) => Ok(SVal::plain(Val::Int(*n))),
            EK::Str(s) => Ok(SVal::plain(Val::str(s))),
            EK::Interp(pieces) => {
                let mut out: Vec<u8> = vec![];
                for p in pieces {
                    match p {
                        Piece::Lit(s) => out.extend_from_slice(s.as_bytes()),
                        Piece::Slot { src, pos } => {
                            let ex = match parse_expr(src) {
                                Ok(x) => x,
                                Err(_) => {
                                    let mut er = self.mk(EKind::SlotParse, *pos, false);
                                    er.in_slot = true;
                                    return Err(er);
                                }
                            };
                            self.in_slot += 1;
                            let r = self.eval(&ex, env);
                            self.in_slot -= 1;
                            let v = match r {
                                Ok(v) => v,
                                Err(mut er) => {
                                    // positions inside a slot are relative to the slot text;
                                    // the reported convention is open (DESIGN 4-j)
                                    if er.stack.is_empty() {
                                        er.pos = (pos.0, er.pos.1);
                                        er.exact = false;
                                    }
                                    er.in_slot = true;
                                    return Err(er);
                                }
                            };
                            match v.v {
                                Val::Str(s) => {
                                    if std::str::from_utf8(&s).is_err() {
                                        let mut er = self.mk(
                                            EKind::Other("slot value is not UTF-8"),
                                            *pos,
                                            false,
                                        );
                                        er.in_slot = true;
                                        return Err(er);
                                    }
                                    out.extend_from_slice(&s)
                                }
                                o => {
                                    let mut er = self.mk(
                                        EKind::CtxType("interpolation slot", o.kind()),
                                        *pos,
                                        false,
                                    );
                                    er.in_slot = true;
                                    return Err(er);
                                }
                            }
                        }
                    }
                }
                Ok(SVal::plain(Val::Str(Rc::new(out))))
            }
            EK::Var(name) => match self.lookup(env, name) {
                Some(v) => Ok(v),
                None => self.fail_exact(EKind::Undefined(name.clone()), e.pos),
            },
            EK::Bin { op, op_pos, l, r } => {
                let lv = self.eval(l, env)?;
                let rv = self.eval(r, env)?;
                let v = self.binop(*op, *op_pos, &lv.v, &rv.v)?;
                Ok(SVal::plain(v))
            }
            EK::Range { l, r } => {
                let a = self.eval_int(l, env, "range start")?;
                let b = self.eval_int(r, env, "range end")?;
                if (b as i128) - (a as i128) > 100_000 {
                    return self.fail(EKind::Budget, (0, 0));
                }
                let v: Vec<SVal> = (a..b).map(|n| SVal::plain(Val::Int(n))).collect();
                Ok(self.new_list(v))
            }
            EK::List { items, collect } => {
                if *collect {
                    return self.fail(EKind::Other("collect outside destructuring"), e.ppos);
                }
                let v = self.eval_items(items, env)?;
                Ok(self.new_list(v))
            }
            EK::Index { e: se, i } => {
                let subj = self.eval(se, env)?;
                match &subj.v {
                    Val::Str(s) => {
                        let n = self.eval_index(i, env)?;
                        match s.get(n) {
                            Some(c) => Ok(SVal::plain(Val::Str(Rc::new(vec![*c])))),
                            None => self.fail(EKind::Other("index outside string bounds"), e.ppos),
                        }
                    }
                    Val::List(a) => {
                        let n = self.eval_index(i, env)?;
                        match self.list(*a).get(n) {
                            Some(v) => Ok(v.clone()),
                            None => self.fail(EKind::Other("index outside list bounds"), e.ppos),
                        }
                    }
                    Val::Obj(a) => {
                        let key = self.eval_str(i, env, "property")?;
                        match self.obj(*a).get(&key) {
                            Some(v) => {
                                Ok(SVal { v: v.v.clone(), src: Some(Box::new(subj.v.clone())) })
                            }
                            None => self.fail(EKind::Other("property not found"), e.ppos),
                        }
                    }
                    v => self.fail(EKind::CtxType("index subject", v.kind()), e.ppos),
                }
            }
            EK::RangeIndex { e: se, a, b } => {
                let start = match a {
                    Some(a) => Some(self.eval_index(a, env)?),
                    None => None,
                };
                let end = match b {
                    Some(b) => Some(self.eval_index(b, env)?),
                    None => None,
                };
                let subj = self.eval(se, env)?;
                match &subj.v {
                    Val::Str(s) => {
                        let st = start.unwrap_or(0);
                        let en = end.unwrap_or(s.len());
                        if st <= en && en <= s.len() {
                            Ok(SVal::plain(Val::Str(Rc::new(s[st..en].to_vec()))))
                        } else {
                            self.fail(EKind::Other("range outside string bounds"), e.ppos)
                        }
                    }
                    Val::List(la) => {
                        let l = self.list(*la);
                        let st = start.unwrap_or(0);
                        let en = end.unwrap_or(l.len());
                        if st <= en && en <= l.len() {
                            let v = l[st..en].to_vec();
                            Ok(self.new_list(v))
                        } else {
                            self.fail(EKind::Other("range outside list bounds"), e.ppos)
                        }
                    }
                    v => self.fail(EKind::CtxType("range index subject", v.kind()), e.ppos),
                }
            }
            EK::Object { props } => {
                let mut m: BTreeMap<String, SVal> = BTreeMap::new();
                for p in props {
                    match p {
                        Prop::Pair { k, v } => {
                            let key = self.eval_str(k, env, "property name")?;
                            let val = self.eval(v, env)?;
                            m.insert(key, val);
                        }
                        Prop::Single { e: pe, spread, collect } => {
                            if *collect {
                                return self
                                    .fail(EKind::Other("collect outside destructuring"), e.ppos);
                            }
                            if *spread {
                                let v = self.eval(pe, env)?;
                                match v.v {
                                    Val::Obj(a) => {
                                        for (k, x) in self.obj(a).clone() {
                                            m.insert(k, x);
                                        }
                                    }
                                    o => {
                                        return self
                                            .fail(EKind::CtxType("object spread", o.kind()), pe.ppos)
                                    }
                                }
                            } else if let EK::Var(name) = &*pe.k {
                                match self.lookup(env, name) {
                                    Some(v) => {
                                        m.insert(name.clone(), v);
                                    }
                                    None => {
                                        return self
                                            .fail_exact(EKind::Undefined(name.clone()), pe.pos)
                                    }
                                }
                            } else {
                                return self
                                    .fail(EKind::Other("shorthand is not a variable"), pe.ppos);
                            }
                        }
                    }
                }
                Ok(self.new_obj(m))
            }
            EK::Prop { e: se, name, tp } => {
                let subj = self.eval(se, env)?;
                if *tp {
                    let k = subj.v.kind();
                    if k == Kind::Null {
                        return self.fail(EKind::Other("type function on null"), e.ppos);
                    }
                    let bi = match (name.as_str(), k) {
                        ("type", _) => Bi::Type,
                        ("len", Kind::Str) => Bi::Len,
                        _ => return self.fail(EKind::Other("no such type function"), e.ppos),
                    };
                    return Ok(SVal { v: Val::Builtin(bi), src: Some(Box::new(subj.v.clone())) });
                }
                match &subj.v {
                    Val::Obj(a) => match self.obj(*a).get(name) {
                        Some(v) => Ok(SVal { v: v.v.clone(), src: Some(Box::new(subj.v.clone())) }),
                        None => self.fail(EKind::Other("property not found"), e.ppos),
                    },
                    v => self.fail(EKind::CtxType("property subject", v.kind()), e.ppos),
                }
            }
            EK::Func { params, collect, body } => {
                let a = self.alloc(Cell::Func(FuncData {
                    name: None,
                    params: params.clone(),
                    collect: *collect,
                    body: body.clone(),
                    env,
                }));
                Ok(SVal::plain(Val::Func(a)))
            }
            EK::Call { f, args } => self.call(e, f, args, env),
        }
    }

    fn call(&mut self, e: &Expr, f: &Expr, args: &[Item], env: usize) -> R<SVal> {
        let call_pos = e.pos;
        let argv = self.eval_items(args, env)?;
        let fv = self.eval(f, env)?;
        match fv.v {
            Val::Builtin(bi) => self.call_builtin(bi, fv.src.map(|b| *b), argv, call_pos),
            Val::Func(fa) => {
                let (name, params, collect, body, fenv) = match &self.heap[fa] {
                    Cell::Func(d) => {
                        (d.name.clone(), d.params.clone(), d.collect, d.body.clone(), d.env)
                    }
                    _ => panic!("ref: not a function"),
                };
                let np = params.len();
                let got = argv.len();
                if collect {
                    if np - 1 > got {
                        return self.fail_exact(EKind::Arity, call_pos);
                    }
                } else if np != got {
                    return self.fail_exact(EKind::Arity, call_pos);
                }
                let container = self.fn_stack.last().cloned().unwrap_or("<root>".to_string());
                let fname = name.unwrap_or("<unnamed function>".to_string());
                self.fn_stack.push(fname);
                self.depth += 3;
                let r = self.call_body(&params, collect, &body, fenv, argv, fv.src, call_pos);
                self.depth -= 3;
                self.fn_stack.pop();
                match r {
                    Ok(v) => Ok(v),
                    Err(mut er) => {
                        er.stack.push((call_pos, container));
                        Err(er)
                    }
                }
            }
            v => self.fail_exact(EKind::NotCallable(v.kind()), call_pos),
        }
    }

    fn call_body(
        &mut self,
        params: &[Expr],
        collect: bool,
        body: &Rc<Vec<Stmt>>,
        fenv: usize,
        argv: Vec<SVal>,
        this: Option<Box<Val>>,
        call_pos: Pos,
    ) -> R<SVal> {
        let frame = self.push_frame(fenv);
        let np = params.len();
        for i in 0..np {
            let v = if collect && i == np - 1 {
                let rest = argv[np - 1..].to_vec();
                self.new_list(rest)
            } else {
                argv[i].clone()
            };
            self.bind(&params[i], v, frame, Mode::Decl, None, &mut vec![])?;
        }
        if let Some(t) = this {
            // the implicit `this` is declared at the position of the call
            if let Err(prev) = self.declare(frame, "this", call_pos, SVal::plain(*t)) {
                return self.fail(EKind::Redeclared { name: "this".to_string(), prev }, call_pos);
            }
        }
        match self.exec_stmts(body, frame)? {
            Flow::None => Ok(SVal::plain(Val::Null)),
            Flow::Return(v, _) => Ok(v),
            Flow::Break(p) => self.fail_exact(EKind::BreakOutside, p),
            Flow::Continue(p) => self.fail_exact(EKind::ContinueOutside, p),
        }
    }

    fn call_builtin(
        &mut self,
        bi: Bi,
        this: Option<Val>,
        argv: Vec<SVal>,
        call_pos: Pos,
    ) -> R<SVal> {
        match bi {
            Bi::Print => {
                if argv.len() != 1 {
                    return self.fail(EKind::Other("print takes one argument"), call_pos);
                }
                if this.is_some() {
                    return self.fail(EKind::Other("print reached through an object"), call_pos);
                }
                let mut s: Vec<u8> = vec![];
                let mut anc = vec![];
                match self.render(&argv[0].v, &mut s, &mut anc) {
                    Ok(()) => {}
                    Err(k) => return self.fail(k, call_pos),
                }
                self.out.extend_from_slice(&s);
                self.out.push(b'\n');
                Ok(SVal::plain(Val::Null))
            }
            Bi::Type => {
                if !argv.is_empty() {
                    return self.fail(EKind::Other("type takes no arguments"), call_pos);
                }
                match this {
                    Some(v) => Ok(SVal::plain(Val::str(v.kind().name()))),
                    None => self.fail(EKind::Other("type function without subject"), call_pos),
                }
            }
            Bi::Len => {
                if !argv.is_empty() {
                    return self.fail(EKind::Other("len takes no arguments"), call_pos);
                }
                match this {
                    Some(Val::Str(s)) => {
                        if std::str::from_utf8(&s).is_err() {
                            return self.fail(EKind::Other("string is not UTF-8"), call_pos);
                        }
                        Ok(SVal::plain(Val::Int(s.len() as i64)))
                    }
                    _ => self.fail(EKind::Other("len without string subject"), call_pos),
                }
            }
        }
    }

    /// rendering per C19 / A.8
    pub fn render(&mut self, v: &Val, out: &mut Vec<u8>, anc: &mut Vec<Addr>) -> Result<(), EKind> {
        match v {
            Val::Null => out.extend_from_slice(b"<null>"),
            Val::Bool(b) => out.extend_from_slice(if *b { b"true" } else { b"false" }),
            Val::Int(n) => out.extend_from_slice(format!("{}", n).as_bytes()),
            Val::Str(s) => {
                if std::str::from_utf8(s).is_err() {
                    return Err(EKind::Other("string is not UTF-8"));
                }
                out.extend_from_slice(s)
            }
            Val::List(a) => {
                if anc.contains(a) {
                    self.cyclic_touch = true;
                    return Err(EKind::RenderCycle);
                }
                anc.push(*a);
                out.extend_from_slice(b"[\n");
                let items = self.list(*a).clone();
                for it in items {
                    let mut sub = vec![];
                    self.render(&it.v, &mut sub, anc)?;
                    out.extend_from_slice(b"    ");
                    push_indented(out, &sub);
                    out.extend_from_slice(b",\n");
                }
                out.push(b']');
                anc.pop();
            }
            Val::Obj(a) => {
                if anc.contains(a) {
                    self.cyclic_touch = true;
                    return Err(EKind::RenderCycle);
                }
                anc.push(*a);
                out.extend_from_slice(b"{\n");
                let items = self.obj(*a).clone();
                for (k, it) in items {
                    let mut sub = vec![];
                    self.render(&it.v, &mut sub, anc)?;
                    out.extend_from_slice(b"    \"");
                    out.extend_from_slice(k.as_bytes());
                    out.extend_from_slice(b"\": ");
                    push_indented(out, &sub);
                    out.extend_from_slice(b",\n");
                }
                out.push(b'}');
                anc.pop();
            }
            // open behaviour (copied)
            Val::Builtin(bi) => {
                let n = match bi {
                    Bi::Print => "print",
                    Bi::Type => "?->type",
                    Bi::Len => "str->len",
                };
                out.extend_from_slice(format!("<built-in function '{}'>", n).as_bytes())
            }
            Val::Func(a) => {
                let name = match &self.heap[*a] {
                    Cell::Func(d) => d.name.clone(),
                    _ => None,
                };
                out.extend_from_slice(format!("<function '{:?}'>", name).as_bytes())
            }
        }
        Ok(())
    }

    // ----- operators -----

    pub fn binop(&mut self, op: Op, op_pos: Pos, l: &Val, r: &Val) -> R<Val> {
        let ty_err = |s: &Interp| -> R<Val> {
            s.fail_exact(EKind::OpType { op, l: l.kind(), r: r.kind() }, op_pos)
        };
        let ovf = |s: &Interp, a: i64, b: i64| -> R<Val> {
            s.fail_exact(EKind::Overflow { op, a, b }, op_pos)
        };
        let fits = |x: i128| x >= i64::MIN as i128 && x <= i64::MAX as i128;
        match op {
            Op::Eq | Op::Ne => {
                let mut anc = vec![];
                match self.eq(l, r, &mut anc) {
                    Ok(b) => Ok(Val::Bool(if op == Op::Eq { b } else { !b })),
                    Err((lk, rk)) => self.fail_exact(EKind::EqType { op, l: lk, r: rk }, op_pos),
                }
            }
            Op::RefEq | Op::RefNe => {
                let same = match (l, r) {
                    (Val::List(a), Val::List(b)) => a == b,
                    (Val::Obj(a), Val::Obj(b)) => a == b,
                    (Val::Func(a), Val::Func(b)) => a == b,
                    _ => return ty_err(self),
                };
                Ok(Val::Bool(if op == Op::RefEq { same } else { !same }))
            }
            Op::Add => match (l, r) {
                (Val::Int(a), Val::Int(b)) => {
                    let x = *a as i128 + *b as i128;
                    if fits(x) {
                        Ok(Val::Int(x as i64))
                    } else {
                        ovf(self, *a, *b)
                    }
                }
                (Val::Str(a), Val::Str(b)) => {
                    let mut v = (**a).clone();
                    v.extend_from_slice(b);
                    Ok(Val::Str(Rc::new(v)))
                }
                (Val::List(a), Val::List(b)) => {
                    let mut v = self.list(*a).clone();
                    v.extend(self.list(*b).iter().cloned());
                    Ok(self.new_list(v).v)
                }
                _ => ty_err(self),
            },
            Op::Sub | Op::Mul | Op::Div | Op::Mod => match (l, r) {
                (Val::Int(a), Val::Int(b)) => {
                    let (x, y) = (*a as i128, *b as i128);
                    let res = match op {
                        Op::Sub => Some(x - y),
                        Op::Mul => Some(x * y),
                        Op::Div => {
                            if y == 0 {
                                None
                            } else {
                                Some(x / y)
                            }
                        }
                        _ => {
                            if y == 0 {
                                None
                            } else {
                                Some(x % y)
                            }
                        }
                    };
                    match res {
                        Some(v) if fits(v) => Ok(Val::Int(v as i64)),
                        _ => ovf(self, *a, *b),
                    }
                }
                _ => ty_err(self),
            },
            Op::And | Op::Or => match (l, r) {
                (Val::Bool(a), Val::Bool(b)) => {
                    Ok(Val::Bool(if op == Op::And { *a && *b } else { *a || *b }))
                }
                _ => ty_err(self),
            },
            Op::Gt | Op::Ge | Op::Lt | Op::Le => match (l, r) {
                (Val::Int(a), Val::Int(b)) => Ok(Val::Bool(match op {
                    Op::Gt => a > b,
                    Op::Ge => a >= b,
                    Op::Lt => a < b,
                    _ => a <= b,
                })),
                _ => ty_err(self),
            },
        }
    }

    /// structural equality in the traversal order of the implementation (the
    /// order decides which mismatch is reached first; C10's own check is tolerant)
    pub fn eq(&mut self, l: &Val, r: &Val, anc: &mut Vec<(Addr, Addr)>) -> Result<bool, (Kind, Kind)> {
        match (l, r) {
            (Val::Null, Val::Null) => Ok(true),
            (Val::Bool(a), Val::Bool(b)) => Ok(a == b),
            (Val::Int(a), Val::Int(b)) => Ok(a == b),
            (Val::Str(a), Val::Str(b)) => Ok(a == b),
            (Val::List(a), Val::List(b)) => {
                if a == b {
                    return Ok(true);
                }
                if anc.contains(&(*a, *b)) {
                    self.cyclic_touch = true;
                    return Ok(true);
                }
                let xs = self.list(*a).clone();
                let ys = self.list(*b).clone();
                if xs.len() != ys.len() {
                    return Ok(false);
                }
                anc.push((*a, *b));
                for (x, y) in xs.iter().zip(ys.iter()) {
                    if !self.eq(&x.v, &y.v, anc)? {
                        anc.pop();
                        return Ok(false);
                    }
                }
                anc.pop();
                Ok(true)
            }
            (Val::Obj(a), Val::Obj(b)) => {
                if a == b {
                    return Ok(true);
                }
                if anc.contains(&(*a, *b)) {
                    self.cyclic_touch = true;
                    return Ok(true);
                }
                let xs = self.obj(*a).clone();
                let ys = self.obj(*b).clone();
                if xs.len() != ys.len() {
                    return Ok(false);
                }
                anc.push((*a, *b));
                for (k, x) in xs.iter() {
                    let y = match ys.get(k) {
                        Some(y) => y,
                        None => {
                            anc.pop();
                            return Ok(false);
                        }
                    };
                    if !self.eq(&x.v, &y.v, anc)? {
                        anc.pop();
                        return Ok(false);
                    }
                }
                anc.pop();
                Ok(true)
            }
            _ => Err((l.kind(), r.kind())),
        }
    }
}

fn push_indented(out: &mut Vec<u8>, sub: &[u8]) {
    for b in sub {
        out.push(*b);
        if *b == b'\n' {
            out.extend_from_slice(b"    ");
        }
    }
}
