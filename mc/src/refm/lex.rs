//! Reference lexer: written from the token inventory in docs/features.md and
//! the statements of C06/C09/C15/C18 (design/reference_semantics.md A.1).
//! Positions are (line, column) counted in characters, both from 1.

pub type Pos = (u32, u32);

#[derive(Clone, Debug, PartialEq)]
pub enum Piece {
    Lit(String),
    /// raw slot text (between `${` and `}`), position of the `$`
    Slot { src: String, pos: Pos },
}

#[derive(Clone, Debug, PartialEq)]
pub enum Tok {
    Ident(String),
    Int(i64),
    Str(String),
    Interp(Vec<Piece>),
    Kw(&'static str),
    Sym(&'static str),
    End,
}

#[derive(Clone, Debug)]
pub struct Token {
    pub tok: Tok,
    pub pos: Pos,
    /// byte range of the token text in the source
    pub start: usize,
    pub end: usize,
}

#[derive(Clone, Debug, PartialEq)]
pub enum LexErrKind {
    Unexpected(char),
    IntTooLarge,
    BadEscape(char),
    BadHex(char),
    RawDollar,
    BadSlotStart(char),
}

#[derive(Clone, Debug)]
pub struct LexErr {
    pub kind: LexErrKind,
    pub pos: Pos,
    /// true when the offending character is a newline (position convention open)
    pub at_newline: bool,
}

pub const KEYWORDS: [&str; 12] = [
    "break", "continue", "else", "false", "fn", "for", "if", "in", "null", "return", "true",
    "while",
];

const SYMS3: [&str; 2] = ["===", "!=="];
const SYMS2: [&str; 14] = [
    "&&", "!=", ":=", "->", "/=", "..", "==", ">=", "<=", "%=", "*=", "||", "-=", "+=",
];
const SYMS1: [&str; 17] = [
    "}", "{", "]", "[", ":", ",", "/", ".", "=", ">", "<", "%", "*", ")", "(", "-", "+",
];

/// tokens after which a line break does not end the statement (C09)
pub const CONTINUATION: [&str; 25] = [
    "+", "-", "*", "/", "%", "==", "!=", "<", "<=", ">", ">=", "&&", "||", "=", ":=", "+=", "-=",
    "*=", "/=", "%=", ",", ".", "(", "[", "{",
];

struct Sc<'a> {
    src: &'a str,
    chars: Vec<(usize, char)>,
    i: usize,
    line: u32,
    col: u32,
}

impl<'a> Sc<'a> {
    fn peek(&self) -> Option<char> {
        self.chars.get(self.i).map(|x| x.1)
    }
    fn peek_at(&self, k: usize) -> Option<char> {
        self.chars.get(self.i + k).map(|x| x.1)
    }
    fn off(&self) -> usize {
        self.chars.get(self.i).map(|x| x.0).unwrap_or(self.src.len())
    }
    fn pos(&self) -> Pos {
        (self.line, self.col)
    }
    fn bump(&mut self) {
        if let Some((_, c)) = self.chars.get(self.i) {
            if *c == '\n' {
                self.line += 1;
                self.col = 1;
            } else {
                self.col += 1;
            }
            self.i += 1;
        }
    }
}

fn is_ws(c: char) -> bool {
    // ASCII whitespace other than the newline
    c == ' ' || c == '\t' || c == '\r' || c == '\x0c'
}

/// Raw tokenisation, every newline / `;` kept as `End` (no suppression).
pub fn lex_raw(src: &str) -> (Vec<Token>, Option<LexErr>) {
    let mut s = Sc { src, chars: src.char_indices().collect(), i: 0, line: 1, col: 1 };
    let mut out = vec![];
    loop {
        // whitespace and comments
        loop {
            match s.peek() {
                Some('#') => {
                    while let Some(c) = s.peek() {
                        if c == '\n' {
                            break;
                        }
                        s.bump();
                    }
                }
                Some(c) if is_ws(c) => s.bump(),
                _ => break,
            }
        }
        let c = match s.peek() {
            None => return (out, None),
            Some(c) => c,
        };
        let pos = s.pos();
        let start = s.off();
        if c == '\n' || c == ';' {
            s.bump();
            out.push(Token { tok: Tok::End, pos, start, end: s.off() });
            continue;
        }
        if c.is_ascii_alphabetic() || c == '_' {
            while let Some(c) = s.peek() {
                if c.is_ascii_alphanumeric() || c == '_' {
                    s.bump();
                } else {
                    break;
                }
            }
            let text = &src[start..s.off()];
            let tok = match KEYWORDS.iter().find(|k| **k == text) {
                Some(k) => Tok::Kw(k),
                None => Tok::Ident(text.to_string()),
            };
            out.push(Token { tok, pos, start, end: s.off() });
            continue;
        }
        if c.is_ascii_digit() {
            while let Some(c) = s.peek() {
                if c.is_ascii_digit() || c == '_' {
                    s.bump();
                } else {
                    break;
                }
            }
            let text: String = src[start..s.off()].chars().filter(|c| *c != '_').collect();
            // decimal value; more than 2^63-1 is a lexical error
            let mut v: u128 = 0;
            let mut too_big = false;
            for d in text.chars() {
                v = v * 10 + (d as u128 - '0' as u128);
                if v > i64::MAX as u128 {
                    too_big = true;
                    break;
                }
            }
            if too_big {
                return (out, Some(LexErr { kind: LexErrKind::IntTooLarge, pos, at_newline: false }));
            }
            out.push(Token { tok: Tok::Int(v as i64), pos, start, end: s.off() });
            continue;
        }
        if c == '"' || c == '$' {
            let interp = c == '$';
            if interp {
                s.bump();
                // whatever follows the `$` is taken as the opening quote (open behaviour)
            }
            match lex_string(&mut s, interp) {
                Ok(tok) => out.push(Token { tok, pos, start, end: s.off() }),
                Err(e) => return (out, Some(e)),
            }
            continue;
        }
        // symbols, maximal munch
        let c2 = s.peek_at(1);
        let c3 = s.peek_at(2);
        let mut found: Option<&'static str> = None;
        if let (Some(b), Some(d)) = (c2, c3) {
            let t: String = [c, b, d].iter().collect();
            if let Some(x) = SYMS3.iter().find(|x| **x == t) {
                found = Some(x);
            }
        }
        if found.is_none() {
            if let Some(b) = c2 {
                let t: String = [c, b].iter().collect();
                if let Some(x) = SYMS2.iter().find(|x| **x == t) {
                    found = Some(x);
                }
            }
        }
        if found.is_none() {
            let t = c.to_string();
            if let Some(x) = SYMS1.iter().find(|x| **x == t) {
                found = Some(x);
            }
        }
        match found {
            Some(x) => {
                for _ in 0..x.chars().count() {
                    s.bump();
                }
                out.push(Token { tok: Tok::Sym(x), pos, start, end: s.off() });
            }
            None => {
                return (
                    out,
                    Some(LexErr { kind: LexErrKind::Unexpected(c), pos, at_newline: false }),
                );
            }
        }
    }
}

fn lex_string(s: &mut Sc, interp: bool) -> Result<Tok, LexErr> {
    s.bump(); // opening quote
    let mut pieces: Vec<Piece> = vec![];
    let mut cur = String::new();
    loop {
        let c = match s.peek() {
            None => break, // unterminated: accepted as it stands (open behaviour)
            Some(c) => c,
        };
        let pos = s.pos();
        let nl = c == '\n';
        s.bump();
        if c == '"' {
            break;
        } else if c == '\\' {
            let e = match s.peek() {
                None => break,
                Some(e) => e,
            };
            let epos = s.pos();
            let enl = e == '\n';
            s.bump();
            match e {
                '\\' | '"' | '$' => cur.push(e),
                'n' => cur.push('\n'),
                'r' => cur.push('\r'),
                'x' => {
                    let mut v: u32 = 0;
                    let mut n = 0;
                    while n < 2 {
                        let h = match s.peek() {
                            None => break,
                            Some(h) => h,
                        };
                        let hpos = s.pos();
                        let hnl = h == '\n';
                        s.bump();
                        match h.to_digit(16) {
                            Some(d) if h.is_ascii() => v = v * 16 + d,
                            _ => {
                                return Err(LexErr {
                                    kind: LexErrKind::BadHex(h),
                                    pos: hpos,
                                    at_newline: hnl,
                                })
                            }
                        }
                        n += 1;
                    }
                    if n == 2 {
                        cur.push(char::from_u32(v).unwrap());
                    }
                }
                _ => {
                    return Err(LexErr {
                        kind: LexErrKind::BadEscape(e),
                        pos: epos,
                        at_newline: enl,
                    })
                }
            }
        } else if c == '$' {
            if !interp {
                return Err(LexErr { kind: LexErrKind::RawDollar, pos, at_newline: nl });
            }
            // slot: must start with `{`; runs to the matching `}` (raw text)
            let b = match s.peek() {
                None => {
                    cur.push('$');
                    break;
                }
                Some(b) => b,
            };
            if b != '{' {
                let bpos = s.pos();
                return Err(LexErr {
                    kind: LexErrKind::BadSlotStart(b),
                    pos: bpos,
                    at_newline: b == '\n',
                });
            }
            let mut depth = 0i32;
            let mut raw = String::new();
            let mut closed = false;
            while let Some(d) = s.peek() {
                s.bump();
                if d == '{' {
                    depth += 1;
                } else if d == '}' {
                    depth -= 1;
                }
                raw.push(d);
                if depth == 0 {
                    closed = true;
                    break;
                }
            }
            if closed {
                pieces.push(Piece::Lit(std::mem::take(&mut cur)));
                let inner = raw[1..raw.len() - 1].to_string();
                pieces.push(Piece::Slot { src: inner, pos });
            } else {
                // unterminated slot: literal text (open behaviour)
                cur.push('$');
                cur.push_str(&raw);
            }
        } else {
            cur.push(c);
        }
    }
    if interp {
        pieces.push(Piece::Lit(cur));
        Ok(Tok::Interp(pieces))
    } else {
        Ok(Tok::Str(cur))
    }
}

/// Apply the terminator rules of C09 to a raw token stream.
pub fn suppress_terminators(raw: Vec<Token>) -> Vec<Token> {
    let mut out: Vec<Token> = vec![];
    for t in raw {
        if t.tok == Tok::End {
            match out.last() {
                None => continue,
                Some(l) => match &l.tok {
                    Tok::End => continue,
                    Tok::Sym(s) if CONTINUATION.contains(s) => continue,
                    _ => {}
                },
            }
        }
        out.push(t);
    }
    out
}

pub fn lex(src: &str) -> Result<Vec<Token>, LexErr> {
    let (raw, err) = lex_raw(src);
    match err {
        Some(e) => Err(e),
        None => Ok(suppress_terminators(raw)),
    }
}
