pub mod ast;
pub mod eval;
pub mod lex;
pub mod parse;
