//! Reference syntax tree.
use super::lex::{Piece, Pos};
use std::rc::Rc;

#[derive(Clone, Copy, Debug, PartialEq, Eq, Hash)]
pub enum Op {
    Add,
    Sub,
    Mul,
    Div,
    Mod,
    And,
    Or,
    Eq,
    Ne,
    Gt,
    Ge,
    Lt,
    Le,
    RefEq,
    RefNe,
}

impl Op {
    pub fn sym(self) -> &'static str {
        match self {
            Op::Add => "+",
            Op::Sub => "-",
            Op::Mul => "*",
            Op::Div => "/",
            Op::Mod => "%",
            Op::And => "&&",
            Op::Or => "||",
            Op::Eq => "==",
            Op::Ne => "!=",
            Op::Gt => ">",
            Op::Ge => ">=",
            Op::Lt => "<",
            Op::Le => "<=",
            Op::RefEq => "===",
            Op::RefNe => "!==",
        }
    }
    pub fn from_sym(s: &str) -> Option<Op> {
        Some(match s {
            "+" => Op::Add,
            "-" => Op::Sub,
            "*" => Op::Mul,
            "/" => Op::Div,
            "%" => Op::Mod,
            "&&" => Op::And,
            "||" => Op::Or,
            "==" => Op::Eq,
            "!=" => Op::Ne,
            ">" => Op::Gt,
            ">=" => Op::Ge,
            "<" => Op::Lt,
            "<=" => Op::Le,
            "===" => Op::RefEq,
            "!==" => Op::RefNe,
            _ => return None,
        })
    }
    /// tier per C08: 2 = `* / %` and comparisons, 3 = `+ -`, 4 = `&& ||`
    pub fn tier(self) -> u8 {
        match self {
            Op::And | Op::Or => 4,
            Op::Add | Op::Sub => 3,
            _ => 2,
        }
    }
}

#[derive(Clone, Debug)]
pub struct Expr {
    pub k: Rc<EK>,
    /// position of the expression's own first token (parentheses stripped)
    pub pos: Pos,
    /// position of the first token including wrapping parentheses
    pub ppos: Pos,
}

#[derive(Clone, Debug)]
pub struct Item {
    pub e: Expr,
    pub spread: bool,
}

#[derive(Clone, Debug)]
pub enum Prop {
    Pair { k: Expr, v: Expr },
    Single { e: Expr, spread: bool, collect: bool },
}

#[derive(Clone, Debug)]
pub enum EK {
    Null,
    Bool(bool),
    Int(i64),
    Str(String),
    Interp(Vec<Piece>),
    Var(String),
    Bin { op: Op, op_pos: Pos, l: Expr, r: Expr },
    Range { l: Expr, r: Expr },
    List { items: Vec<Item>, collect: bool },
    Object { props: Vec<Prop> },
    Index { e: Expr, i: Expr },
    RangeIndex { e: Expr, a: Option<Expr>, b: Option<Expr> },
    Prop { e: Expr, name: String, tp: bool },
    Func { params: Vec<Expr>, collect: bool, body: Rc<Vec<Stmt>> },
    Call { f: Expr, args: Vec<Item> },
}

#[derive(Clone, Debug)]
pub enum Stmt {
    Block(Vec<Stmt>),
    Expr(Expr),
    Declare(Expr, Expr),
    Assign(Expr, Expr),
    OpAssign { lhs: Expr, op: Op, op_pos: Pos, rhs: Expr },
    If { branches: Vec<(Expr, Vec<Stmt>)>, els: Option<Vec<Stmt>> },
    While(Expr, Vec<Stmt>),
    For { lhs: Expr, iter: Expr, body: Vec<Stmt> },
    Break(Pos),
    Continue(Pos),
    Func { name: String, name_pos: Pos, params: Vec<Expr>, collect: bool, body: Rc<Vec<Stmt>> },
    Return(Pos, Expr),
}

/// Structural dump without positions, in a canonical S-expression form.  The
/// same form is produced from the subject's `Debug` AST dump by `crate::dbg`.
pub fn dump_expr(e: &Expr, out: &mut String) {
    match &*e.k {
        EK::Null => out.push_str("null"),
        EK::Bool(b) => out.push_str(if *b { "true" } else { "false" }),
        EK::Int(n) => out.push_str(&format!("{}", n)),
        EK::Str(s) => out.push_str(&format!("(str {:?})", s)),
        EK::Interp(ps) => {
            out.push_str("(interp");
            for p in ps {
                match p {
                    Piece::Lit(s) => out.push_str(&format!(" {:?}", s)),
                    Piece::Slot { src, .. } => out.push_str(&format!(" (slot {:?})", src)),
                }
            }
            out.push(')');
        }
        EK::Var(n) => out.push_str(&format!("(var {})", n)),
        EK::Bin { op, l, r, .. } => {
            out.push_str(&format!("({} ", op.sym()));
            dump_expr(l, out);
            out.push(' ');
            dump_expr(r, out);
            out.push(')');
        }
        EK::Range { l, r } => {
            out.push_str("(.. ");
            dump_expr(l, out);
            out.push(' ');
            dump_expr(r, out);
            out.push(')');
        }
        EK::List { items, collect } => {
            out.push_str(if *collect { "(list-collect" } else { "(list" });
            for it in items {
                out.push(' ');
                if it.spread {
                    out.push_str("(spread ");
                    dump_expr(&it.e, out);
                    out.push(')');
                } else {
                    dump_expr(&it.e, out);
                }
            }
            out.push(')');
        }
        EK::Object { props } => {
            out.push_str("(object");
            for p in props {
                out.push(' ');
                match p {
                    Prop::Pair { k, v } => {
                        out.push_str("(pair ");
                        dump_expr(k, out);
                        out.push(' ');
                        dump_expr(v, out);
                        out.push(')');
                    }
                    Prop::Single { e, spread, collect } => {
                        out.push_str(&format!("(single {} {} ", spread, collect));
                        dump_expr(e, out);
                        out.push(')');
                    }
                }
            }
            out.push(')');
        }
        EK::Index { e, i } => {
            out.push_str("(index ");
            dump_expr(e, out);
            out.push(' ');
            dump_expr(i, out);
            out.push(')');
        }
        EK::RangeIndex { e, a, b } => {
            out.push_str("(rangeindex ");
            dump_expr(e, out);
            out.push(' ');
            match a {
                Some(a) => dump_expr(a, out),
                None => out.push('_'),
            }
            out.push(' ');
            match b {
                Some(b) => dump_expr(b, out),
                None => out.push('_'),
            }
            out.push(')');
        }
        EK::Prop { e, name, tp } => {
            out.push_str(if *tp { "(tprop " } else { "(prop " });
            dump_expr(e, out);
            out.push_str(&format!(" {})", name));
        }
        EK::Func { params, collect, body } => {
            out.push_str(&format!("(fn {} (", collect));
            for (i, p) in params.iter().enumerate() {
                if i > 0 {
                    out.push(' ');
                }
                dump_expr(p, out);
            }
            out.push_str(") ");
            dump_block(body, out);
            out.push(')');
        }
        EK::Call { f, args } => {
            out.push_str("(call ");
            dump_expr(f, out);
            for it in args {
                out.push(' ');
                if it.spread {
                    out.push_str("(spread ");
                    dump_expr(&it.e, out);
                    out.push(')');
                } else {
                    dump_expr(&it.e, out);
                }
            }
            out.push(')');
        }
    }
}

pub fn dump_block(b: &[Stmt], out: &mut String) {
    out.push('[');
    for (i, s) in b.iter().enumerate() {
        if i > 0 {
            out.push(' ');
        }
        dump_stmt(s, out);
    }
    out.push(']');
}

pub fn dump_stmt(s: &Stmt, out: &mut String) {
    match s {
        Stmt::Block(b) => {
            out.push_str("(block ");
            dump_block(b, out);
            out.push(')');
        }
        Stmt::Expr(e) => {
            out.push_str("(expr ");
            dump_expr(e, out);
            out.push(')');
        }
        Stmt::Declare(l, r) => {
            out.push_str("(declare ");
            dump_expr(l, out);
            out.push(' ');
            dump_expr(r, out);
            out.push(')');
        }
        Stmt::Assign(l, r) => {
            out.push_str("(assign ");
            dump_expr(l, out);
            out.push(' ');
            dump_expr(r, out);
            out.push(')');
        }
        Stmt::OpAssign { lhs, op, rhs, .. } => {
            out.push_str(&format!("(opassign {} ", op.sym()));
            dump_expr(lhs, out);
            out.push(' ');
            dump_expr(rhs, out);
            out.push(')');
        }
        Stmt::If { branches, els } => {
            out.push_str("(if");
            for (c, b) in branches {
                out.push_str(" (branch ");
                dump_expr(c, out);
                out.push(' ');
                dump_block(b, out);
                out.push(')');
            }
            if let Some(b) = els {
                out.push_str(" (else ");
                dump_block(b, out);
                out.push(')');
            }
            out.push(')');
        }
        Stmt::While(c, b) => {
            out.push_str("(while ");
            dump_expr(c, out);
            out.push(' ');
            dump_block(b, out);
            out.push(')');
        }
        Stmt::For { lhs, iter, body } => {
            out.push_str("(for ");
            dump_expr(lhs, out);
            out.push(' ');
            dump_expr(iter, out);
            out.push(' ');
            dump_block(body, out);
            out.push(')');
        }
        Stmt::Break(_) => out.push_str("(break)"),
        Stmt::Continue(_) => out.push_str("(continue)"),
        Stmt::Func { name, params, collect, body, .. } => {
            out.push_str(&format!("(fndecl {} {} (", name, collect));
            for (i, p) in params.iter().enumerate() {
                if i > 0 {
                    out.push(' ');
                }
                dump_expr(p, out);
            }
            out.push_str(") ");
            dump_block(body, out);
            out.push(')');
        }
        Stmt::Return(_, e) => {
            out.push_str("(return ");
            dump_expr(e, out);
            out.push(')');
        }
    }
}

pub fn dump_prog(p: &[Stmt]) -> String {
    let mut s = String::new();
    dump_block(p, &mut s);
    s
}
