//! Reference parser: precedence climbing driven by the tier table in C08's
//! statement; statements by recursive descent with backtracking on the `{`
//! block/object choice.  Errors are reported at the furthest token reached by
//! any alternative (the first token that cannot extend a valid prefix).
use super::ast::*;
use super::lex::{lex_raw, suppress_terminators, LexErr, Pos, Tok, Token};
use std::rc::Rc;

#[derive(Clone, Debug)]
pub enum FrontErr {
    Lex(LexErr),
    /// unexpected token at `pos`; `None` = unexpected end of input
    Parse { pos: Option<Pos>, tok_index: usize, at_end_tok: bool },
}

struct P<'a> {
    t: &'a [Token],
    i: usize,
    far: usize,
}

type R<T> = Result<T, ()>;

const EXPR_START_SYMS: [&str; 4] = ["-", "(", "[", "{"];

impl<'a> P<'a> {
    fn peek(&self) -> Option<&Tok> {
        self.t.get(self.i).map(|t| &t.tok)
    }
    fn peek_at(&self, k: usize) -> Option<&Tok> {
        self.t.get(self.i + k).map(|t| &t.tok)
    }
    fn pos(&self) -> Pos {
        self.t.get(self.i).map(|t| t.pos).unwrap_or((0, 0))
    }
    fn fail<T>(&mut self) -> R<T> {
        if self.i > self.far {
            self.far = self.i;
        }
        Err(())
    }
    fn is_sym(&self, s: &str) -> bool {
        matches!(self.peek(), Some(Tok::Sym(x)) if *x == s)
    }
    fn is_kw(&self, s: &str) -> bool {
        matches!(self.peek(), Some(Tok::Kw(x)) if *x == s)
    }
    fn eat_sym(&mut self, s: &str) -> R<()> {
        if self.is_sym(s) {
            self.i += 1;
            Ok(())
        } else {
            self.fail()
        }
    }
    fn eat_kw(&mut self, s: &str) -> R<()> {
        if self.is_kw(s) {
            self.i += 1;
            Ok(())
        } else {
            self.fail()
        }
    }
    fn eat_end(&mut self) -> R<()> {
        if matches!(self.peek(), Some(Tok::End)) {
            self.i += 1;
            Ok(())
        } else {
            self.fail()
        }
    }
    fn ident(&mut self) -> R<(String, Pos)> {
        if let Some(Tok::Ident(s)) = self.peek() {
            let r = (s.clone(), self.pos());
            self.i += 1;
            Ok(r)
        } else {
            self.fail()
        }
    }
    fn starts_expr_at(&self, k: usize) -> bool {
        match self.peek_at(k) {
            Some(Tok::Ident(_)) | Some(Tok::Int(_)) | Some(Tok::Str(_)) | Some(Tok::Interp(_)) => {
                true
            }
            Some(Tok::Kw(k)) => matches!(*k, "null" | "true" | "false" | "fn"),
            Some(Tok::Sym(s)) => EXPR_START_SYMS.contains(s),
            _ => false,
        }
    }

    fn prog(&mut self) -> R<Vec<Stmt>> {
        let mut v = vec![];
        while self.i < self.t.len() {
            v.push(self.stmt()?);
        }
        Ok(v)
    }

    fn stmt(&mut self) -> R<Stmt> {
        let s = self.raw_stmt()?;
        self.eat_end()?;
        Ok(s)
    }

    fn block(&mut self) -> R<Vec<Stmt>> {
        self.eat_sym("{")?;
        let mut v = vec![];
        while !self.is_sym("}") {
            if self.i >= self.t.len() {
                return self.fail();
            }
            v.push(self.stmt()?);
        }
        self.eat_sym("}")?;
        Ok(v)
    }

    fn raw_stmt(&mut self) -> R<Stmt> {
        if self.is_sym("{") {
            let save = self.i;
            if let Ok(b) = self.block() {
                if !b.is_empty() {
                    return Ok(Stmt::Block(b));
                }
            }
            self.i = save;
            // fall through: expression statement starting with an object
        }
        if self.is_kw("if") {
            return self.if_stmt();
        }
        if self.is_kw("while") {
            self.i += 1;
            let c = self.expr()?;
            let b = self.block()?;
            return Ok(Stmt::While(c, b));
        }
        if self.is_kw("for") {
            self.i += 1;
            let lhs = self.expr()?;
            self.eat_kw("in")?;
            let iter = self.expr()?;
            let body = self.block()?;
            return Ok(Stmt::For { lhs, iter, body });
        }
        if self.is_kw("break") {
            let p = self.pos();
            self.i += 1;
            return Ok(Stmt::Break(p));
        }
        if self.is_kw("continue") {
            let p = self.pos();
            self.i += 1;
            return Ok(Stmt::Continue(p));
        }
        if self.is_kw("return") {
            let p = self.pos();
            self.i += 1;
            let e = self.expr()?;
            return Ok(Stmt::Return(p, e));
        }
        if self.is_kw("fn") && matches!(self.peek_at(1), Some(Tok::Ident(_))) {
            self.i += 1;
            let (name, name_pos) = self.ident()?;
            self.eat_sym("(")?;
            let (params, collect) = self.param_list()?;
            self.eat_sym(")")?;
            let body = self.block()?;
            return Ok(Stmt::Func { name, name_pos, params, collect, body: Rc::new(body) });
        }
        let lhs = self.expr()?;
        if self.is_sym(":=") {
            self.i += 1;
            let rhs = self.expr()?;
            return Ok(Stmt::Declare(lhs, rhs));
        }
        if self.is_sym("=") {
            self.i += 1;
            let rhs = self.expr()?;
            return Ok(Stmt::Assign(lhs, rhs));
        }
        for (s, op) in
            [("+=", Op::Add), ("-=", Op::Sub), ("*=", Op::Mul), ("/=", Op::Div), ("%=", Op::Mod)]
        {
            if self.is_sym(s) {
                let op_pos = self.pos();
                self.i += 1;
                let rhs = self.expr()?;
                return Ok(Stmt::OpAssign { lhs, op, op_pos, rhs });
            }
        }
        Ok(Stmt::Expr(lhs))
    }

    fn if_stmt(&mut self) -> R<Stmt> {
        let mut branches = vec![];
        let mut els = None;
        loop {
            self.eat_kw("if")?;
            let c = self.expr()?;
            let b = self.block()?;
            branches.push((c, b));
            if self.is_kw("else") {
                self.i += 1;
                if self.is_kw("if") {
                    continue;
                }
                els = Some(self.block()?);
            }
            break;
        }
        Ok(Stmt::If { branches, els })
    }

    fn param_list(&mut self) -> R<(Vec<Expr>, bool)> {
        let mut v = vec![];
        loop {
            if self.is_sym(")") {
                return Ok((v, false));
            }
            if self.is_sym("..") {
                self.i += 1;
                v.push(self.expr()?);
                return Ok((v, true));
            }
            v.push(self.expr()?);
            if self.is_sym(",") {
                self.i += 1;
            } else {
                return Ok((v, false));
            }
        }
    }

    /// `Expr`: the loosest tier (`..`), left to right.
    fn expr(&mut self) -> R<Expr> {
        let mut l = self.tier(4)?;
        loop {
            if self.is_sym("..") {
                if self.starts_expr_at(1) {
                    self.i += 1;
                    let r = self.tier(4)?;
                    let pos = l.ppos;
                    l = Expr { k: Rc::new(EK::Range { l, r }), pos, ppos: pos };
                    continue;
                } else if self.i + 1 > self.far {
                    // `a ..` is a valid prefix of a range; the token after it is where a
                    // failure would be (unless the caller accepts a spread here)
                    self.far = self.i + 1;
                }
            }
            return Ok(l);
        }
    }

    /// binary tiers: 4 = `&& ||`, 3 = `+ -`, 2 = `* / %` and comparisons; 1 = postfix
    fn tier(&mut self, n: u8) -> R<Expr> {
        if n == 1 {
            return self.postfix();
        }
        let mut l = self.tier(n - 1)?;
        loop {
            let op = match self.peek() {
                Some(Tok::Sym(s)) => match Op::from_sym(s) {
                    Some(op) if op.tier() == n => op,
                    _ => return Ok(l),
                },
                _ => return Ok(l),
            };
            let op_pos = self.pos();
            self.i += 1;
            let r = self.tier(n - 1)?;
            let pos = l.ppos;
            l = Expr { k: Rc::new(EK::Bin { op, op_pos, l, r }), pos, ppos: pos };
        }
    }

    fn postfix(&mut self) -> R<Expr> {
        let mut e = self.atom()?;
        loop {
            let pos = e.ppos;
            if self.is_sym("(") {
                self.i += 1;
                let args = self.items(")", false)?.0;
                self.eat_sym(")")?;
                e = Expr { k: Rc::new(EK::Call { f: e, args }), pos, ppos: pos };
            } else if self.is_sym("[") {
                self.i += 1;
                let a = if self.is_sym(":") { None } else { Some(self.expr()?) };
                if self.is_sym(":") {
                    self.i += 1;
                    let b = if self.is_sym("]") { None } else { Some(self.expr()?) };
                    self.eat_sym("]")?;
                    e = Expr { k: Rc::new(EK::RangeIndex { e, a, b }), pos, ppos: pos };
                } else {
                    self.eat_sym("]")?;
                    let i = a.unwrap();
                    e = Expr { k: Rc::new(EK::Index { e, i }), pos, ppos: pos };
                }
            } else if self.is_sym(".") {
                self.i += 1;
                let (name, _) = self.ident()?;
                e = Expr { k: Rc::new(EK::Prop { e, name, tp: false }), pos, ppos: pos };
            } else if self.is_sym("->") {
                self.i += 1;
                let (name, _) = self.ident()?;
                e = Expr { k: Rc::new(EK::Prop { e, name, tp: true }), pos, ppos: pos };
            } else {
                return Ok(e);
            }
        }
    }

    /// list items / call arguments up to `close`; returns (items, collect)
    fn items(&mut self, close: &str, allow_collect: bool) -> R<(Vec<Item>, bool)> {
        let mut v = vec![];
        loop {
            if self.is_sym(close) {
                return Ok((v, false));
            }
            if allow_collect && self.is_sym("..") {
                self.i += 1;
                let e = self.expr()?;
                let spread = self.opt_spread();
                v.push(Item { e, spread });
                return Ok((v, true));
            }
            let e = self.expr()?;
            let spread = self.opt_spread();
            v.push(Item { e, spread });
            if self.is_sym(",") {
                self.i += 1;
            } else {
                return Ok((v, false));
            }
        }
    }

    fn opt_spread(&mut self) -> bool {
        if self.is_sym("..") && !self.starts_expr_at(1) {
            self.i += 1;
            true
        } else {
            false
        }
    }

    fn props(&mut self) -> R<Vec<Prop>> {
        let mut v = vec![];
        loop {
            if self.is_sym("}") {
                return Ok(v);
            }
            if self.is_sym("..") {
                self.i += 1;
                let e = self.expr()?;
                let spread = self.opt_spread();
                v.push(Prop::Single { e, spread, collect: true });
            } else {
                let e = self.expr()?;
                if self.is_sym(":") {
                    self.i += 1;
                    let val = self.expr()?;
                    v.push(Prop::Pair { k: e, v: val });
                } else {
                    let spread = self.opt_spread();
                    v.push(Prop::Single { e, spread, collect: false });
                }
            }
            if self.is_sym(",") {
                self.i += 1;
            } else {
                return Ok(v);
            }
        }
    }

    fn atom(&mut self) -> R<Expr> {
        let pos = self.pos();
        let mk = |k: EK| Expr { k: Rc::new(k), pos, ppos: pos };
        let tok = match self.peek() {
            Some(t) => t.clone(),
            None => return self.fail(),
        };
        match tok {
            Tok::Kw("null") => {
                self.i += 1;
                Ok(mk(EK::Null))
            }
            Tok::Kw("true") => {
                self.i += 1;
                Ok(mk(EK::Bool(true)))
            }
            Tok::Kw("false") => {
                self.i += 1;
                Ok(mk(EK::Bool(false)))
            }
            Tok::Kw("fn") => {
                self.i += 1;
                self.eat_sym("(")?;
                let (params, collect) = self.param_list()?;
                self.eat_sym(")")?;
                let body = self.block()?;
                Ok(mk(EK::Func { params, collect, body: Rc::new(body) }))
            }
            Tok::Ident(s) => {
                self.i += 1;
                Ok(mk(EK::Var(s)))
            }
            Tok::Int(n) => {
                self.i += 1;
                Ok(mk(EK::Int(n)))
            }
            Tok::Str(s) => {
                self.i += 1;
                Ok(mk(EK::Str(s)))
            }
            Tok::Interp(p) => {
                self.i += 1;
                Ok(mk(EK::Interp(p)))
            }
            Tok::Sym("-") => {
                self.i += 1;
                if let Some(Tok::Int(n)) = self.peek() {
                    let n = *n;
                    self.i += 1;
                    Ok(mk(EK::Int(-n)))
                } else {
                    self.fail()
                }
            }
            Tok::Sym("(") => {
                self.i += 1;
                let inner = self.expr()?;
                self.eat_sym(")")?;
                Ok(Expr { k: inner.k, pos: inner.pos, ppos: pos })
            }
            Tok::Sym("[") => {
                self.i += 1;
                let (items, collect) = self.items("]", true)?;
                self.eat_sym("]")?;
                Ok(mk(EK::List { items, collect }))
            }
            Tok::Sym("{") => {
                self.i += 1;
                let props = self.props()?;
                self.eat_sym("}")?;
                Ok(mk(EK::Object { props }))
            }
            _ => self.fail(),
        }
    }
}

fn parse_tokens(toks: &[Token]) -> Result<Vec<Stmt>, usize> {
    let mut p = P { t: toks, i: 0, far: 0 };
    match p.prog() {
        Ok(v) => Ok(v),
        Err(()) => Err(p.far),
    }
}

pub fn parse_prog(src: &str) -> Result<Vec<Stmt>, FrontErr> {
    let (raw, lex_err) = lex_raw(src);
    let toks = suppress_terminators(raw);
    let r = parse_tokens(&toks);
    match (r, lex_err) {
        (Ok(v), None) => Ok(v),
        (Ok(_), Some(e)) => Err(FrontErr::Lex(e)),
        (Err(far), Some(e)) => {
            if far < toks.len() {
                Err(mk_parse_err(&toks, far))
            } else {
                Err(FrontErr::Lex(e))
            }
        }
        (Err(far), None) => Err(mk_parse_err(&toks, far)),
    }
}

fn mk_parse_err(toks: &[Token], far: usize) -> FrontErr {
    match toks.get(far) {
        Some(t) => FrontErr::Parse {
            pos: Some(t.pos),
            tok_index: far,
            at_end_tok: t.tok == Tok::End,
        },
        None => FrontErr::Parse { pos: None, tok_index: far, at_end_tok: false },
    }
}

/// Parse a single expression (interpolation slot).
pub fn parse_expr(src: &str) -> Result<Expr, FrontErr> {
    let (raw, lex_err) = lex_raw(src);
    let toks = suppress_terminators(raw);
    let mut p = P { t: &toks, i: 0, far: 0 };
    let r = p.expr();
    let complete = r.is_ok() && p.i == toks.len();
    if let (true, None) = (complete, &lex_err) {
        return Ok(r.unwrap());
    }
    if r.is_ok() && p.i < toks.len() {
        let _: R<()> = p.fail();
    }
    let far = p.far;
    match lex_err {
        Some(e) if far >= toks.len() => Err(FrontErr::Lex(e)),
        _ => Err(mk_parse_err(&toks, far)),
    }
}
