//! Check driver: build subject, validate the reference model, run one check,
//! conformance pass, confirm violations through the CLI, write findings and
//! evidence, decide the exit code (0 held / 1 violation / 2 machinery failure).
use crate::checks;
use crate::engine::*;
use crate::refm::eval;
use crate::repo_tests;
use crate::subject::{self, MachineryError, Mode, Req};
use serde_json::{json, Value};
use std::path::{Path, PathBuf};

pub const KNOWN_PATH: &str = "/verif/known_findings.json";
pub fn evidence_dir() -> String {
    std::env::var("SEED_VERIF_EVIDENCE_DIR").unwrap_or_else(|_| "/verif/evidence".to_string())
}
pub fn findings_dir() -> String {
    std::env::var("SEED_VERIF_FINDINGS_DIR").unwrap_or_else(|_| "/verif/findings".to_string())
}

fn machinery(msg: &str) -> i32 {
    eprintln!("MACHINERY-FAILURE: {}", msg);
    println!("MACHINERY-FAILURE (no verdict): {}", msg.lines().next().unwrap_or(""));
    subject::cleanup_tmp();
    2
}

pub fn run_check(id: &str, tier: Tier) -> i32 {
    let seed: i64 = std::env::var("VERIF_SEED").ok().and_then(|s| s.parse().ok()).unwrap_or(0);
    let check = match checks::get(id) {
        Some(c) => c,
        None => return machinery(&format!("unknown check {}", id)),
    };
    let known = match load_known(KNOWN_PATH) {
        Ok(k) => k,
        Err(e) => return machinery(&e.0),
    };
    let bin = match subject::build_subject() {
        Ok(b) => b,
        Err(e) => return machinery(&e),
    };
    // reference model must reproduce the repository's own expected outputs
    let (ok, total, fails) = repo_tests::selfcheck(&format!("{}/tests/stdout", subject::repo()), false);
    if ok != total || total == 0 {
        return machinery(&format!(
            "reference self-validation {}/{}: {}",
            ok,
            total,
            fails.first().cloned().unwrap_or_default()
        ));
    }
    let mut ctx = Ctx::new(id, tier, seed, bin, known);
    ctx.extra.insert("reference_selfcheck".into(), json!(format!("{}/{}", ok, total)));
    if let Err(e) = check.run(&mut ctx) {
        return machinery(&e.0);
    }
    if let Err(e) = ctx.conformance_pass() {
        // the hook and the command disagree on a script.  With nothing else to go on that is a
        // failure of the machinery; when the check has itself seen the command violate the
        // property (cases run through the command, confirmed below through the command), the
        // disagreement is the change under test and the violations stand
        if !ctx.violations.iter().any(|v| v.case.cli_path.is_some()) {
            return machinery(&e.0);
        }
        ctx.extra.insert("hook_and_command_disagree".into(), json!(e.0));
    }
    let unmet: Vec<String> = ctx.guards.iter().filter(|(_, hit)| !**hit).map(|(g, _)| g.clone()).collect();
    if !unmet.is_empty() {
        if !ctx.capped {
            return machinery(&format!("vacuity guard not met: {}", unmet[0]));
        }
        // the wall cap of the tier ended the exploration early (reported as not exhaustive):
        // what was not reached is listed, it is not a failure of the machinery
        ctx.extra.insert("guards_not_reached_before_the_wall_cap".into(), json!(unmet));
    }
    match finish(&mut ctx) {
        Ok(code) => code,
        Err(e) => machinery(&e.0),
    }
}

fn confirm(ctx: &Ctx, v: &ViolationRec) -> Result<Value, MachineryError> {
    if let Some(path) = &v.case.cli_path {
        // CLI-only case: replay twice through the CLI with the same path spelling
        let c1 = subject::run_cli_at(&ctx.bin, v.case.src.as_bytes(), path)?;
        let c2 = subject::run_cli_at(&ctx.bin, v.case.src.as_bytes(), path)?;
        if c1.code != c2.code || c1.stdout != c2.stdout || strip_tid(&c1.stderr_str()) != strip_tid(&c2.stderr_str()) {
            return Err(MachineryError(format!("nondeterministic CLI replay of a violation ({})", v.case.src)));
        }
        return Ok(json!({
            "path": path, "exit": c1.code, "signal": c1.signal,
            "stdout": String::from_utf8_lossy(&c1.stdout), "stderr": c1.stderr_str(),
        }));
    }
    if v.clause == "nondeterminism" || v.clause == "state-carried-between-scripts" {
        // the violation is about run-to-run variation: one more run is recorded, identical
        // replays are not required
        let c1 = subject::run_cli_simple(&ctx.bin, v.case.src.as_bytes())?;
        return Ok(json!({"exit": c1.code, "signal": c1.signal, "stdout": String::from_utf8_lossy(&c1.stdout), "stderr": c1.stderr_str()}));
    }
    // replay twice in fresh workers and twice through the CLI
    let mut batch = vec![];
    for _ in 0..2 {
        let o = ctx.pool.run(&[Req { mode: v.case.mode, label: "case.sd", src: &v.case.src }])?;
        batch.push(o.into_iter().next().unwrap());
    }
    let hang = batch[0].class == subject::Class::Hang;
    if v.subject_class == "Hang" && !hang && batch[1].class != subject::Class::Hang {
        // the run was cut off by the watchdog during exploration but completes on replay
        // (twice): a load artefact of the harness, not a behaviour of the interpreter
        return Ok(json!("transient-hang"));
    }
    if batch[0].class != batch[1].class
        || (!hang && (batch[0].stdout != batch[1].stdout || batch[0].msg != batch[1].msg))
    {
        return Err(MachineryError(format!(
            "nondeterministic replay of a violation ({}): {:?} {:?} vs {:?} {:?}",
            v.case.src, batch[0].class, trunc(&batch[0].msg), batch[1].class, trunc(&batch[1].msg)
        )));
    }
    let mut cli_json = Value::Null;
    if v.case.mode == Mode::Run && hang {
        let c1 = subject::run_cli_at_once(&ctx.bin, v.case.src.as_bytes(), "case.sd", std::time::Duration::from_secs(8))?;
        if !c1.timed_out && c1.signal != Some(9) {
            return Err(MachineryError(format!("batch run hangs but the CLI run ends ({})", v.case.src)));
        }
        return Ok(json!({"timed_out": true}));
    }
    if v.case.mode == Mode::Run {
        let c1 = subject::run_cli_simple(&ctx.bin, v.case.src.as_bytes())?;
        let c2 = subject::run_cli_simple(&ctx.bin, v.case.src.as_bytes())?;
        if hang {
            if !c1.timed_out && c1.signal != Some(9) {
                return Err(MachineryError(format!(
                    "batch run hangs but the CLI run ends ({})",
                    v.case.src
                )));
            }
            return Ok(json!({"timed_out": true}));
        }
        if c1.code != c2.code || c1.stdout != c2.stdout || strip_tid(&c1.stderr_str()) != strip_tid(&c2.stderr_str()) {
            return Err(MachineryError(format!(
                "nondeterministic CLI replay of a violation ({})",
                v.case.src
            )));
        }
        if let Some(d) = compare_batch_cli(&batch[0], &c1) {
            return Err(MachineryError(format!(
                "violation not reproduced through the CLI ({}): {}",
                v.case.src, d
            )));
        }
        cli_json = json!({
            "exit": c1.code, "signal": c1.signal,
            "stdout": String::from_utf8_lossy(&c1.stdout),
            "stderr": c1.stderr_str(),
        });
    }
    Ok(cli_json)
}

fn trunc(s: &str) -> String {
    s.chars().take(300).collect()
}

fn strip_tid(s: &str) -> String {
    // panic messages carry a thread id
    let mut out = String::new();
    let mut rest = s;
    while let Some(i) = rest.find("thread 'main' (") {
        out.push_str(&rest[..i]);
        rest = &rest[i..];
        match rest.find(')') {
            Some(j) => rest = &rest[j + 1..],
            None => break,
        }
    }
    out.push_str(rest);
    out
}

fn finish(ctx: &mut Ctx) -> Result<i32, MachineryError> {
    let (commit, dirty) = subject::repo_commit();
    let mut lines = vec![];
    let viols = ctx.violations.clone();
    let mut unconfirmed: Vec<String> = vec![];
    // confirmations run with a fresh hang budget
    subject::HANGS.store(0, std::sync::atomic::Ordering::SeqCst);
    for v in &viols {
        subject::HANGS.store(0, std::sync::atomic::Ordering::SeqCst);
        // a violation whose replay does not reproduce identically is set aside; it is a machinery
        // failure only if no violation of this run could be confirmed
        let cli = match confirm(ctx, v) {
            Ok(c) => c,
            Err(e) => {
                ctx.violation_count = ctx.violation_count.saturating_sub(1);
                unconfirmed.push(e.0);
                continue;
            }
        };
        if cli == json!("transient-hang") {
            ctx.violation_count = ctx.violation_count.saturating_sub(1);
            ctx.extra.insert("transient_hangs_dropped".into(), json!(true));
            continue;
        }
        ctx.cli_confirmations += 2;
        let h = h64(&(&v.case.src, &v.clause, v.case.tag, &v.case.cli_path));
        let dir = PathBuf::from(format!("{}/{}/{:016x}", findings_dir(), ctx.id, h));
        std::fs::create_dir_all(&dir).map_err(|e| MachineryError(e.to_string()))?;
        std::fs::write(dir.join("case.sd"), &v.case.src).map_err(|e| MachineryError(e.to_string()))?;
        let j = json!({
            "property": ctx.id, "tier": ctx.tier.name(), "clause": v.clause, "detail": v.detail,
            "mode": format!("{:?}", v.case.mode), "tag": v.case.tag, "cli_path": v.case.cli_path,
            "companion": v.case.companion, "companion_edit": v.case.companion_edit.map(|e| vec![e.0, e.1, e.2]), "generated_by": v.case.meta,
            "reference": v.ref_summary,
            "subject_batch": {"class": v.subject_class, "stdout": v.subject_stdout, "msg": v.subject_msg},
            "subject_cli": cli,
            "subject_commit": commit, "subject_dirty": dirty,
        });
        std::fs::write(dir.join("case.json"), serde_json::to_string_pretty(&j).unwrap())
            .map_err(|e| MachineryError(e.to_string()))?;
        lines.push(format!("VIOLATION property={} replay={}", ctx.id, dir.display()));
        if lines.len() <= 6 {
        eprintln!(
            "[{}] violation ({}): {}\n    program: {:?}\n    subject: {} stdout={:?} msg={:?}\n    reference: {}",
            ctx.id, v.clause, v.detail, v.case.src, v.subject_class, v.subject_stdout, v.subject_msg, v.ref_summary
        );
        }
    }
    if !unconfirmed.is_empty() {
        if lines.is_empty() {
            return Err(MachineryError(unconfirmed[0].clone()));
        }
        ctx.extra.insert("violations_set_aside_because_their_replay_varied".into(), json!(unconfirmed.len()));
        eprintln!("[{}] {} recorded violation(s) set aside: the replay did not reproduce identically ({})", ctx.id, unconfirmed.len(), unconfirmed[0].chars().take(200).collect::<String>());
    }
    for (what, n) in &ctx.known_hits {
        println!("KNOWN-FINDING: property={} {} ({} cases)", ctx.id, what, n);
    }
    write_evidence(ctx)?;
    subject::cleanup_tmp();
    for l in &lines {
        println!("{}", l);
    }
    println!(
        "[{}] {} tier: evaluations={} states={} transitions={} distinct_nontrivial={} outcomes={} violations={} known={} exhaustive={} wall={:.1}s",
        ctx.id,
        ctx.tier.name(),
        ctx.evaluations,
        ctx.states.len(),
        ctx.transitions,
        ctx.distinct_nontrivial,
        ctx.outcomes.len(),
        ctx.violation_count,
        ctx.known_hits.values().sum::<u64>(),
        ctx.exhaustive,
        ctx.start.elapsed().as_secs_f64()
    );
    Ok(if ctx.violation_count > 0 { 1 } else { 0 })
}

fn write_evidence(ctx: &Ctx) -> Result<(), MachineryError> {
    let mut cov = serde_json::Map::new();
    cov.insert("states".into(), json!(ctx.states.len().max(1)));
    cov.insert("transitions".into(), json!(ctx.transitions.max(1)));
    cov.insert("traces_validated_against_impl".into(), json!(ctx.evaluations));
    cov.insert("evaluations".into(), json!(ctx.evaluations));
    cov.insert("distinct_nontrivial".into(), json!(ctx.distinct_nontrivial));
    cov.insert("distinct_reference_outcome_shapes".into(), json!(ctx.ref_shapes.len()));
    cov.insert("distinct_outcomes".into(), json!(ctx.outcomes.len()));
    cov.insert("rule".into(), json!(ctx.rule));
    cov.insert("samples".into(), json!(ctx.samples));
    cov.insert("exhaustive".into(), json!(ctx.exhaustive));
    cov.insert("capped".into(), json!(ctx.capped));
    cov.insert("excluded_by_reference_budget".into(), json!(ctx.excluded_budget));
    cov.insert("cli_confirmations".into(), json!(ctx.cli_confirmations));
    cov.insert("vacuity_guards".into(), json!(ctx.guards));
    cov.insert("known_findings_hit".into(), json!(ctx.known_hits));
    let (commit, dirty) = subject::repo_commit();
    cov.insert("subject_commit".into(), json!(commit));
    cov.insert("subject_dirty".into(), json!(dirty));
    for (k, v) in &ctx.extra {
        cov.insert(k.clone(), v.clone());
    }
    let ev = json!({
        "property_id": ctx.id,
        "tier": ctx.tier.name(),
        "seed": ctx.seed,
        "level": "model_checking",
        "coverage": Value::Object(cov),
        "assumptions": [
            "the reference model (mc/src/refm) is a correct reading of docs/features.md and the property statement; it is re-validated against the repository's expected outputs on every run",
            "bounds as stated in coverage.bounds; nothing is claimed beyond them",
            "batch workers run the same lex/parse/eval/render code as the CLI (checked by the conformance pass on one representative per outcome shape)"
        ],
        "wall_s": ctx.start.elapsed().as_secs_f64(),
        "violations": ctx.violation_count,
    });
    std::fs::create_dir_all(evidence_dir()).map_err(|e| MachineryError(e.to_string()))?;
    let p = Path::new(&evidence_dir()).join(format!("{}.json", ctx.id));
    std::fs::write(&p, serde_json::to_string_pretty(&ev).unwrap())
        .map_err(|e| MachineryError(e.to_string()))?;
    Ok(())
}

pub fn replay(dir: &str) -> i32 {
    let d = Path::new(dir);
    let src = match std::fs::read_to_string(d.join("case.sd")) {
        Ok(s) => s,
        Err(e) => return machinery(&format!("cannot read case.sd: {}", e)),
    };
    let meta: Value = match std::fs::read_to_string(d.join("case.json"))
        .ok()
        .and_then(|s| serde_json::from_str(&s).ok())
    {
        Some(v) => v,
        None => return machinery("cannot read case.json"),
    };
    let id = meta["property"].as_str().unwrap_or("").to_string();
    let check = match checks::get(&id) {
        Some(c) => c,
        None => return machinery(&format!("unknown property {}", id)),
    };
    let bin = match subject::build_subject() {
        Ok(b) => b,
        Err(e) => return machinery(&e),
    };
    let mode = match meta["mode"].as_str() {
        Some("Tokens") => Mode::Tokens,
        Some("Ast") => Mode::Ast,
        _ => Mode::Run,
    };
    let case = Case {
        src: src.clone(),
        mode,
        tag: meta["tag"].as_u64().unwrap_or(0) as u32,
        meta: meta["generated_by"].as_str().unwrap_or("").to_string(),
        nontrivial: true,
        no_ref: false,
        cli_path: meta["cli_path"].as_str().map(|s| s.to_string()),
        companion: meta["companion"].as_str().map(|s| s.to_string()),
        companion_edit: meta["companion_edit"].as_array().and_then(|a| if a.len() == 3 { Some((a[0].as_u64()? as usize, a[1].as_u64()? as usize, a[2].as_u64()? as usize)) } else { None }),
    };
    if let Some(path) = case.cli_path.clone() {
        let r = eval::run(&src, REF_BUDGET);
        let c = match subject::run_cli_at(&bin, src.as_bytes(), &path) {
            Ok(c) => c,
            Err(e) => return machinery(&e.0),
        };
        println!("reference: {}", ref_summary(&r));
        println!("cli ({}): exit={:?} signal={:?} stdout={:?} stderr={:?}", path, c.code, c.signal, String::from_utf8_lossy(&c.stdout), c.stderr_str());
        subject::cleanup_tmp();
        return match check.oracle_cli(&case, &r, &c) {
            Some(Verdict::Violation { clause, detail }) => {
                println!("replay: {} / {}", clause, detail);
                println!("VIOLATION property={} replay={}", id, dir);
                1
            }
            _ => {
                println!("replay: the recorded case no longer violates {} (single-case oracle)", id);
                0
            }
        };
    }
    let pool = subject::Pool::new(&bin);
    if case.companion.is_some() {
        match check.replay_group(&case, &pool) {
            Ok(Some(Verdict::Violation { clause, detail })) => {
                println!("replay: {} / {}", clause, detail);
                println!("VIOLATION property={} replay={}", id, dir);
                subject::cleanup_tmp();
                return 1;
            }
            Ok(Some(Verdict::Pass)) => {
                println!("replay: the recorded pair no longer violates {}", id);
                subject::cleanup_tmp();
                return 0;
            }
            Ok(None) => {}
            Err(e) => return machinery(&e.0),
        }
    }
    let o = match pool.run(&[Req { mode, label: "case.sd", src: &src }]) {
        Ok(o) => o.into_iter().next().unwrap(),
        Err(e) => return machinery(&e.0),
    };
    let r = eval::run(&src, REF_BUDGET);
    println!("reference: {}", ref_summary(&r));
    println!("subject:   {:?} stdout={:?} msg={:?}", o.class, o.out_str(), o.msg);
    if mode == Mode::Run {
        match subject::run_cli_simple(&bin, src.as_bytes()) {
            Ok(c) => println!(
                "cli:       exit={:?} signal={:?} stdout={:?} stderr={:?}",
                c.code,
                c.signal,
                String::from_utf8_lossy(&c.stdout),
                c.stderr_str()
            ),
            Err(e) => return machinery(&e.0),
        }
    }
    let v = if o.crashed() {
        viol("crash", format!("{:?}", o.class))
    } else {
        check.oracle(&case, &r, &o)
    };
    subject::cleanup_tmp();
    match v {
        Verdict::Pass => {
            println!("replay: the recorded case no longer violates {} (single-case oracle)", id);
            0
        }
        Verdict::Violation { clause, detail } => {
            println!("replay: {} / {}", clause, detail);
            println!("VIOLATION property={} replay={}", id, dir);
            1
        }
    }
}
