//! Shared exploration plumbing: every enumerated case is executed on the
//! reference model and on the real interpreter, judged by the check's oracle,
//! counted, and (on disagreement) confirmed through the plain CLI, matched
//! against the committed known findings and written out as a replayable case.
use crate::refm::eval::{self, RefOutcome, RefResult};
use crate::subject::{self, Class, MachineryError, Mode, Outcome, Pool, Req};
use rayon::prelude::*;
use serde_json::{json, Value};
use std::collections::{BTreeMap, HashSet};
use std::hash::{Hash, Hasher};
use std::path::PathBuf;
use std::time::Instant;

#[derive(Clone, Copy, Debug, PartialEq)]
pub enum Tier {
    Quick,
    Thorough,
}

impl Tier {
    pub fn name(self) -> &'static str {
        match self {
            Tier::Quick => "quick",
            Tier::Thorough => "thorough",
        }
    }
    pub fn pick<T>(self, q: T, t: T) -> T {
        match self {
            Tier::Quick => q,
            Tier::Thorough => t,
        }
    }
}

#[derive(Clone, Debug)]
pub struct Case {
    pub src: String,
    pub mode: Mode,
    /// check-specific family / sub-oracle selector
    pub tag: u32,
    /// how the case was generated (operation list, tuple, edit)
    pub meta: String,
    /// non-trivial by the check's stated rule
    pub nontrivial: bool,
    /// skip the reference run (the oracle does not need it)
    pub no_ref: bool,
    /// run through the plain CLI with the script stored under this relative path
    pub cli_path: Option<String>,
    /// for law-based oracles: the program this one is compared with, and the edit
    /// (byte offset, bytes removed, bytes added) that turns it into this one
    pub companion: Option<String>,
    pub companion_edit: Option<(usize, usize, usize)>,
}

impl Case {
    pub fn new(src: String, tag: u32, meta: String) -> Case {
        Case { src, mode: Mode::Run, tag, meta, nontrivial: true, no_ref: false, cli_path: None, companion: None, companion_edit: None }
    }
}

#[derive(Clone, Debug)]
pub enum Verdict {
    Pass,
    Violation { clause: String, detail: String },
}

pub fn viol(clause: &str, detail: String) -> Verdict {
    Verdict::Violation { clause: clause.to_string(), detail }
}

pub struct Judged {
    pub case: Case,
    pub r: RefOutcome,
    pub o: Outcome,
}

#[derive(Clone, Debug)]
pub struct ViolationRec {
    pub case: Case,
    pub clause: String,
    pub detail: String,
    pub subject_class: String,
    pub subject_stdout: String,
    pub subject_msg: String,
    pub ref_summary: String,
}

#[derive(Clone, Debug)]
pub struct KnownFinding {
    pub property: String,
    pub clause: String,
    pub src_contains: Vec<String>,
    pub msg_contains: Vec<String>,
    pub what: String,
}

pub const REF_BUDGET: u64 = 200_000;

pub fn h64<T: Hash>(t: &T) -> u64 {
    let mut h = std::collections::hash_map::DefaultHasher::new();
    t.hash(&mut h);
    h.finish()
}

pub struct Ctx {
    pub id: String,
    pub tier: Tier,
    pub seed: i64,
    pub bin: PathBuf,
    pub pool: Pool,
    pub known: Vec<KnownFinding>,
    pub evaluations: u64,
    pub transitions: u64,
    pub states: HashSet<u64>,
    pub distinct_nontrivial: u64,
    pub ref_shapes: HashSet<u64>,
    pub outcomes: HashSet<u64>,
    pub excluded_budget: u64,
    pub samples: Vec<Value>,
    pub violations: Vec<ViolationRec>,
    pub violation_count: u64,
    pub known_hits: BTreeMap<String, u64>,
    pub viol_sigs: HashSet<u64>,
    pub extra: serde_json::Map<String, Value>,
    pub guards: BTreeMap<String, bool>,
    pub exhaustive: bool,
    pub capped: bool,
    pub start: Instant,
    pub conformance: Vec<(String, Outcome)>,
    conf_seen: HashSet<u64>,
    pub cli_confirmations: u64,
    pub rule: String,
    pub wall_cap_s: f64,
}

pub const MAX_RECORDED: usize = 12;

impl Ctx {
    pub fn new(id: &str, tier: Tier, seed: i64, bin: PathBuf, known: Vec<KnownFinding>) -> Ctx {
        let pool = Pool::new(&bin);
        Ctx {
            id: id.to_string(),
            tier,
            seed,
            bin,
            pool,
            known,
            evaluations: 0,
            transitions: 0,
            states: HashSet::new(),
            distinct_nontrivial: 0,
            ref_shapes: HashSet::new(),
            outcomes: HashSet::new(),
            excluded_budget: 0,
            samples: vec![],
            violations: vec![],
            violation_count: 0,
            known_hits: BTreeMap::new(),
            viol_sigs: HashSet::new(),
            extra: serde_json::Map::new(),
            guards: BTreeMap::new(),
            exhaustive: true,
            capped: false,
            start: Instant::now(),
            conformance: vec![],
            conf_seen: HashSet::new(),
            cli_confirmations: 0,
            rule: String::new(),
            // SEED_VERIF_WALL_CAP_S: shorter cap, used to rehearse a slow host
            wall_cap_s: std::env::var("SEED_VERIF_WALL_CAP_S").ok().and_then(|s| s.parse().ok()).unwrap_or(tier.pick(50.0, 900.0)),
        }
    }

    pub fn over_cap(&mut self) -> bool {
        if self.start.elapsed().as_secs_f64() > self.wall_cap_s {
            self.capped = true;
            self.exhaustive = false;
            true
        } else {
            false
        }
    }

    pub fn guard(&mut self, name: &str, hit: bool) {
        let e = self.guards.entry(name.to_string()).or_insert(false);
        *e = *e || hit;
    }

    pub fn report(&mut self, case: &Case, r: Option<&RefOutcome>, o: &Outcome, clause: &str, detail: String) {
        let rec = ViolationRec {
            case: case.clone(),
            clause: clause.to_string(),
            detail,
            subject_class: format!("{:?}", o.class),
            subject_stdout: o.out_str(),
            subject_msg: o.msg.clone(),
            ref_summary: r.map(ref_summary).unwrap_or_default(),
        };
        // every violation is matched against the committed known findings; only
        // unlisted ones count as violations
        if let Some(k) = match_known(&self.known, &self.id, &rec) {
            *self.known_hits.entry(k.what.clone()).or_insert(0) += 1;
            return;
        }
        self.violation_count += 1;
        // keep a bounded number of distinct-looking violations for reporting
        let sig = h64(&(clause, shape(&o.msg), &o.class, case.tag));
        if self.viol_sigs.insert(sig) && self.violations.len() < MAX_RECORDED {
            self.violations.push(rec);
        }
    }

    /// Execute every case on reference and subject, apply the oracle, count.
    pub fn judge<F>(&mut self, cases: Vec<Case>, oracle: F) -> Result<Vec<Judged>, MachineryError>
    where
        F: Fn(&Case, &RefOutcome, &Outcome) -> Verdict + Sync,
    {
        self.transitions += cases.len() as u64;
        // reference first: only programs the model says terminate are sent
        let refs: Vec<RefOutcome> = cases
            .par_iter()
            .map(|c| {
                if c.no_ref || c.mode != Mode::Run {
                    RefOutcome {
                        stdout: vec![],
                        result: RefResult::Ok,
                        cyclic_touch: false,
                        steps: 0,
                    }
                } else {
                    eval::run(&c.src, REF_BUDGET)
                }
            })
            .collect();
        let mut kept: Vec<(Case, RefOutcome)> = Vec::with_capacity(cases.len());
        for (c, r) in cases.into_iter().zip(refs.into_iter()) {
            if r.budget_exceeded() {
                self.excluded_budget += 1;
                continue;
            }
            kept.push((c, r));
        }
        let label = "case.sd";
        let reqs: Vec<Req> =
            kept.iter().map(|(c, _)| Req { mode: c.mode, label, src: &c.src }).collect();
        if subject::HANGS.load(std::sync::atomic::Ordering::SeqCst) >= subject::HANG_ABORT {
            // too many non-terminating runs: stop exploring, keep what was found
            self.capped = true;
            self.exhaustive = false;
            return Ok(vec![]);
        }
        let outs = self.pool.run(&reqs)?;
        drop(reqs);
        // cases skipped after the hang limit are not judged
        let (kept, outs): (Vec<(Case, RefOutcome)>, Vec<Outcome>) = {
            let mut k = Vec::with_capacity(kept.len());
            let mut o2 = Vec::with_capacity(outs.len());
            for (kc, oc) in kept.into_iter().zip(outs.into_iter()) {
                if oc.class == Class::Skipped {
                    self.capped = true;
                    self.exhaustive = false;
                    continue;
                }
                k.push(kc);
                o2.push(oc);
            }
            (k, o2)
        };
        let verdicts: Vec<Verdict> = kept
            .par_iter()
            .zip(outs.par_iter())
            .map(|((c, r), o)| {
                if o.crashed() {
                    return viol(
                        "crash",
                        format!("interpreter did not end by completion or diagnostic: {:?} {}", o.class, o.msg),
                    );
                }
                oracle(c, r, o)
            })
            .collect();
        let mut judged = Vec::with_capacity(kept.len());
        for (((c, r), o), v) in kept.into_iter().zip(outs.into_iter()).zip(verdicts.into_iter()) {
            self.evaluations += 1;
            let new_state = self.states.insert(h64(&(&c.src, c.mode as u8 as u32, c.tag)));
            if c.nontrivial && new_state {
                self.distinct_nontrivial += 1;
                self.ref_shapes.insert(h64(&(ref_class(&r), shape_bytes(&r.stdout), shape(&o.msg))));
            }
            self.outcomes.insert(h64(&(&o.class, shape(&o.msg), shape_bytes(&o.stdout))));
            if self.samples.len() < 3 && (self.evaluations == 1 || self.evaluations % 977 == 0) {
                self.samples.push(json!({"case": c.src, "how": c.meta, "outcome": format!("{:?}", o.class)}));
            }
            // conformance representatives: one per outcome class x diagnostic shape
            if c.mode == Mode::Run && !o.crashed() {
                let key = h64(&(&o.class, shape(&o.msg)));
                if self.conf_seen.len() < 400 && self.conf_seen.insert(key) {
                    self.conformance.push((c.src.clone(), o.clone()));
                }
            }
            if let Verdict::Violation { clause, detail } = v {
                self.report(&c, Some(&r), &o, &clause, detail);
            }
            judged.push(Judged { case: c, r, o });
        }
        Ok(judged)
    }

    /// Execute every case through the plain CLI (script stored under `case.cli_path`,
    /// default `case.sd`), in parallel; the oracle sees the raw CLI outcome.
    pub fn judge_cli<F>(&mut self, cases: Vec<Case>, oracle: F) -> Result<Vec<(Case, RefOutcome, subject::CliOutcome)>, MachineryError>
    where
        F: Fn(&Case, &RefOutcome, &subject::CliOutcome) -> Verdict + Sync,
    {
        self.transitions += cases.len() as u64;
        let bin = self.bin.clone();
        let results: Vec<Result<(RefOutcome, subject::CliOutcome, Verdict), MachineryError>> = cases
            .par_iter()
            .map(|c| {
                let r = if c.no_ref {
                    RefOutcome { stdout: vec![], result: RefResult::Ok, cyclic_touch: false, steps: 0 }
                } else {
                    eval::run(&c.src, REF_BUDGET)
                };
                let path = c.cli_path.clone().unwrap_or_else(|| "case.sd".to_string());
                let o = subject::run_cli_at(&bin, c.src.as_bytes(), &path)?;
                let v = oracle(c, &r, &o);
                Ok((r, o, v))
            })
            .collect();
        let mut out = Vec::with_capacity(cases.len());
        for (c, res) in cases.into_iter().zip(results.into_iter()) {
            let (r, o, v) = res?;
            self.evaluations += 1;
            self.cli_confirmations += 1;
            let new_state = self.states.insert(h64(&(&c.src, &c.cli_path, c.tag)));
            if c.nontrivial && new_state {
                self.distinct_nontrivial += 1;
                self.ref_shapes.insert(h64(&(ref_class(&r), shape_bytes(&r.stdout))));
            }
            self.outcomes.insert(h64(&(o.code, o.signal, shape_bytes(&o.stderr), shape_bytes(&o.stdout))));
            if self.samples.len() < 3 && (self.evaluations == 1 || self.evaluations % 977 == 0) {
                self.samples.push(json!({"case": c.src, "how": c.meta, "outcome": format!("exit {:?}", o.code)}));
            }
            if let Verdict::Violation { clause, detail } = v {
                let bo = Outcome { class: o.class(), stdout: o.stdout.clone(), msg: o.stderr_str() };
                self.report(&c, Some(&r), &bo, &clause, detail);
            } else if o.class() != Class::Ok && o.class() != Class::Err {
                let bo = Outcome { class: o.class(), stdout: o.stdout.clone(), msg: o.stderr_str() };
                self.report(&c, Some(&r), &bo, "crash", format!("exit {:?} signal {:?}", o.code, o.signal));
            }
            out.push((c, r, o));
        }
        Ok(out)
    }

    /// Conformance pass: batch answers must equal the unmodified CLI path.
    pub fn conformance_pass(&mut self) -> Result<(), MachineryError> {
        let reps = std::mem::take(&mut self.conformance);
        let bin = self.bin.clone();
        let results: Vec<Result<Option<String>, MachineryError>> = reps
            .par_iter()
            .map(|(src, o)| {
                let c = subject::run_cli_simple(&bin, src.as_bytes())?;
                Ok(compare_batch_cli(o, &c))
            })
            .collect();
        let mut n = 0;
        for (r, (src, o)) in results.into_iter().zip(reps.iter()) {
            n += 1;
            if let Some(diff) = r? {
                // is the hook unfaithful, or does the interpreter carry state from one
                // script to the next?  A fresh worker that runs only this script answers.
                let fresh = self.pool.run(&[Req { mode: Mode::Run, label: "case.sd", src }])?;
                let c = subject::run_cli_simple(&self.bin, src.as_bytes())?;
                if compare_batch_cli(&fresh[0], &c).is_none() {
                    let case = Case::new(src.clone(), 9999, "conformance representative".to_string());
                    self.report(
                        &case,
                        None,
                        o,
                        "state-carried-between-scripts",
                        format!("evaluated after other scripts in one process the interpreter answers {:?} {:?} {:?}; evaluated alone (fresh process, and the plain CLI) it answers {:?} {:?} {:?}: hidden process-global state changes what a program does ({})", o.class, o.out_str(), o.msg, fresh[0].class, fresh[0].out_str(), fresh[0].msg, diff),
                    );
                    continue;
                }
                return Err(MachineryError(format!(
                    "conformance pass: batch and CLI disagree on {:?}: {}",
                    src, diff
                )));
            }
        }
        self.cli_confirmations += n;
        Ok(())
    }
}

pub fn compare_batch_cli(o: &Outcome, c: &subject::CliOutcome) -> Option<String> {
    let cc = c.class();
    match (&o.class, &cc) {
        (Class::Ok, Class::Ok) => {
            if !c.stderr.is_empty() {
                return Some(format!("CLI stderr not empty: {}", c.stderr_str()));
            }
        }
        (Class::Err, Class::Err) => {
            let exp = format!("case.sd:{}\n", o.msg);
            if c.stderr_str() != exp {
                return Some(format!("stderr differs: batch {:?} cli {:?}", exp, c.stderr_str()));
            }
        }
        (Class::Panic, Class::Panic) => {}
        (Class::Crash(_), Class::Crash(_)) => {}
        (Class::Hang, Class::Hang) => {}
        (a, b) => return Some(format!("class differs: batch {:?} cli {:?}", a, b)),
    }
    if o.stdout != c.stdout && !o.crashed() {
        return Some(format!(
            "stdout differs: batch {:?} cli {:?}",
            o.out_str(),
            String::from_utf8_lossy(&c.stdout)
        ));
    }
    None
}

pub fn ref_class(r: &RefOutcome) -> String {
    match &r.result {
        RefResult::Ok => "ok".to_string(),
        RefResult::Front(f) => format!("front:{}", shape(&format!("{:?}", f))),
        RefResult::Err(e) => format!("err:{}", shape(&format!("{:?}", e.kind))),
    }
}

pub fn ref_summary(r: &RefOutcome) -> String {
    let res = match &r.result {
        RefResult::Ok => "ok".to_string(),
        RefResult::Front(f) => format!("{:?}", f),
        RefResult::Err(e) => format!("{:?} at {:?} exact={} func={:?} stack={:?}", e.kind, e.pos, e.exact, e.func, e.stack),
    };
    format!("stdout={:?} result={}", String::from_utf8_lossy(&r.stdout), res)
}

/// abstract digits and quoted text so that outcomes group into shapes
pub fn shape(s: &str) -> String {
    let mut out = String::with_capacity(s.len());
    let mut in_q = false;
    let mut last_digit = false;
    let cs: Vec<char> = s.chars().collect();
    for (i, &c) in cs.iter().enumerate() {
        // an apostrophe inside a word (can't) is not a quote
        let in_word = c == '\''
            && i > 0
            && i + 1 < cs.len()
            && cs[i - 1].is_ascii_alphabetic()
            && cs[i + 1].is_ascii_alphabetic()
            && !in_q;
        if in_word {
            out.push(c);
            continue;
        }
        if c == '\'' || c == '"' {
            in_q = !in_q;
            out.push(c);
            last_digit = false;
            continue;
        }
        if in_q {
            continue;
        }
        if c.is_ascii_digit() {
            if !last_digit {
                out.push('#');
            }
            last_digit = true;
        } else {
            out.push(c);
            last_digit = false;
        }
    }
    out
}

pub fn shape_bytes(b: &[u8]) -> String {
    shape(&String::from_utf8_lossy(b))
}

// ----- known findings -----

pub fn load_known(path: &str) -> Result<Vec<KnownFinding>, MachineryError> {
    let text = match std::fs::read_to_string(path) {
        Ok(t) => t,
        Err(_) => return Ok(vec![]),
    };
    let v: Value = serde_json::from_str(&text)
        .map_err(|e| MachineryError(format!("known_findings.json: {}", e)))?;
    let mut out = vec![];
    if let Some(arr) = v.get("findings").and_then(|f| f.as_array()) {
        for f in arr {
            let strs = |k: &str| -> Vec<String> {
                f.get("match")
                    .and_then(|m| m.get(k))
                    .and_then(|x| x.as_array())
                    .map(|a| a.iter().filter_map(|s| s.as_str().map(|s| s.to_string())).collect())
                    .unwrap_or_default()
            };
            out.push(KnownFinding {
                property: f.get("property").and_then(|x| x.as_str()).unwrap_or("").to_string(),
                clause: f.get("clause").and_then(|x| x.as_str()).unwrap_or("").to_string(),
                src_contains: strs("src_contains"),
                msg_contains: strs("msg_contains"),
                what: f.get("what").and_then(|x| x.as_str()).unwrap_or("").to_string(),
            });
        }
    }
    Ok(out)
}

pub fn match_known<'a>(known: &'a [KnownFinding], id: &str, v: &ViolationRec) -> Option<&'a KnownFinding> {
    known.iter().find(|k| {
        k.property == id
            && k.clause == v.clause
            && (!k.src_contains.is_empty() || !k.msg_contains.is_empty())
            && k.src_contains.iter().all(|s| v.case.src.contains(s.as_str()))
            && k.msg_contains.iter().all(|s| v.subject_msg.contains(s.as_str()))
    })
}
