//! Corpus of programs and layout rewrites shared by C09 (layout never changes
//! meaning) and C18 (positions are true).  Every rewrite is one edit of the
//! text at a token boundary found by the reference lexer; the k-th deviation
//! bound is the number of simultaneous edits.
use crate::refm::lex::{lex_raw, Pos, Tok, Token, CONTINUATION};
use crate::repo_tests;

#[derive(Clone, Debug, PartialEq)]
pub enum EditKind {
    /// must not change tokens (kinds and values) nor behaviour
    Neutral,
    /// a line break after a token that does not continue the statement: must behave
    /// exactly like `;` at the same place (`alt` is the `;` variant)
    BreakVsSemicolon { alt: String },
}

#[derive(Clone, Debug)]
pub struct Edit {
    pub text: String,
    pub desc: String,
    pub kind: EditKind,
    /// byte offset in the original where the edit applies, original bytes removed, bytes added
    pub at: usize,
    pub removed: usize,
    pub added: usize,
}

impl Edit {
    /// byte offset in the edited text of original offset `off` (None when inside the
    /// removed region)
    pub fn map_off(&self, off: usize) -> Option<usize> {
        if off < self.at {
            Some(off)
        } else if off >= self.at + self.removed {
            Some(off - self.removed + self.added)
        } else {
            None
        }
    }
}

pub fn pos_to_off(src: &str, pos: Pos) -> Option<usize> {
    if pos.1 == 0 {
        return None;
    }
    let mut line = 1u32;
    let mut col = 1u32;
    for (i, c) in src.char_indices() {
        if (line, col) == pos {
            return Some(i);
        }
        if c == '\n' {
            line += 1;
            col = 1;
        } else {
            col += 1;
        }
    }
    if (line, col) == pos {
        return Some(src.len());
    }
    None
}

pub fn off_to_pos(src: &str, off: usize) -> Pos {
    let mut line = 1u32;
    let mut col = 1u32;
    for (i, c) in src.char_indices() {
        if i >= off {
            break;
        }
        if c == '\n' {
            line += 1;
            col = 1;
        } else {
            col += 1;
        }
    }
    (line, col)
}

fn splice(src: &str, at: usize, removed: usize, ins: &str) -> String {
    let mut s = String::with_capacity(src.len() + ins.len());
    s.push_str(&src[..at]);
    s.push_str(ins);
    s.push_str(&src[at + removed..]);
    s
}

fn is_cont(t: &Token) -> bool {
    matches!(&t.tok, Tok::Sym(s) if CONTINUATION.contains(s))
}

fn same_tokens(toks: &[Token], cand: &str) -> bool {
    let (t2, e2) = lex_raw(cand);
    e2.is_none() && t2.len() == toks.len() && t2.iter().zip(toks.iter()).all(|(a, b)| tok_eq(&a.tok, &b.tok))
}

/// equal kinds and values (where a slot sits in the file is not part of the value)
fn tok_eq(a: &Tok, b: &Tok) -> bool {
    use crate::refm::lex::Piece;
    match (a, b) {
        (Tok::Interp(x), Tok::Interp(y)) => {
            x.len() == y.len()
                && x.iter().zip(y.iter()).all(|(p, q)| match (p, q) {
                    (Piece::Slot { src: s1, .. }, Piece::Slot { src: s2, .. }) => s1 == s2,
                    (Piece::Lit(l1), Piece::Lit(l2)) => l1 == l2,
                    _ => false,
                })
        }
        _ => a == b,
    }
}

/// `src` with every space / tab separator removed that the tokens on either side do not need
/// (None when the text does not lex or nothing can be removed)
pub fn dense(src: &str) -> Option<String> {
    let (toks, err) = lex_raw(src);
    if err.is_some() {
        return None;
    }
    let mut cur = src.to_string();
    let mut changed = false;
    // right to left, so that the offsets of the tokens before a removal stay valid
    for i in (0..toks.len().saturating_sub(1)).rev() {
        let (a, b) = (toks[i].end, toks[i + 1].start);
        let gap = &src[a..b];
        if gap.is_empty() || !gap.chars().all(|c| c == ' ' || c == '\t') {
            continue;
        }
        let cand = splice(&cur, a, gap.len(), "");
        if same_tokens(&toks, &cand) {
            cur = cand;
            changed = true;
        }
    }
    if changed {
        Some(cur)
    } else {
        None
    }
}

/// All single layout edits of `src` (empty when the text does not lex).
pub fn edits(src: &str) -> Vec<Edit> {
    let (toks, err) = lex_raw(src);
    let mut out = vec![];
    let mk = |text: String, desc: String, kind: EditKind, at: usize, removed: usize, added: usize| Edit { text, desc, kind, at, removed, added };
    // a text with a lexical error is edited up to the error; a too-large integer literal is
    // itself respelled (separators added / removed must not change the verdict)
    if let Some(e) = &err {
        if e.kind == crate::refm::lex::LexErrKind::IntTooLarge {
            if let Some(off) = pos_to_off(src, e.pos) {
                let len = src[off..].chars().take_while(|c| c.is_ascii_digit() || *c == '_').count();
                let text = &src[off..off + len];
                if text.contains('_') {
                    let stripped: String = text.chars().filter(|c| *c != '_').collect();
                    out.push(mk(splice(src, off, len, &stripped), "too-large integer literal written without separators".to_string(), EditKind::Neutral, off, len, stripped.len()));
                }
                for k in 1..=len {
                    out.push(mk(splice(src, off + k, 0, "_"), format!("`_` after digit {} of the too-large integer literal", k), EditKind::Neutral, off + k, 0, 1));
                }
            }
        }
    }
    for (i, t) in toks.iter().enumerate() {
        let next = toks.get(i + 1);
        let gap_end = next.map(|n| n.start).unwrap_or(src.len());
        let gap = &src[t.end..gap_end];
        let is_end = t.tok == Tok::End;
        let is_nl_end = is_end && &src[t.start..t.end] == "\n";
        // a. whitespace after the token
        for (ws, name) in [(" ", "space"), ("\t", "tab"), ("\r", "carriage return")] {
            out.push(mk(splice(src, t.end, 0, ws), format!("{} after token {}", name, i), EditKind::Neutral, t.end, 0, ws.len()));
        }
        // a'. a single-space separator written as a tab / carriage return / two spaces
        if gap == " " {
            for (ws, name) in [("\t", "tab"), ("\r", "carriage return"), ("  ", "two spaces"), ("\r ", "CR space")] {
                out.push(mk(splice(src, t.end, 1, ws), format!("the space after token {} written as {}", i, name), EditKind::Neutral, t.end, 1, ws.len()));
            }
        }
        // a''. the separator removed where the two tokens stay apart without it
        if next.is_some() && !gap.is_empty() && gap.chars().all(|c| c == ' ' || c == '\t') && err.is_none() {
            let cand = splice(src, t.end, gap.len(), "");
            if same_tokens(&toks, &cand) {
                out.push(mk(cand, format!("the separator after token {} removed", i), EditKind::Neutral, t.end, gap.len(), 0));
            }
        }
        // b. comment
        if let Some(n) = next {
            let n_is_nl = n.tok == Tok::End && &src[n.start..n.end] == "\n";
            if n_is_nl && !gap.contains('#') {
                for c in [" # c é€😀 x := 1", "#\" ${ ; # \\", " # a\r b := 2 )"] {
                    out.push(mk(splice(src, t.end, 0, c), format!("comment {:?} before the newline after token {}", c, i), EditKind::Neutral, t.end, 0, c.len()));
                }
            }
        }
        if (is_cont(t) || is_end) && !gap.contains('#') {
            for c in ["# é c\n", "# \\\n", "# a\r print(0)\n"] {
                out.push(mk(splice(src, t.end, 0, c), format!("comment line {:?} after token {}", c, i), EditKind::Neutral, t.end, 0, c.len()));
            }
            // c. blank line
            out.push(mk(splice(src, t.end, 0, "\n"), format!("blank line after token {}", i), EditKind::Neutral, t.end, 0, 1));
            out.push(mk(splice(src, t.end, 0, "\n\t\n  \n"), format!("blank lines after token {}", i), EditKind::Neutral, t.end, 0, 6));
        }
        // d. terminator choice, e. doubled terminator
        if is_end {
            let before_gap = if i > 0 { &src[toks[i - 1].end..t.start] } else { &src[..t.start] };
            if is_nl_end {
                if !before_gap.contains('#') {
                    out.push(mk(splice(src, t.start, 1, ";"), format!("newline {} written as `;`", i), EditKind::Neutral, t.start, 1, 1));
                    out.push(mk(splice(src, t.start, 1, "; "), format!("newline {} written as `; `", i), EditKind::Neutral, t.start, 1, 2));
                    out.push(mk(splice(src, t.start, 0, ";"), format!("`;` before newline {}", i), EditKind::Neutral, t.start, 0, 1));
                }
                out.push(mk(splice(src, t.end, 0, ";"), format!("`;` after newline {}", i), EditKind::Neutral, t.end, 0, 1));
            } else {
                out.push(mk(splice(src, t.start, 1, "\n"), format!("`;` {} written as newline", i), EditKind::Neutral, t.start, 1, 1));
                out.push(mk(splice(src, t.end, 0, ";"), format!("`;` {} doubled", i), EditKind::Neutral, t.end, 0, 1));
            }
        }
        // f. line break after a continuation token
        if is_cont(t) && !gap.contains('#') {
            out.push(mk(splice(src, t.end, 0, "\n"), format!("line break after continuation token {} ({:?})", i, t.tok), EditKind::Neutral, t.end, 0, 1));
            out.push(mk(splice(src, t.end, 0, "\r\n    "), format!("CR LF + indentation after continuation token {} ({:?})", i, t.tok), EditKind::Neutral, t.end, 0, 6));
        }
        // g. line break after any other token behaves like `;`
        if !is_cont(t) && !is_end && !gap.contains('#') {
            let alt = splice(src, t.end, 0, ";");
            out.push(mk(splice(src, t.end, 0, "\n"), format!("line break after token {} ({:?})", i, t.tok), EditKind::BreakVsSemicolon { alt }, t.end, 0, 1));
        }
        // h. `_` in integer literals
        if let Tok::Int(_) = t.tok {
            let text = &src[t.start..t.end];
            for k in 1..=text.len() {
                out.push(mk(splice(src, t.start + k, 0, "_"), format!("`_` after digit {} of integer token {}", k, i), EditKind::Neutral, t.start + k, 0, 1));
            }
        }
        if let Tok::Int(_) = t.tok {
            let text = &src[t.start..t.end];
            if text.contains('_') {
                let stripped: String = text.chars().filter(|c| *c != '_').collect();
                out.push(mk(splice(src, t.start, text.len(), &stripped), format!("integer token {} written without separators", i), EditKind::Neutral, t.start, text.len(), stripped.len()));
            }
        }
        // i. an ASCII character of a plain string literal written as \xHH
        if let Tok::Str(_) = t.tok {
            let text = &src[t.start..t.end];
            let bytes = text.as_bytes();
            let mut k = 1; // after the opening quote
            while k + 1 < bytes.len() {
                let b = bytes[k];
                if b == b'\\' {
                    // skip the escape sequence
                    k += if bytes.get(k + 1) == Some(&b'x') { 4 } else { 2 };
                    continue;
                }
                if b.is_ascii() && b != b'"' && b != b'$' {
                    let esc = format!("\\x{:02x}", b);
                    out.push(mk(splice(src, t.start + k, 1, &esc), format!("character {} of string token {} written as {}", k, i, esc), EditKind::Neutral, t.start + k, 1, 4));
                    if b.is_ascii_alphabetic() {
                        let esc2 = format!("\\x{:02X}", b);
                        if esc2 != esc {
                            out.push(mk(splice(src, t.start + k, 1, &esc2), format!("character {} of string token {} written as {}", k, i, esc2), EditKind::Neutral, t.start + k, 1, 4));
                        }
                    }
                }
                k += 1;
            }
        }
    }
    // leading layout
    for (pre, name) in [("\n", "newline"), ("\n\n", "blank lines"), (";", "semicolon"), (" ", "space"), ("# c\n", "comment"), ("\t\r\n", "tab CR LF")] {
        out.push(mk(splice(src, 0, 0, pre), format!("{} at the start of the file", name), EditKind::Neutral, 0, 0, pre.len()));
    }
    out
}

/// Layout edits inside the slots of interpolated strings (a slot holds an expression, so spaces,
/// tabs and a leading line break or terminator there are layout): (variant text, description).
pub fn slot_edits(src: &str) -> Vec<(String, String, usize, usize)> {
    use crate::refm::lex::Piece;
    let (toks, err) = lex_raw(src);
    let mut out = vec![];
    if err.is_some() {
        return out;
    }
    for (i, t) in toks.iter().enumerate() {
        if let Tok::Interp(ps) = &t.tok {
            for (si, p) in ps.iter().enumerate() {
                if let Piece::Slot { src: stext, pos } = p {
                    let off = match pos_to_off(src, *pos) {
                        Some(o) => o,
                        None => continue,
                    };
                    if !src[off..].starts_with("${") || !src[off + 2..].starts_with(stext.as_str()) {
                        continue;
                    }
                    let open = off + 2;
                    let close = open + stext.len();
                    for (ins, name) in [(" ", "space"), ("\t", "tab"), ("\n", "line break"), (";", "terminator"), ("  \n ", "spaces and a line break"), ("# c\n", "comment, then a line break")] {
                        out.push((splice(src, open, 0, ins), format!("{} at the start of slot {} of string token {}", name, si, i), open, ins.len()));
                    }
                    for (ins, name) in [(" ", "space"), ("\t", "tab")] {
                        out.push((splice(src, close, 0, ins), format!("{} at the end of slot {} of string token {}", name, si, i), close, ins.len()));
                    }
                    // between the tokens of the slot expression: a space after every token; after a
                    // continuation token also a line break, and a comment (holding a quote) with a line break
                    let (stoks, serr) = lex_raw(stext);
                    if serr.is_none() {
                        // all line breaks that end a statement inside the slot written as `;` at once
                        let ends: Vec<&Token> = stoks.iter().filter(|t| t.tok == Tok::End && &stext[t.start..t.end] == "\n").collect();
                        if ends.len() > 1 {
                            let mut v = src.to_string();
                            for t in ends.iter().rev() {
                                v.replace_range(open + t.start..open + t.end, ";");
                            }
                            out.push((v, format!("every statement-ending line break inside slot {} of string token {} written as `;`", si, i), open, 0));
                        }
                        for (ti, st) in stoks.iter().enumerate() {
                            if st.tok == Tok::End {
                                // a terminator inside the slot written the other way
                                let text = &stext[st.start..st.end];
                                if text == "\n" {
                                    out.push((splice(src, open + st.start, 1, ";"), format!("newline {} inside slot {} of string token {} written as `;`", ti, si, i), open + st.start, 0));
                                } else if text == ";" {
                                    out.push((splice(src, open + st.start, 1, "\n"), format!("`;` {} inside slot {} of string token {} written as a newline", ti, si, i), open + st.start, 0));
                                }
                                continue;
                            }
                            out.push((splice(src, open + st.end, 0, " "), format!("space after token {} inside slot {} of string token {}", ti, si, i), open + st.end, 1));
                            if is_cont(st) && !matches!(&st.tok, Tok::Sym(x) if *x == "{") {
                                out.push((splice(src, open + st.end, 0, "\n  "), format!("line break after continuation token {} inside slot {} of string token {}", ti, si, i), open + st.end, 3));
                                out.push((splice(src, open + st.end, 0, " # the \"q\n"), format!("comment holding a quote after continuation token {} inside slot {} of string token {}", ti, si, i), open + st.end, 10));
                            }
                        }
                    }
                }
            }
        }
    }
    out
}

/// Generated programs: every construct context of C01 around a few payloads, chosen so
/// that every token kind occurs next to every token kind the grammar permits.
pub fn generated_corpus() -> Vec<(String, String)> {
    use crate::checks::c01::{CONTEXTS, PAYLOADS};
    let mut out = vec![];
    for (pi, p) in PAYLOADS.iter().enumerate() {
        let (cn, ctx) = CONTEXTS[pi % CONTEXTS.len()];
        out.push((format!("payload {} in context {:?}", pi, cn), format!("{}print(\"end\")\n", ctx.replace('@', p))));
    }
    for (ci, (cn, ctx)) in CONTEXTS.iter().enumerate() {
        let p = PAYLOADS[(ci * 7 + 3) % PAYLOADS.len()];
        out.push((format!("context {:?} with payload", cn), format!("{}print(\"end\")\n", ctx.replace('@', p))));
    }
    let extra: &[&str] = &[
        "x := 1_000 + 2 * (3 - 4) / 5 % 6\nprint(x)\nprint(x == 1 || x != 2 && x < 3)\nprint(x <= 4)\nprint(x > 5)\nprint(x >= 6)\n",
        "a := [1, 2, 3]\nb := a[1:]\nc := a[:2]\nd := a[:]\nprint([a[0], b, c, d, a[0:1]])\nprint(a === a)\nprint(a !== b)\n",
        "o := {\"k\": 1, \"l\": [2]}\no.k += 1\no[\"l\"] += [3]\no.k -= 1\no.k *= 2\no.k /= 2\no.k %= 2\nprint(o)\nprint(o.l[0] .. 4)\n",
        "fn f(a, ..r) {\nreturn [a, r]\n}\nprint(f(1, [2, 3]..))\nprint(f->type())\nprint(\"s\"->len())\n",
        "s := \"plain text\"\nt := $\"i ${s} j ${s + \"!\"}\"\nprint(t)\nprint(\"tab\\x09here\")\n",
        "if 1 < 2 {\nprint(\"a\")\n} else if 2 < 1 {\nprint(\"b\")\n} else {\nprint(\"c\")\n}\n",
        "i := 0\nwhile i < 3 {\ni += 1\nif i == 2 {\ncontinue\n}\nprint(i)\n}\nfor [k, v] in {\"a\": 1} {\nprint(k)\nbreak\n}\n",
        "[p, [q, ..r]] := [1, [2, 3]]\n{\"a\": s, t} := {\"a\": 1, \"t\": 2}\nprint([p, q, r, s, t])\nprint(null)\nprint(true)\nprint(false)\n",
        "print(-5 - -3)\nprint(2 - 1)\nx := [-1, - 2]\nprint(x)\n",
        "print(y)\n",
        "x := 1 + \"a\"\n",
        "fn g() {\nreturn 1 / 0\n}\nprint(\"pre\")\ng()\n",
        "x := 1\nx := 2\n",
        "x := -9223372036854775807\nprint(x)\nprint(x - 1)\nprint(-9_223_372_036_854_775_807 - 1)\n",
        "x := -9223372036854775808\nprint(x)\n",
        "print(1 - 9223372036854775808)\n",
        "y := 5\nprint(y -9223372036854775808)\n",
        "a := \"A\"\nb := \"B\"\nprint($\"${$\"<${a}>\"} ${$\"<${b}>\"}\")\nprint($\"${a}${b}${a + b}\")\n",
        "x := \"v\"\nprint($\"<${fn () {\ny := x\nreturn y\n}()}>\")\nprint($\"${[\nx,\nx][1]}|${{\"k\": x,\n\"l\": x}.l}\")\nprint($\"${fn (p) {\nif p == x {\nreturn \"same\"\n}\nreturn \"other\"\n}(x)}\")\n",
        "a:=1;b:=-2;print(a!=-1);print(a==-b);print(a<-b);print(a>=-2);print(a-b);print(a--2);print([a,b][0]);print(a*-2);print(a!=b&&a<b||a>b)\nxs:=[1,2,3];print(xs[1:]);print(xs[:-b]);o:={\"k\":a};print(o.k+b);print(-2..a)\n",
        "fn w(s) {\nreturn $\"[${s}]\"\n}\nx := \"X\"\nprint($\"${w(x)}${w($\"${x}${x}\")}\")\nprint($\"${undefined_in_slot}\")\n",
    ];
    for (i, e) in extra.iter().enumerate() {
        out.push((format!("hand-written adjacency program {}", i), e.to_string()));
    }
    out
}

pub fn corpus() -> Vec<(String, String)> {
    let mut out: Vec<(String, String)> = repo_tests::load(&format!("{}/tests/stdout", crate::subject::repo()))
        .into_iter()
        .map(|t| (format!("repo test {}::{}", t.file, t.name), t.src))
        .collect();
    out.extend(generated_corpus());
    out
}
