//! E1 — breadth-first exploration of operation histories.  A state is the
//! history of operations applied so far (a well-nested partial program); the
//! transition function appends one enabled operation, prints the program
//! (closing open constructs), runs the reference model and the real
//! interpreter and evaluates the oracle.  States are deduplicated by a
//! canonical key; dead states (the program already failed before execution
//! first reached the cursor, so nothing appended can ever run) are not
//! expanded.
use crate::engine::*;
use crate::refm::eval::RefOutcome;
use crate::subject::{MachineryError, Outcome};
use rayon::prelude::*;
use std::collections::HashSet;

pub const CURSOR_MARK: &str = "#@";

pub trait Alphabet: Sync {
    type St: Clone + Send + Sync;
    fn init(&self) -> Self::St;
    /// enabled operations at the cursor (operation codes), simplest first
    fn enabled(&self, st: &Self::St) -> Vec<u16>;
    fn apply(&self, st: &Self::St, op: u16) -> Self::St;
    /// full program: history + `print("#@")` at the cursor + closing / observing suffix
    fn program(&self, st: &Self::St) -> String;
    fn describe(&self, st: &Self::St) -> String;
    fn nontrivial(&self, _st: &Self::St) -> bool {
        true
    }
    /// canonical key; states with equal keys have the same futures.  Default: the program
    /// text (distinct histories are distinct states).
    fn key(&self, _st: &Self::St, prog: &str, _r: &RefOutcome, _o: &Outcome) -> u64 {
        h64(&prog)
    }
}

pub struct BfsStats {
    pub levels: Vec<(usize, usize, usize)>, // (depth, generated, kept)
    pub dead: u64,
    pub merged: u64,
    pub completed_depth: usize,
}

/// Explore all histories up to `max_depth` operations.
pub fn bfs<A, F, G>(
    ctx: &mut Ctx,
    alpha: &A,
    max_depth: usize,
    oracle: F,
    mut on_level: G,
) -> Result<BfsStats, MachineryError>
where
    A: Alphabet,
    F: Fn(&Case, &RefOutcome, &Outcome) -> Verdict + Sync,
    G: FnMut(&mut Ctx, &[(A::St, Judged)]),
{
    let mut frontier: Vec<A::St> = vec![alpha.init()];
    let mut seen: HashSet<u64> = HashSet::new();
    let mut stats = BfsStats { levels: vec![], dead: 0, merged: 0, completed_depth: 0 };
    for depth in 1..=max_depth {
        let mut next: Vec<A::St> = vec![];
        let mut generated = 0usize;
        // expand the frontier in slices to bound memory
        for slice in frontier.chunks(4000) {
            let succ: Vec<(A::St, Case)> = slice
                .par_iter()
                .flat_map_iter(|st| {
                    alpha.enabled(st).into_iter().map(move |op| {
                        let ns = alpha.apply(st, op);
                        let prog = alpha.program(&ns);
                        let mut c = Case::new(prog, depth as u32, alpha.describe(&ns));
                        c.nontrivial = alpha.nontrivial(&ns);
                        (ns, c)
                    })
                })
                .collect();
            generated += succ.len();
            let (sts, cases): (Vec<A::St>, Vec<Case>) = succ.into_iter().unzip();
            let srcs: Vec<u64> = cases.iter().map(|c| h64(&c.src)).collect();
            let judged = ctx.judge(cases, |c, r, o| oracle(c, r, o))?;
            // judge drops cases whose reference run exceeds the step budget: re-align by source
            let mut ji = 0;
            let mut pairs: Vec<(A::St, Judged)> = Vec::with_capacity(judged.len());
            let mut jit = judged.into_iter().peekable();
            for (st, hsrc) in sts.into_iter().zip(srcs.into_iter()) {
                match jit.peek() {
                    Some(j) if h64(&j.case.src) == hsrc => {
                        pairs.push((st, jit.next().unwrap()));
                        ji += 1;
                    }
                    _ => {
                        // excluded (non-terminating in the reference model): not expanded
                    }
                }
            }
            let _ = ji;
            on_level(ctx, &pairs);
            for (st, j) in pairs {
                // dead: failed before execution first reached the cursor
                let reached = String::from_utf8_lossy(&j.r.stdout).contains(CURSOR_MARK);
                if !j.r.is_ok() && !reached {
                    stats.dead += 1;
                    continue;
                }
                // the remaining budget is part of the key: a state first reached by a longer
                // history must not cut the successors of a shorter one (levels are
                // synchronous here, so equal keys at one level have equal budgets)
                let k = h64(&(alpha.key(&st, &j.case.src, &j.r, &j.o), depth));
                if seen.insert(k) {
                    next.push(st);
                } else {
                    stats.merged += 1;
                }
            }
            if ctx.over_cap() {
                break;
            }
        }
        stats.levels.push((depth, generated, next.len()));
        if ctx.capped {
            break;
        }
        stats.completed_depth = depth;
        frontier = next;
        if frontier.is_empty() {
            break;
        }
    }
    Ok(stats)
}
