//! Subject adaptor: builds /repo with the hook enabled, runs scripts through
//! batch workers (`seed --verif-batch`) and through the plain CLI.
use std::io::{BufRead, BufReader, Read, Write};
use std::path::{Path, PathBuf};
use std::process::{Child, Command, Stdio};
use std::sync::atomic::{AtomicBool, AtomicU64, Ordering};
use std::sync::Arc;
use std::time::{Duration, Instant};

/// the repository under verification; SEED_VERIF_REPO overrides it (used only by the
/// seeded-change matrix tool, which works on a scratch copy)
pub fn repo() -> String {
    std::env::var("SEED_VERIF_REPO").unwrap_or_else(|_| "/repo".to_string())
}

pub fn subject_target() -> String {
    std::env::var("SEED_VERIF_SUBJECT_TARGET").unwrap_or_else(|_| format!("{}/subject", BUILD_DIR))
}
pub const BUILD_DIR: &str = "/verif/.build";

#[derive(Clone, Debug, PartialEq, Eq, Hash)]
pub enum Class {
    Ok,
    Err,
    Panic,
    /// process died: signal number (negative) or exit code
    Crash(i32),
    Hang,
    /// not executed: the run was abandoned after too many hangs
    Skipped,
}

#[derive(Clone, Debug)]
pub struct Outcome {
    pub class: Class,
    pub stdout: Vec<u8>,
    /// for `Err`: the text after `<path>:`; for `Panic`: location + message
    pub msg: String,
}

impl Outcome {
    pub fn crashed(&self) -> bool {
        matches!(self.class, Class::Panic | Class::Crash(_) | Class::Hang)
    }
    pub fn out_str(&self) -> String {
        String::from_utf8_lossy(&self.stdout).to_string()
    }
}

#[derive(Clone, Copy, Debug, PartialEq)]
pub enum Mode {
    Run,
    Tokens,
    Ast,
}

impl Mode {
    fn s(self) -> &'static str {
        match self {
            Mode::Run => "run",
            Mode::Tokens => "tokens",
            Mode::Ast => "ast",
        }
    }
}

pub struct Req<'a> {
    pub mode: Mode,
    pub label: &'a str,
    pub src: &'a str,
}

/// Build the subject from /repo's working tree with the hook enabled.
pub fn build_subject() -> Result<PathBuf, String> {
    let target = subject_target();
    let t0 = Instant::now();
    // SEED_VERIF_COVERAGE=<dir>: alphabet-design aid only (tools/coverage.sh) -- the subject is built
    // with source-coverage instrumentation by the nightly toolchain and every run adds to <dir>
    let cov = std::env::var("SEED_VERIF_COVERAGE").ok();
    let mut args = vec!["build", "--release", "--offline"];
    if cov.is_some() {
        args.insert(0, "+nightly");
    }
    let out = Command::new("cargo")
        .args(&args)
        .current_dir(repo())
        .env("CARGO_NET_OFFLINE", "true")
        .env("RUSTFLAGS", if cov.is_some() { "--cfg seed_verif -C overflow-checks=on -C instrument-coverage" } else { "--cfg seed_verif -C overflow-checks=on" })
        .env("CARGO_TARGET_DIR", &target)
        .env("LLVM_PROFILE_FILE", "/dev/null")
        .output()
        .map_err(|e| format!("cannot run cargo: {}", e))?;
    if !out.status.success() {
        return Err(format!(
            "subject build failed:\n{}",
            String::from_utf8_lossy(&out.stderr)
                .lines()
                .filter(|l| !l.starts_with("warning") && !l.trim().is_empty())
                .take(60)
                .collect::<Vec<_>>()
                .join("\n")
        ));
    }
    let bin = PathBuf::from(format!("{}/release/seed", target));
    if !bin.exists() {
        return Err("subject binary missing after build".to_string());
    }
    eprintln!("[subject] built in {:.1}s", t0.elapsed().as_secs_f64());
    Ok(bin)
}

pub fn repo_commit() -> (String, bool) {
    let h = Command::new("git").args(["-C", &repo(), "rev-parse", "--short", "HEAD"]).output();
    let d = Command::new("git").args(["-C", &repo(), "status", "--porcelain"]).output();
    let hs = h.map(|o| String::from_utf8_lossy(&o.stdout).trim().to_string()).unwrap_or_default();
    let dirty = d.map(|o| !o.stdout.is_empty()).unwrap_or(false);
    (hs, dirty)
}

static NONCE_CTR: AtomicU64 = AtomicU64::new(0);
/// hangs seen so far in this process (later hangs get a shorter deadline)
pub static HANGS: AtomicU64 = AtomicU64::new(0);
/// after this many hangs in one run the remaining cases are skipped (the run is reported
/// as capped; the violations found so far stand)
pub const HANG_ABORT: u64 = 24;
/// cap on the output of one script (reference-terminating programs print far less)
pub const OUT_CAP: usize = 1 << 20;

fn nonce() -> String {
    let t = std::time::SystemTime::now()
        .duration_since(std::time::UNIX_EPOCH)
        .map(|d| d.as_nanos() as u64)
        .unwrap_or(0);
    let c = NONCE_CTR.fetch_add(1, Ordering::SeqCst);
    let x = t ^ ((std::process::id() as u64) << 32) ^ c.wrapping_mul(0x9E3779B97F4A7C15);
    format!("{:016x}", x.wrapping_mul(0xD6E8FEB86659FD93) ^ (x >> 29))
}

#[derive(Clone)]
pub struct Pool {
    pub bin: PathBuf,
    pub workers: usize,
    pub env: Vec<(String, String)>,
    /// per-script deadline
    pub deadline: Duration,
}

pub struct MachineryError(pub String);

impl Pool {
    pub fn new(bin: &Path) -> Pool {
        let n = std::thread::available_parallelism().map(|n| n.get()).unwrap_or(8);
        Pool {
            bin: bin.to_path_buf(),
            workers: n.min(16),
            env: default_env(),
            deadline: Duration::from_secs(8),
        }
    }

    /// Run all requests; the result has one outcome per request, in order.
    pub fn run(&self, reqs: &[Req]) -> Result<Vec<Outcome>, MachineryError> {
        if reqs.is_empty() {
            return Ok(vec![]);
        }
        let nw = if reqs.len() < 64 { 1 } else { self.workers.min(reqs.len() / 32).max(1) };
        let chunk = (reqs.len() + nw - 1) / nw;
        let mut results: Vec<Result<Vec<Outcome>, MachineryError>> = vec![];
        std::thread::scope(|s| {
            let hs: Vec<_> = reqs
                .chunks(chunk)
                .map(|c| s.spawn(move || self.run_chunk(c)))
                .collect();
            for h in hs {
                results.push(h.join().unwrap_or_else(|_| {
                    Err(MachineryError("worker thread panicked".to_string()))
                }));
            }
        });
        let mut out = Vec::with_capacity(reqs.len());
        for r in results {
            out.extend(r?);
        }
        Ok(out)
    }

    fn spawn_worker(&self, nonce: &str) -> Result<Child, MachineryError> {
        let mut cmd = Command::new("sh");
        cmd.arg("-c")
            .arg("ulimit -v 8000000; exec \"$0\" --verif-batch \"$1\"")
            .arg(&self.bin)
            .arg(nonce)
            .env_clear()
            .stdin(Stdio::piped())
            .stdout(Stdio::piped())
            .stderr(Stdio::null())
            .current_dir(BUILD_DIR);
        for (k, v) in &self.env {
            cmd.env(k, v);
        }
        cmd.spawn().map_err(|e| MachineryError(format!("cannot spawn worker: {}", e)))
    }

    fn run_chunk(&self, reqs: &[Req]) -> Result<Vec<Outcome>, MachineryError> {
        let mut out: Vec<Outcome> = Vec::with_capacity(reqs.len());
        let mut respawns = 0;
        while out.len() < reqs.len() {
            if HANGS.load(Ordering::SeqCst) >= HANG_ABORT {
                while out.len() < reqs.len() {
                    out.push(Outcome { class: Class::Skipped, stdout: vec![], msg: String::new() });
                }
                break;
            }
            let base = out.len();
            let nonce = nonce();
            let mut child = self.spawn_worker(&nonce)?;
            let pid = child.id();
            let mut stdin = child.stdin.take().unwrap();
            let stdout = child.stdout.take().unwrap();
            let progress = Arc::new(AtomicU64::new(now_ms()));
            let done = Arc::new(AtomicBool::new(false));
            let killed = Arc::new(AtomicBool::new(false));
            let deadline = self.deadline;
            let mut proto_err: Option<String> = None;
            std::thread::scope(|s| {
                // writer
                let todo = &reqs[base..];
                s.spawn(move || {
                    let mut buf: Vec<u8> = Vec::with_capacity(1 << 16);
                    for r in todo {
                        buf.extend_from_slice(
                            format!("{} {} {}\n", r.mode.s(), r.label.len(), r.src.len())
                                .as_bytes(),
                        );
                        buf.extend_from_slice(r.label.as_bytes());
                        buf.extend_from_slice(r.src.as_bytes());
                        if buf.len() > (1 << 15) {
                            if stdin.write_all(&buf).is_err() {
                                return;
                            }
                            buf.clear();
                        }
                    }
                    let _ = stdin.write_all(&buf);
                    drop(stdin);
                });
                // watchdog
                {
                    let progress = progress.clone();
                    let done = done.clone();
                    let killed = killed.clone();
                    s.spawn(move || {
                        while !done.load(Ordering::SeqCst) {
                            std::thread::sleep(Duration::from_millis(50));
                            let last = progress.load(Ordering::SeqCst);
                            let dl = if HANGS.load(Ordering::SeqCst) >= 4 {
                                (deadline.as_millis() as u64) / 8
                            } else {
                                deadline.as_millis() as u64
                            };
                            if now_ms().saturating_sub(last) > dl {
                                HANGS.fetch_add(1, Ordering::SeqCst);
                                killed.store(true, Ordering::SeqCst);
                                unsafe {
                                    libc::kill(pid as i32, libc::SIGKILL);
                                }
                                return;
                            }
                        }
                    });
                }
                // reader
                let mut rd = BufReader::with_capacity(1 << 16, stdout);
                let bmark = format!("\x01{} B ", nonce);
                let emark = format!("\x01{} E ", nonce);
                let mut n: u64 = 0;
                'req: while out.len() < reqs.len() {
                    let mut line: Vec<u8> = vec![];
                    let mut captured: Vec<u8> = vec![];
                    // begin marker
                    match rd.read_until(b'\n', &mut line) {
                        Ok(0) | Err(_) => break 'req,
                        Ok(_) => {}
                    }
                    let exp = format!("{}{}\n", bmark, n);
                    if line != exp.as_bytes() {
                        proto_err = Some(format!(
                            "bad begin marker for request {}: {:?}",
                            n,
                            String::from_utf8_lossy(&line)
                        ));
                        break 'req;
                    }
                    loop {
                        line.clear();
                        match rd.read_until(b'\n', &mut line) {
                            Ok(0) | Err(_) => {
                                // worker died mid-request: keep what was printed
                                out.push(Outcome {
                                    class: Class::Crash(0),
                                    stdout: captured,
                                    msg: String::new(),
                                });
                                break 'req;
                            }
                            Ok(_) => {}
                        }
                        // the end marker normally starts a line; after output that did not end its
                        // last line it follows that output directly
                        let at = line.windows(emark.len()).position(|w| w == emark.as_bytes());
                        if let Some(at) = at {
                            captured.extend_from_slice(&line[..at]);
                            let rest = String::from_utf8_lossy(&line[at + emark.len()..]).to_string();
                            let parts: Vec<&str> = rest.trim_end().split(' ').collect();
                            if parts.len() != 3 || parts[0] != n.to_string() {
                                proto_err = Some(format!("bad end marker: {:?}", rest));
                                break 'req;
                            }
                            let plen: usize = parts[2].parse().unwrap_or(usize::MAX);
                            if plen == usize::MAX {
                                proto_err = Some(format!("bad payload length: {:?}", rest));
                                break 'req;
                            }
                            let mut payload = vec![0u8; plen + 1];
                            if rd.read_exact(&mut payload).is_err() {
                                proto_err = Some("short payload".to_string());
                                break 'req;
                            }
                            payload.pop();
                            let class = match parts[1] {
                                "ok" => Class::Ok,
                                "err" => Class::Err,
                                "panic" => Class::Panic,
                                c => {
                                    proto_err = Some(format!("unknown class {}", c));
                                    break 'req;
                                }
                            };
                            out.push(Outcome {
                                class,
                                stdout: captured,
                                msg: String::from_utf8_lossy(&payload).to_string(),
                            });
                            n += 1;
                            progress.store(now_ms(), Ordering::SeqCst);
                            continue 'req;
                        }
                        captured.extend_from_slice(&line);
                        let cap = OUT_CAP.max(reqs.get(out.len()).map(|r| if r.mode == Mode::Run { 0 } else { 200 * r.src.len() }).unwrap_or(0));
                        if captured.len() > cap {
                            // runaway output: programs sent here terminate in the reference
                            // model with bounded output, so this is a non-terminating run
                            killed.store(true, Ordering::SeqCst);
                            unsafe {
                                libc::kill(pid as i32, libc::SIGKILL);
                            }
                            captured.truncate(4096);
                            out.push(Outcome {
                                class: Class::Crash(0),
                                stdout: captured,
                                msg: String::new(),
                            });
                            HANGS.fetch_add(1, Ordering::SeqCst);
                            break 'req;
                        }
                    }
                }
                done.store(true, Ordering::SeqCst);
                // make sure the writer is not blocked on a dead/unfinished child
                if out.len() < reqs.len() {
                    unsafe {
                        libc::kill(pid as i32, libc::SIGKILL);
                    }
                }
            });
            let status = child.wait().ok();
            if let Some(e) = proto_err {
                return Err(MachineryError(format!("worker protocol error: {}", e)));
            }
            let len_now = out.len();
            if let Some(last) = out.last_mut() {
                if last.class == Class::Crash(0) && len_now > base {
                    // classify the in-flight request
                    if killed.load(Ordering::SeqCst) {
                        last.class = Class::Hang;
                        last.stdout.truncate(4096);
                    } else {
                        use std::os::unix::process::ExitStatusExt;
                        let code = match status {
                            Some(st) => match st.signal() {
                                Some(sg) => -sg,
                                None => st.code().unwrap_or(-999),
                            },
                            None => -999,
                        };
                        last.class = Class::Crash(if code == 0 { -998 } else { code });
                    }
                }
            }
            if len_now == base && len_now < reqs.len() {
                // no progress at all: the worker never answered
                respawns += 1;
                if respawns > 3 {
                    return Err(MachineryError(
                        "worker exits without answering (is the hook built?)".to_string(),
                    ));
                }
            }
        }
        Ok(out)
    }
}

fn now_ms() -> u64 {
    static START: std::sync::OnceLock<Instant> = std::sync::OnceLock::new();
    START.get_or_init(Instant::now).elapsed().as_millis() as u64
}

pub fn default_env() -> Vec<(String, String)> {
    let mut v = vec![("PATH".to_string(), "/usr/bin:/bin".to_string())];
    let shim = format!("{}/getrandom_shim.so", BUILD_DIR);
    if Path::new(&shim).exists() {
        v.push(("LD_PRELOAD".to_string(), shim));
        v.push(("SEED_VERIF_HASHSEED".to_string(), "0".to_string()));
    }
    if let Ok(dir) = std::env::var("SEED_VERIF_COVERAGE") {
        v.push(("LLVM_PROFILE_FILE".to_string(), format!("{}/seed-%8m.profraw", dir)));
    }
    v
}

// ----- plain CLI -----

#[derive(Clone, Debug)]
pub struct CliOutcome {
    pub code: Option<i32>,
    pub signal: Option<i32>,
    pub timed_out: bool,
    pub stdout: Vec<u8>,
    pub stderr: Vec<u8>,
}

impl CliOutcome {
    pub fn stderr_str(&self) -> String {
        String::from_utf8_lossy(&self.stderr).to_string()
    }
    pub fn class(&self) -> Class {
        if self.timed_out {
            return Class::Hang;
        }
        match (self.code, self.signal) {
            (Some(0), _) => Class::Ok,
            (Some(103), _) => Class::Err,
            (Some(101), _) => Class::Panic,
            (Some(c), _) => Class::Crash(c),
            (None, Some(s)) => Class::Crash(-s),
            _ => Class::Crash(-999),
        }
    }
}

pub enum StdinMode {
    Null,
    Closed,
    Data(Vec<u8>),
}

pub struct CliRun<'a> {
    pub bin: &'a Path,
    pub arg: &'a str,
    pub cwd: &'a Path,
    pub env: &'a [(String, String)],
    pub stdin: StdinMode,
    /// when set, stdout/stderr are redirected to files in this directory instead of pipes
    pub to_files: Option<&'a Path>,
    pub timeout: Duration,
}

pub fn run_cli(r: CliRun) -> Result<CliOutcome, MachineryError> {
    let mut cmd = Command::new(r.bin);
    cmd.arg(r.arg).current_dir(r.cwd).env_clear();
    for (k, v) in r.env {
        cmd.env(k, v);
    }
    match &r.stdin {
        StdinMode::Null => {
            cmd.stdin(Stdio::null());
        }
        StdinMode::Closed => {
            cmd.stdin(Stdio::null());
            unsafe {
                use std::os::unix::process::CommandExt;
                cmd.pre_exec(|| {
                    libc::close(0);
                    Ok(())
                });
            }
        }
        StdinMode::Data(_) => {
            cmd.stdin(Stdio::piped());
        }
    }
    let (of, ef) = match r.to_files {
        Some(d) => (Some(d.join("stdout.txt")), Some(d.join("stderr.txt"))),
        None => (None, None),
    };
    if let (Some(of), Some(ef)) = (&of, &ef) {
        cmd.stdout(std::fs::File::create(of).map_err(|e| MachineryError(e.to_string()))?);
        cmd.stderr(std::fs::File::create(ef).map_err(|e| MachineryError(e.to_string()))?);
    } else {
        cmd.stdout(Stdio::piped()).stderr(Stdio::piped());
    }
    let mut child = cmd.spawn().map_err(|e| MachineryError(format!("cannot spawn CLI: {}", e)))?;
    if let StdinMode::Data(d) = &r.stdin {
        if let Some(mut si) = child.stdin.take() {
            let _ = si.write_all(d);
        }
    }
    let mut so = child.stdout.take();
    let mut se = child.stderr.take();
    let child_pid = child.id();
    let read_capped = move |s: &mut dyn Read| -> Vec<u8> {
        let mut b = vec![];
        let mut buf = [0u8; 65536];
        loop {
            match s.read(&mut buf) {
                Ok(0) | Err(_) => break,
                Ok(n) => {
                    if b.len() < 4 * OUT_CAP {
                        b.extend_from_slice(&buf[..n]);
                    } else {
                        unsafe {
                            libc::kill(child_pid as i32, libc::SIGKILL);
                        }
                    }
                }
            }
        }
        b
    };
    let t_out = std::thread::spawn(move || match so.as_mut() {
        Some(s) => read_capped(s),
        None => vec![],
    });
    let t_err = std::thread::spawn(move || match se.as_mut() {
        Some(s) => read_capped(s),
        None => vec![],
    });
    let t0 = Instant::now();
    let mut timed_out = false;
    let status = loop {
        match child.try_wait() {
            Ok(Some(st)) => break Some(st),
            Ok(None) => {
                if t0.elapsed() > r.timeout {
                    let _ = child.kill();
                    timed_out = true;
                    break child.wait().ok();
                }
                std::thread::sleep(Duration::from_micros(300));
            }
            Err(_) => break None,
        }
    };
    let mut stdout = t_out.join().unwrap_or_default();
    let mut stderr = t_err.join().unwrap_or_default();
    if let (Some(of), Some(ef)) = (&of, &ef) {
        stdout = std::fs::read(of).unwrap_or_default();
        stderr = std::fs::read(ef).unwrap_or_default();
    }
    use std::os::unix::process::ExitStatusExt;
    Ok(CliOutcome {
        code: status.and_then(|s| s.code()),
        signal: status.and_then(|s| s.signal()),
        timed_out,
        stdout,
        stderr,
    })
}

static TMP_CTR: AtomicU64 = AtomicU64::new(0);

/// A fresh scratch directory under /verif/.build/tmp (removed by `cleanup_tmp`).
pub fn scratch_dir() -> PathBuf {
    let c = TMP_CTR.fetch_add(1, Ordering::SeqCst);
    let d = PathBuf::from(format!("{}/tmp/{}-{}", BUILD_DIR, std::process::id(), c));
    let _ = std::fs::create_dir_all(&d);
    d
}

pub fn cleanup_tmp() {
    let d = PathBuf::from(format!("{}/tmp", BUILD_DIR));
    if let Ok(rd) = std::fs::read_dir(&d) {
        let prefix = format!("{}-", std::process::id());
        for e in rd.flatten() {
            if e.file_name().to_string_lossy().starts_with(&prefix) {
                let _ = std::fs::remove_dir_all(e.path());
            }
        }
    }
}

/// Run one script through the unmodified CLI path in a scratch directory; the
/// script is passed as `case.sd`.
pub fn run_cli_simple(bin: &Path, src: &[u8]) -> Result<CliOutcome, MachineryError> {
    run_cli_at(bin, src, "case.sd")
}

fn run_cli_simple_unused(bin: &Path, src: &[u8]) -> Result<CliOutcome, MachineryError> {
    let d = scratch_dir();
    std::fs::write(d.join("case.sd"), src).map_err(|e| MachineryError(e.to_string()))?;
    let env = default_env();
    let r = run_cli(CliRun {
        bin,
        arg: "case.sd",
        cwd: &d,
        env: &env,
        stdin: StdinMode::Null,
        to_files: None,
        timeout: Duration::from_secs(6),
    });
    let _ = std::fs::remove_dir_all(&d);
    r
}

/// Run one script through the unmodified CLI with the script stored under the relative
/// path `rel` (directories created as needed) in a scratch directory.
pub fn run_cli_at(bin: &Path, src: &[u8], rel: &str) -> Result<CliOutcome, MachineryError> {
    let o = run_cli_at_once(bin, src, rel, Duration::from_secs(6))?;
    if o.timed_out {
        // a slow start under load is not a hang: decide with a generous limit
        return run_cli_at_once(bin, src, rel, Duration::from_secs(40));
    }
    Ok(o)
}

pub fn run_cli_at_once(bin: &Path, src: &[u8], rel: &str, timeout: Duration) -> Result<CliOutcome, MachineryError> {
    let d = scratch_dir();
    let full = d.join(rel);
    if let Some(parent) = full.parent() {
        std::fs::create_dir_all(parent).map_err(|e| MachineryError(e.to_string()))?;
    }
    std::fs::write(&full, src).map_err(|e| MachineryError(e.to_string()))?;
    let env = default_env();
    let r = run_cli(CliRun {
        bin,
        arg: rel,
        cwd: &d,
        env: &env,
        stdin: StdinMode::Null,
        to_files: None,
        timeout,
    });
    let _ = std::fs::remove_dir_all(&d);
    r
}
