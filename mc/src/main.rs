#![allow(dead_code)]
mod checks;
mod dbg;
mod engine;
mod explore;
mod layout;
mod refm;
mod repo_tests;
mod runner;
mod subject;

use engine::Tier;

fn main() {
    let args: Vec<String> = std::env::args().collect();
    let code = match args.get(1).map(|s| s.as_str()) {
        Some("check") if args.len() >= 4 => {
            let tier = match args[3].as_str() {
                "quick" => Tier::Quick,
                "thorough" => Tier::Thorough,
                t => {
                    eprintln!("unknown tier {}", t);
                    std::process::exit(2);
                }
            };
            runner::run_check(&args[2], tier)
        }
        Some("replay") if args.len() >= 3 => runner::replay(&args[2]),
        Some("selfcheck") => {
            let (ok, total, fails) = repo_tests::selfcheck(&format!("{}/tests/stdout", subject::repo()), true);
            println!("reference self-validation: {}/{}", ok, total);
            for f in fails.iter().take(20) {
                println!("  FAIL {}", f);
            }
            if ok == total { 0 } else { 2 }
        }
        Some("ref") if args.len() >= 3 => {
            let src = std::fs::read_to_string(&args[2]).unwrap();
            let o = refm::eval::run(&src, 1_000_000);
            print!("{}", String::from_utf8_lossy(&o.stdout));
            println!("--- {:?}", o.result);
            0
        }
        _ => {
            eprintln!("usage: seedmc check <ID> quick|thorough | replay <dir> | selfcheck | ref <file>");
            2
        }
    };
    std::process::exit(code);
}
