//! Prints, for creation offsets 0..n, the iteration order of a
//! `HashSet<String>` built the way the interpreter builds its remaining-key
//! set (`keys().cloned().collect()`), under this process's hash seed.  Run
//! under the getrandom shim with the same SEED_VERIF_HASHSEED as the subject,
//! it predicts the orders the subject's hash containers can take.
use std::collections::BTreeMap;
use std::collections::HashSet;

fn main() {
    let args: Vec<String> = std::env::args().collect();
    let n: usize = args.get(1).and_then(|s| s.parse().ok()).unwrap_or(32);
    let keys: Vec<String> = args.iter().skip(2).cloned().collect();
    let m: BTreeMap<String, i32> = keys.iter().map(|k| (k.clone(), 0)).collect();
    for _ in 0..n {
        let s: HashSet<String> = m.keys().cloned().collect();
        let order: Vec<&str> = s.iter().map(|x| x.as_str()).collect();
        println!("{}", order.join(","));
    }
}
