//! Extraction of the repository's own test scripts (same rules as /repo/build.rs)
//! and self-validation of the reference model against their expected outputs.
use crate::refm::eval::{run, RefResult};

#[derive(Clone, Debug)]
pub struct RepoTest {
    pub file: String,
    pub name: String,
    pub src: String,
    pub code: i32,
    pub stdout: String,
    pub stderr: String,
}

const MARK: &str = "==================================================";
const SECTION: &str = "--------------------------------------------------";

pub fn load(dir: &str) -> Vec<RepoTest> {
    let mut out = vec![];
    let mut entries: Vec<_> = std::fs::read_dir(dir)
        .unwrap_or_else(|e| panic!("cannot read {}: {}", dir, e))
        .map(|e| e.unwrap().path())
        .collect();
    entries.sort();
    for p in entries {
        let ext = p.extension().and_then(|e| e.to_str()).unwrap_or("").to_string();
        if ext != "test" && ext != "xtest" {
            continue;
        }
        let extended = ext == "xtest";
        let stem = p.file_stem().unwrap().to_str().unwrap().to_string();
        let text = std::fs::read_to_string(&p).unwrap();
        let mut cur: Option<RepoTest> = None;
        let mut section = 0;
        for line in text.lines() {
            if let Some(suf) = line.strip_prefix(MARK) {
                if let Some(t) = cur.take() {
                    out.push(t);
                }
                if suf.is_empty() {
                    break;
                }
                cur = Some(RepoTest {
                    file: stem.clone(),
                    name: suf.trim_start().to_string(),
                    src: String::new(),
                    code: 0,
                    stdout: String::new(),
                    stderr: String::new(),
                });
                section = 0;
                continue;
            }
            if line == SECTION {
                section += 1;
                continue;
            }
            let t = cur.as_mut().expect("line before first marker");
            let l = format!("{}\n", line);
            if extended {
                match section {
                    0 => t.code = line.strip_prefix("exit_code: ").unwrap().parse().unwrap(),
                    1 => t.src += &l,
                    2 => t.stdout += &l,
                    _ => t.stderr += &l,
                }
            } else {
                match section {
                    0 => t.src += &l,
                    _ => t.stdout += &l,
                }
            }
        }
    }
    out
}

/// Returns (passed, total, failure descriptions).
pub fn selfcheck(dir: &str, verbose: bool) -> (usize, usize, Vec<String>) {
    let tests = load(dir);
    let mut ok = 0;
    let mut fails = vec![];
    for t in &tests {
        let o = run(&t.src, 2_000_000);
        let exp_ok = t.code == 0;
        let got_ok = matches!(o.result, RefResult::Ok);
        let out_ok = o.stdout == t.stdout.as_bytes();
        if exp_ok == got_ok && out_ok {
            ok += 1;
        } else {
            let mut d = format!("{}::{} exp_ok={} got={:?}", t.file, t.name, exp_ok, o.result);
            if !out_ok && verbose {
                d += &format!(
                    "\n    expected stdout {:?}\n    got      stdout {:?}",
                    t.stdout,
                    String::from_utf8_lossy(&o.stdout)
                );
            }
            fails.push(d);
        }
    }
    (ok, tests.len(), fails)
}
