#!/bin/sh
# placeholder; replaced when the engine exists
exit 0
