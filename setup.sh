#!/bin/sh
# Build the verification engine, the hash-seed shim and the guarded subject,
# offline, from files on disk only.  Output goes to /verif/.build (git-ignored).
set -e
cd /verif
mkdir -p .build evidence
export CARGO_NET_OFFLINE=true
if [ -f shim/getrandom_shim.c ]; then
    gcc -O2 -shared -fPIC -o .build/getrandom_shim.so shim/getrandom_shim.c -ldl
fi
(cd mc && cargo build --release --offline)
(cd /repo && RUSTFLAGS='--cfg seed_verif -C overflow-checks=on' CARGO_TARGET_DIR=/verif/.build/subject cargo build --release --offline)
echo "setup ok"
