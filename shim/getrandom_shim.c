/* LD_PRELOAD shim: makes the process-level randomness that Rust's std uses for
 * hash seeds (getrandom(2) via libc) a function of SEED_VERIF_HASHSEED, so that
 * the iteration order of every HashMap/HashSet in the interpreter is an owned
 * environment answer.  Without the variable the real getrandom is used. */
#define _GNU_SOURCE
#include <dlfcn.h>
#include <stdint.h>
#include <stdlib.h>
#include <string.h>
#include <sys/types.h>

static uint64_t splitmix(uint64_t *s) {
    uint64_t z = (*s += 0x9E3779B97F4A7C15ULL);
    z = (z ^ (z >> 30)) * 0xBF58476D1CE4E5B9ULL;
    z = (z ^ (z >> 27)) * 0x94D049BB133111EBULL;
    return z ^ (z >> 31);
}

ssize_t getrandom(void *buf, size_t len, unsigned int flags) {
    const char *e = getenv("SEED_VERIF_HASHSEED");
    if (!e) {
        ssize_t (*real)(void *, size_t, unsigned int) = dlsym(RTLD_NEXT, "getrandom");
        if (real) return real(buf, len, flags);
        memset(buf, 0, len);
        return (ssize_t)len;
    }
    uint64_t s = strtoull(e, 0, 10) * 0x2545F4914F6CDD1DULL + 1;
    unsigned char *p = buf;
    for (size_t i = 0; i < len; i += 8) {
        uint64_t v = splitmix(&s);
        size_t n = len - i < 8 ? len - i : 8;
        memcpy(p + i, &v, n);
    }
    return (ssize_t)len;
}
