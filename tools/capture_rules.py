#!/usr/bin/env python3
"""capture_rules.py <tier> <evidence-dir>: copy the `rule` text every check wrote into its evidence
file into tools/rules.json (read by gen_manifest.py), so that MANIFEST.json describes the bounds with
the words of the code that enforces them."""
import json, sys, os
tier, d = sys.argv[1], sys.argv[2]
p = '/verif/tools/rules.json'
R = json.load(open(p)) if os.path.exists(p) else {}
for f in sorted(os.listdir(d)):
    if not f.endswith('.json'): continue
    e = json.load(open(os.path.join(d, f)))
    rule = e.get('coverage', {}).get('rule')
    if rule:
        R.setdefault(f[:-5], {})[tier] = rule
json.dump(R, open(p, 'w'), indent=1, sort_keys=True)
print("captured", tier, "rules for", len(R), "checks")
