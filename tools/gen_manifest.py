#!/usr/bin/env python3
"""Regenerates /verif/MANIFEST.json from the table below (kept next to the checks so the
claimed set, the commands and the level notes stay in one place)."""
import json, subprocess, sys

CLAIMED = {
 # id: (engine kind, what is enumerated, technique)
 "C16": ("E2 product (complete, finite)",
         "the complete operator x kind x kind matrix (15 binary operators + `..`, 8x8 operand kinds, two spellings), 5 op-assign operators x 4 target forms x 8x8, 38 typed contexts x 8 kinds; every cell executed on the real interpreter and judged against the table written out from the property statement, cross-checked with the reference model",
         "exhaustive enumeration of a finite product space on the real interpreter against a reference table"),
}

NOT_YET = "check under construction (its exhaustive exploration is not built yet); will be claimed once it exists"

def main():
    props = [json.loads(l) for l in open('/verif/properties.jsonl')]
    hook_commits = subprocess.run(['git','-C','/repo','log','--format=%h','--grep=cfg(seed_verif)'],capture_output=True,text=True).stdout.split()
    checks = []
    na = []
    for p in props:
        i = p['id']
        if i in CLAIMED:
            kind, what, tech = CLAIMED[i]
            checks.append({
                "property_id": i,
                "quick_cmd": f"./check {i} quick",
                "thorough_cmd": f"./check {i} thorough",
                "evidence_file": f"/verif/evidence/{i}.json",
                "replay_cmd_template": "./check replay {path}",
                "engine": "seedmc",
                "level_claimed": {
                    "category": "model_checking",
                    "text": f"Bounded exhaustive exploration ({kind}): {what}. Every enumerated case is executed on the interpreter built from /repo's working tree (traces_validated_against_impl = all of them); the verdict is a coverage statement for the stated bounds, not a sample.",
                    "design_ref": f"DESIGN.md section 3, {i}",
                },
                "level_note": "Trusted: the reference model /verif/mc/src/refm (re-validated against the repository's 336 expected outputs on every run), the batch hook (add-only, checked against the plain CLI by a conformance pass on one representative per outcome shape), the stated bounds. Nothing is claimed beyond the bounds.",
                "technique": tech,
            })
        else:
            na.append({"property_id": i, "reason": NOT_YET})
    m = {
        "version": 1,
        "setup_cmd": "cd /verif && ./setup.sh",
        "hooks": {
            "guard": "seed_verif",
            "enable": "RUSTFLAGS='--cfg seed_verif' CARGO_TARGET_DIR=/verif/.build/subject cargo build --release --offline   (run in /repo; done by every check)",
            "baseline_off_cmd": "cd /repo && cargo test --workspace --no-fail-fast --offline",
            "source_commits": hook_commits,
            "add_only": True,
        },
        "engines": [{
            "name": "seedmc",
            "path": "/verif/mc",
            "serves_properties": sorted(CLAIMED.keys()),
            "kind_free_text": "explicit-state / bounded exhaustive explorer in Rust: enumerates programs, inputs and operation histories over small alphabets (finite products, breadth-first histories with canonical-state deduplication, k-edit deviations), runs every case on an independent reference interpreter and on the real interpreter (batch hook + plain CLI), compares with per-property oracles",
        }],
        "checks": checks,
        "not_applicable": na,
        "notes": "exit codes of every command: 0 held on everything explored, 1 VIOLATION (line 'VIOLATION property=<id> replay=<dir>'), 2 machinery failure (no verdict). Known findings are in /verif/known_findings.json.",
    }
    json.dump(m, open('/verif/MANIFEST.json','w'), indent=1)
    print("claimed:", sorted(CLAIMED.keys()))

main()
