#!/usr/bin/env python3
"""Regenerates /verif/MANIFEST.json from the table below (kept next to the checks so the
claimed set, the commands and the level notes stay in one place)."""
import json, subprocess, sys

CLAIMED = {
 # id: (engine kind, what is enumerated, technique)
 "C01": ("E2 product over construct nestings + E1 breadth-first statement sequences",
         "every chain of depth 0..2 (thorough: plus depth 3 over 10 core contexts) over 26 construct contexts (blocks, every branch position, while, for over list / string / object / range, named / twice-called / recursive / anonymous / callback / method / returned-closure functions, destructuring parameters, closures created and collected in loops, returns through nested blocks) around each of 65 payload fragments (one documented feature each, printing what it observed), with and without a same-named outer variable; every depth-0/1 chain around every ordered payload pair placed inside / inside+after; all statement sequences of length <= 3 (thorough 4) from 33 statements with dead-state pruning; oracle = reference interpreter (stdout byte-identical, same termination class)",
         "exhaustive enumeration of construct nestings and statement sequences on the real interpreter against a reference interpreter"),
 "C02": ("E1 breadth-first history exploration with heap-graph deduplication + E2 products",
         "all histories of <= 5 (quick) / <= 7 (thorough, wall-capped) operations from 56 alias-shape operations on a, b, c (a container stored in itself / in its comparand / on both sides of an operator, element += with the container itself, range assignment / spread / collect / destructuring of a container into itself, loops that overwrite what they iterate, print and == / != / === against itself and wrappers of itself, a function mutating one parameter and comparing it with the other), merged on the isomorphism class of the reference heap graph (cycles included); 16 operators x 24^2 ordered operand pairs over aliased and cyclic shapes, op-assign and plain assignment x 9 places x 24 operands, 13 contexts x 24 operands; integer boundary pairs, multi-byte text around slots, out-of-range slices; oracle = the run ends by completion or reported diagnostic (never panic / signal / hang), and equals the reference output wherever no self-containing container is traversed",
         "explicit-state breadth-first exploration with canonical-state deduplication on the real interpreter; crash oracle"),
 "C03": ("E2 product + E3 deviation-bounded exploration",
         "all strings of length 0..4 (thorough 5) over a 28-character alphabet (every character class of the scanner, every first character of a multi-character symbol, one multi-byte character), each run bare and after a first statement that prints; k = 1 deviations of a corpus of ~440 programs (truncation at every byte offset, deletion and duplication of every character, insertion / replacement by each of 12 (thorough 28) characters, deletion / duplication / swap of adjacent tokens), parsed with the real front end (hook ast) and run when rejected; 1- and 2-byte invalid UTF-8 sequences at every offset of short scripts through the CLI; oracle = clean-rejection contract (no panic / hang; a rejected file prints nothing and reports one located diagnostic with line <= lines + 1; a read error for non-UTF-8) and agreement with the reference front end on whether the text is a program",
         "exhaustive enumeration of all short inputs and all single-edit deviations of a corpus on the real front end against a contract and a reference front end"),
 "C04": ("E1 breadth-first history exploration",
         "all well-formed histories of <= 6 (quick) / <= 8 (thorough, wall-capped) scope operations from 16 operations (x := k, x = k, print(x), open block / fn f / fn g / while / for, close, f(), g(), return a closure that reads and writes x, h = f(), h(), h = closure, guarded recursion); each program is completed by reading x at every open level and calling what was defined; dead states are not expanded; oracle = reference interpreter with linked environments (stdout and termination class); vacuity guards: closure outlives its scope, late declaration seen by an earlier function, recursion, per-iteration redeclaration",
         "explicit-state breadth-first exploration of operation histories on the real interpreter against a reference model"),
 "C05": ("E1 breadth-first history exploration with heap-isomorphism deduplication",
         "all histories of <= 4 (quick) / <= 6 (thorough) operations from 52 alias / copy / mutate / value operations over a, b, c, o; states merged when the reference heaps reachable from the variables are isomorphic; after every history every variable is printed and `===` is evaluated between all pairs of container values reachable to depth 2; oracle = reference store (addresses)",
         "explicit-state breadth-first exploration with canonical-state deduplication on the real interpreter against a reference store"),
 "C06": ("E2 product (complete over the grid)",
         "every ordered pair of a boundary grid of 64-bit integers (all +-2^k, +-(2^k+-1), sqrt(2^63) neighbours, extremes; 105 values quick / ~700 thorough) x {+ - * / %} x 6 forms (expression, op-assign on variable / element / property in two spellings, x = x op y), 6 comparisons, the division identity, every `_` placement (<=2) in every non-negative grid literal with and without `-`, too-large literals in 7 contexts, ranges a .. a+d; oracle = i128 arithmetic and the diagnostic clause of the statement",
         "exhaustive enumeration of a finite product space on the real interpreter against exact (i128) arithmetic"),
 "C07": ("E2 product over construct nestings",
         "all chains of depth 1..3 (thorough: plus depth 4 over 10 core constructs) over ~38 (thorough 64) construct variants (bare block, if x truth value, if/else x arm, else-if chains of 2 and 3 conditions x all truth assignments x child arm, while, for over list literal / list variable / string / object / range, named / anonymous / method call) x 13 innermost statements (none; break / continue / return bare or armed to fire on the 1st/2nd/3rd reach), the same chains with the jump in a sibling position before / after the child at every level, a shadowed variable declared at every level, and 30 loop bodies that mutate the iterated value or the loop bound; oracle = exact print trace and termination class of the reference interpreter",
         "exhaustive enumeration of construct nestings x jump placements x truth assignments on the real interpreter against a reference interpreter"),
 "C08": ("E2 product (complete)",
         "all operator sequences e0 o1 e1 .. on en with n <= 3 (thorough 4) over the 15 binary operators and `..`, every assignment of 14 operand forms (name, literal, negative literal, call, index, range index, property, type property, postfix forms on a negative literal, ...) for n <= 2 in three spacing styles, one varied operand for larger n; all expression trees with <= 4 (thorough 5) operator nodes over one operator per tier (all 16 at the topmost levels) printed with only the necessary parentheses, and every subset of redundant parenthesis placements (capped at ~45 per tree); all operator pairs evaluated on 6 operand triples; oracle = the real parser's tree (hook ast, parsed generically from its Debug dump) must equal the reference precedence-climbing parser's tree / the printed tree itself; accept/reject must agree; evaluation results equal the reference interpreter",
         "exhaustive enumeration of operator sequences and expression trees on the real parser against a reference parser and the print/parse round trip"),
 "C09": ("E3 deviation-bounded exploration",
         "corpus of ~440 programs (the repository's 336 test scripts + generated programs covering every token adjacency) x every single layout edit at every token boundary (k = 1: space / tab / CR, comments with multi-byte text, blank lines, newline <-> `;`, doubled terminators, line break / CR LF + indentation after each continuation token, line break vs `;` after every other token, `_` after every digit, every ASCII string character as \\xhh / \\xHH, leading layout); thorough: k = 2 on programs of <= 12 tokens; plus a line break after each of the 25 continuation and 13 non-continuation tokens; oracle = the real lexer's token sequence (hook tokens) unchanged / equal to the `;` variant, same output, same message with every position (also positions quoted inside the message and stack-trace lines) moved exactly as the text moved",
         "exhaustive single/double-edit deviation exploration of a corpus on the real lexer and interpreter against invariance laws"),
 "C10": ("E2 product (complete over the pool)",
         "all ordered pairs over an exhaustive pool of ~290 (quick) / ~500 (thorough) nested values (atoms, a function, every list of length <= 2 and object over keys a, b, one and two levels deep) x 3 construction patterns (operands built separately; every equal container sub-term built once and referenced everywhere, across and inside the operands; object keys in reverse order) x 4 programs (==, reversed ==, != first, the === matrix), plus all pairs of lists over {0,1} of length <= 5 and of objects over every subset of four keys; oracle = tolerant structural-equality reference computed without short-cuts (a boolean where no differently-typed positions exist; a diagnostic naming an occurring kind pair, or `false` only when a plain difference exists, otherwise) and laws on the subject's own answers: operand order, negation, transitivity over the whole table, sharing- and order-independence, === reflexive / symmetric / implies ==, operands print unchanged",
         "exhaustive enumeration of all value pairs up to a size bound on the real interpreter against a reference relation and algebraic laws"),
 "C11": ("E2 product (complete)",
         "all lists of length 0..4 (quick) / 0..7 (thorough) and strings of length 0..5 / 0..7 plus multi-byte strings x every index in [-2,len+2] x every bound pair in ([-2,len+2] + omitted)^2 x element assignment x range assignment from lists, strings (ASCII and multi-byte) and the list itself of every length 0..len+1 x all concatenation length pairs x non-integer index kinds; oracle = slice model written from the statement (definedness domain + value) and the laws s[:k]+s[k:]==s, (s+t)[len(s)+i]==t[i] evaluated by the subject",
         "exhaustive enumeration of all sequences/indices/bounds up to a length bound on the real interpreter against a sequence model"),
 "C12": ("E1 breadth-first history exploration with map-state deduplication + E2 product",
         "all histories of <= 5 (quick) / <= 7 (thorough) operations from 45 operations on objects o, p over the keys a, b, B, empty, 'a b', '1' (insert / overwrite through [] and ., computed and interpolated keys, op-assign both ways and on missing keys, spread before / after pairs and shorthands, collect, alias); states merged on the sorted contents; each history completed by printing, iterating, reading every present key both ways, comparing both ways and reading an absent key; plus all object literals of <= 3 (thorough 4) entries over 12 entry forms and 11 rejected entry forms; oracle = reference model (sorted association list)",
         "explicit-state breadth-first exploration with canonical-state deduplication on the real interpreter against a reference model"),
 "C13": ("E2 product (complete)",
         "all list patterns of width 0..4 (thorough 5) over {name, _, [n, n], [n, ..n], {\"k\": n}, {k}} x {no rest, ..r, .._} x source lengths 0..5 x 4 binding positions (declaration, assignment, for target, parameter), the pattern itself as for target, wrong-kind elements, non-list sources; object patterns over every ordered selection of <= 3 of the keys a, b, c x 4 entry forms x rest x all 32 source key subsets x positions; 30 malformed patterns; spread laws for all length pairs; argument splits; oracle = length / key rules written from the statement (cross-checked against the reference binder), reference outputs, round-trip laws evaluated by the subject",
         "exhaustive enumeration of a finite product space on the real interpreter against statement-derived rules and a reference model"),
 "C14": ("E1 breadth-first history exploration with provenance-state deduplication + E2 product",
         "all histories of <= 6 (quick) / <= 8 (thorough) operations from 36 operations that attach a function to objects, read it through . / [], move the value through variables, arguments, list elements, returns, destructuring and other objects, and call it; states merged on the (function, provenance) content of every holder; each history completed by calling every holder; plus arity 0..4 x rest x 0..5 arguments x every plain/spread split with printing arguments, parameter-freshness and callee-order programs; oracle = reference model with explicit provenance",
         "explicit-state breadth-first exploration with canonical-state deduplication on the real interpreter against a reference model"),
 "C15": ("E2 product (complete)",
         "all plain string literals of 0..4 (thorough 5) pieces over 22 pieces (ASCII, space, braces, every escape incl. upper/lower-case and leading-zero hex, 2/3/4-byte characters, raw newline; invalid escape, short hex, bad hex digit, raw $, trailing backslash), all interpolated literals of 0..2 (thorough 3) pieces over 10 pieces with 0..2 slots in every gap arrangement x 13 slot expressions (nested interpolation, quotes / braces / multi-byte text inside the slot, non-string and undefined slots), three-slot arrangements, 13 fixed programs; oracle = reference decoder (value, byte length, lexical error position) + laws evaluated by the subject (interpolation == concatenation, for/len agreement, split reassembly)",
         "exhaustive enumeration of all literals up to a piece bound on the real interpreter against a reference decoder"),
 "C16": ("E2 product (complete, finite)",
         "the complete operator x operand matrix over 13 representative values of the 8 kinds (15 binary operators + `..`, 13x13 operands, two spellings), 5 op-assign operators x 4 target forms x 13x13, 45 typed contexts x 13 values; every cell executed on the real interpreter and judged against the table written out from the property statement, cross-checked with the reference model",
         "exhaustive enumeration of a finite product space on the real interpreter against a reference table"),
 "C17": ("E2 product through the plain CLI",
         "38 failing expressions x 30 syntactic positions + 29 failing statements, each at call depth 0..5 through named / anonymous / method calls (4 rotations incl. multi-byte text before every call), two prints before the failure, three path spellings; 13 lexical / syntax errors x 3 prefixes; successful scripts; thorough: pairs of nested positions; every case is a real `seed <path>` process; oracle = stdout holds exactly the prints before the failure (reference), exit 103, first stderr line `<path as given>:L:C: [in '<function>': ]<message>` with L inside the script and a message free of internal identifiers / Rust debug syntax, `Stacktrace:` with one `<path>:L:C: in '<caller>'` line per active call from the reference call stack, ending at <root>; success is silent with exit 0",
         "exhaustive enumeration of error kind x position x call depth on the real CLI against a format grammar and a reference call stack"),
 "C18": ("E2 product + E3 deviation-bounded exploration",
         "37 offenders (lexical, syntax, undefined name, operator type / overflow on expressions and on op-assignment to variable / element / property / key, call errors, redeclaration, jumps, stack-trace lines) x every sequence of <= 3 (thorough 4) layout pieces from 10 (newline, space, tab, CR LF, multi-byte comment, statements, multi-line string / literal, multi-byte string on the same line) x 3 in-line indentations; 5 expression offenders x 6 wrappers; newline / end-of-file offenders under same-line and above-line insertions; the whole layout corpus (~440 programs) x every single layout edit with every token start (hook tokens) and every position stored in the syntax tree (hook ast); oracle = the position where the generator put the token, counted in characters, and the reference lexer's / parser's positions",
         "exhaustive enumeration of offender x layout prefix, and single-edit deviations of a corpus, on the real lexer / parser / interpreter against character counting"),
 "C19": ("E2 product through the plain CLI with an owned hash seed + E2 product of values",
         "13 (thorough 25) programs that use every hash-based container of the interpreter (many variables per scope, object collect over >= 4 remaining keys, several simultaneous binding errors, duplicate parameter names; succeeding and failing) x the full product of 3 working directories x 4 (8) environments / locales x 5 path spellings x 3 stdin kinds x 2 output sinks, and x a sweep of controlled hash seeds (LD_PRELOAD getrandom shim) which a probe built with the same toolchain shows to produce every iteration order of a 3- (4-) key hash set at every creation offset < 32; all runs of a program byte-identical (stderr modulo the echoed path); every value skeleton of depth <= 3 (600k values) as a literal and depth <= 2 (3) along 5 construction histories, wide lists / objects of 0..8 entries in 6 (24) insertion orders, shared vs separate children; print(v) equals the rendering rule written from the statement and the reference renderer, print returns null",
         "exhaustive enumeration of environment configurations and hash-iteration orders on the real CLI, and of value skeletons x construction histories, against byte-identity and a rendering rule"),
 "C20": ("E1 breadth-first history exploration + E2 product",
         "all histories of <= 4 (quick) / <= 6 (thorough, wall-capped; 5 completes) operations from 41 operations on x, y and `_` (declare through :=, list pattern, object pattern, fn, for target, parameter; assign; op-assign; read; open / close block, if, loop, function; `_` as target in every entry point; print(_); duplicate names in patterns and parameter lists; collect targets), dead states not expanded; plus 9 non-bindable expression kinds x 9 binding positions; oracle = reference scoping: success / failure, position of the offending name, earlier declaration's position cited in the message",
         "explicit-state breadth-first exploration of operation histories on the real interpreter against a reference model"),
}

NOT_YET = "not claimed"

def rules():
    """rule texts written by the checks themselves (tools/capture_rules.py copies them from evidence files)"""
    try:
        return json.load(open('/verif/tools/rules.json'))
    except Exception:
        return {}

def main():
    props = [json.loads(l) for l in open('/verif/properties.jsonl')]
    R = rules()
    hook_commits = subprocess.run(['git','-C','/repo','log','--format=%h','--grep=cfg(seed_verif)'],capture_output=True,text=True).stdout.split()
    checks = []
    na = []
    for p in props:
        i = p['id']
        if i in CLAIMED:
            kind, what, tech = CLAIMED[i]
            r = R.get(i, {})
            if r.get("quick"):
                what = "quick tier: " + r["quick"]
                if r.get("thorough"):
                    what += " || thorough tier: " + r["thorough"]
            checks.append({
                "property_id": i,
                "quick_cmd": f"./check {i} quick",
                "thorough_cmd": f"./check {i} thorough",
                "evidence_file": f"/verif/evidence/{i}.json",
                "replay_cmd_template": "./check replay {path}",
                "engine": "seedmc",
                "level_claimed": {
                    "category": "model_checking",
                    "text": f"Bounded exhaustive exploration ({kind}): {what}. Every enumerated case is executed on the interpreter built from /repo's working tree (traces_validated_against_impl = all of them); the verdict is a coverage statement for the stated bounds, not a sample.",
                    "design_ref": f"DESIGN.md section 3, {i}",
                },
                "level_note": "Trusted: the reference model /verif/mc/src/refm (re-validated against the repository's 336 expected outputs on every run), the batch hook (add-only, checked against the plain CLI by a conformance pass on one representative per outcome shape), the stated bounds. Nothing is claimed beyond the bounds.",
                "technique": tech,
            })
        else:
            na.append({"property_id": i, "reason": NOT_YET})
    m = {
        "version": 1,
        "setup_cmd": "cd /verif && ./setup.sh",
        "hooks": {
            "guard": "seed_verif",
            "enable": "RUSTFLAGS='--cfg seed_verif -C overflow-checks=on' CARGO_TARGET_DIR=/verif/.build/subject cargo build --release --offline   (run in /repo; done by every check)",
            "baseline_off_cmd": "cd /repo && cargo test --workspace --no-fail-fast --offline",
            "source_commits": hook_commits,
            "add_only": True,
        },
        "engines": [{
            "name": "seedmc",
            "path": "/verif/mc",
            "serves_properties": sorted(CLAIMED.keys()),
            "kind_free_text": "explicit-state / bounded exhaustive explorer in Rust: enumerates programs, inputs and operation histories over small alphabets (finite products, breadth-first histories with canonical-state deduplication, k-edit deviations), runs every case on an independent reference interpreter and on the real interpreter (batch hook + plain CLI), compares with per-property oracles",
        }],
        "checks": checks,
        "not_applicable": na,
        "notes": "exit codes of every command: 0 held on everything explored, 1 VIOLATION (line 'VIOLATION property=<id> replay=<dir>'), 2 machinery failure (no verdict). Known findings are in /verif/known_findings.json.",
    }
    json.dump(m, open('/verif/MANIFEST.json','w'), indent=1)
    print("claimed:", sorted(CLAIMED.keys()))

main()
