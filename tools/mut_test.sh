#!/bin/sh
# mut_test.sh [-R] <patch> <check-id>... : apply a patch to /repo's working tree (reverse with -R),
# run the quick checks, and always restore the tree.
REV=""
if [ "$1" = "-R" ]; then REV="-R"; shift; fi
P=$1; shift
cd /repo || exit 2
if [ -n "$(git status --porcelain)" ]; then echo "repo dirty, refusing"; exit 2; fi
git apply $REV "$P" || { echo "patch does not apply"; exit 2; }
for id in "$@"; do
  out=$(/verif/check $id ${TIER:-quick} 2>/dev/null); code=$?
  echo "$id exit=$code $(echo "$out" | grep -c '^VIOLATION') violation lines; $(echo "$out" | grep -E '^MACHINERY' | head -1)"
  echo "$out" | grep -E "^VIOLATION" | head -2
done
git -C /repo checkout -- .
