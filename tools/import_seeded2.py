#!/usr/bin/env python3
"""import_seeded.py Cnn...: copy validated sub-agent changes from /tmp/seedmut/Cnn.out/N into
/verif/seeded/Cnn-N/ (patch.diff, demo, notes, meta.json)."""
import sys, os, shutil, json, re
ROUND = os.environ.get("ROUND", "2")
ROOT = os.environ.get("R", "/tmp/seedmut2")
ORD = {"2": "second", "3": "third", "4": "fourth", "5": "fifth", "6": "sixth", "7": "seventh", "8": "eighth", "9": "ninth", "10": "tenth", "11": "eleventh", "12": "twelfth"}[ROUND]
for cid in sys.argv[1:]:
    base = f"{ROOT}/{cid}.out"
    for n in sorted(os.listdir(base)):
        d = os.path.join(base, n)
        if not (os.path.isdir(d) and os.path.exists(os.path.join(d, "patch.diff"))):
            continue
        val = open(os.path.join(d, "validation.txt")).read() if os.path.exists(os.path.join(d, "validation.txt")) else ""
        if "TESTS-OK" not in val or "DEMO-DIFFERS" not in val:
            print("skip (not validated):", d, val.strip()[-80:])
            continue
        dst = f"/verif/seeded/{cid}-r{ROUND}-{n}"
        os.makedirs(dst, exist_ok=True)
        for f in ["patch.diff", "demo.sd", "expected.txt", "actual.txt", "notes.md"]:
            if os.path.exists(os.path.join(d, f)):
                shutil.copy(os.path.join(d, f), os.path.join(dst, f))
        notes = open(os.path.join(d, "notes.md")).read() if os.path.exists(os.path.join(d, "notes.md")) else ""
        meta = {
            "id": f"{cid}-r{ROUND}-{n}",
            "breaks_property": cid,
            "origin": f"fresh sub-agent given only the property text and a scratch worktree of /repo (HEAD {os.environ.get('BASE', 'c487667')}, {ORD} round: told which changes the earlier rounds had produced and asked for different ones)",
            "needs_to_manifest": notes.strip().split("\n\n")[0][:1500],
            "confirmed_by": "tools/validate_seeded.sh: patch applied to a clean scratch worktree, cargo build, cargo test --workspace --no-fail-fast --offline (3 + 336 passed, 0 failed), demo.sd run with and without the change",
            "validation": val.strip().splitlines(),
        }
        json.dump(meta, open(os.path.join(dst, "meta.json"), "w"), indent=1)
        print("imported", dst)
