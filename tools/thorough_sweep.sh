#!/bin/sh
# thorough_sweep.sh [ids...] : run the thorough tier of the named checks (default: all) one after
# the other with a frozen copy of the engine binary, so that the engine can be rebuilt meanwhile.
# Evidence and findings go to $OUT (default /var/tmp/seedmc-thorough), not to /verif/evidence.
# Run it alone: tools/mut_test.sh and ./check rebuild /verif/.build/subject underneath it.
OUT=${OUT:-/var/tmp/seedmc-thorough}
mkdir -p $OUT/evidence $OUT/findings
cp /verif/.build/mc/release/seedmc $OUT/seedmc
export SEED_VERIF_EVIDENCE_DIR=$OUT/evidence SEED_VERIF_FINDINGS_DIR=$OUT/findings
cd /verif
IDS="$@"; [ -z "$IDS" ] && IDS="C13 C17 C18 C01 C11 C16 C09 C10 C07 C14 C19 C06 C03 C08 C15 C12 C20 C05 C04 C02"
for id in $IDS; do
  s=$(date +%s)
  out=$($OUT/seedmc check $id thorough 2>&1); code=$?
  e=$(date +%s)
  echo "$id exit=$code secs=$((e-s)) $(echo "$out" | grep -v '^KNOWN' | tail -1)"
  echo "$out" | grep -E "^VIOLATION|^MACHINERY" | head -5
done
