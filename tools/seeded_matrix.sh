#!/bin/sh
# seeded_matrix.sh [own|all] [ids...] : run checks against every seeded change on a scratch
# worktree of /repo (never on /repo itself); writes /verif/seeded/<id>/result.json.
MODE=${1:-own}; shift
SHARD=${SHARD:-0}
W=/var/tmp/seedmc-mx$SHARD
T=/var/tmp/seedmc-mx-target$SHARD
OUT=/var/tmp/seedmc-mx-out$SHARD
rm -rf $W; git -C /repo worktree prune
git -C /repo worktree add -q --detach $W HEAD || exit 2
mkdir -p $OUT
export SEED_VERIF_REPO=$W SEED_VERIF_SUBJECT_TARGET=$T SEED_VERIF_EVIDENCE_DIR=$OUT/evidence SEED_VERIF_FINDINGS_DIR=$OUT/findings
ALL="C01 C02 C03 C04 C05 C06 C07 C08 C09 C10 C11 C12 C13 C14 C15 C16 C17 C18 C19 C20"
IDS="$@"; [ -z "$IDS" ] && IDS=$(ls /verif/seeded)
for id in $IDS; do
  d=/verif/seeded/$id
  [ -f $d/patch.diff ] || continue
  git -C $W checkout -q -- . ; git -C $W clean -fdq
  if ! git -C $W apply $d/patch.diff 2>/dev/null; then echo "$id: patch does not apply"; continue; fi
  own=$(python3 -c "import json;m=json.load(open('$d/meta.json'));print(m['breaks_property'], m.get('also',''))")
  if [ "$MODE" = "all" ]; then checks=$ALL; else checks=$(echo $own | tr ' ' '\n' | sort -u | tr '\n' ' '); fi
  res=""
  for c in $checks; do
    out=$(/verif/.build/mc/release/seedmc check $c quick 2>/dev/null); code=$?
    nv=$(echo "$out" | grep -c '^VIOLATION')
    res="$res\"$c\": {\"exit\": $code, \"violation_lines\": $nv},"
  done
  echo "{\"mode\": \"$MODE\", \"checks\": {${res%,}}}" > $d/result.json
  echo "$id: $(cat $d/result.json)"
done
git -C /repo worktree remove --force $W
rm -rf $T $OUT
