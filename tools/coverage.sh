#!/bin/sh
# coverage.sh [ids...] : ALPHABET-DESIGN AID, not a check.  Builds the guarded subject with source
# coverage instrumentation (nightly toolchain) in a scratch target directory, runs the quick tier of
# the given checks (default: all) against it and lists the interpreter source lines that no
# enumerated case executed.  Evidence and findings go to scratch directories.
S=/var/tmp/seedmc-cov
rm -rf $S; mkdir -p $S/prof $S/ev $S/fi
ids=${*:-C01 C02 C03 C04 C05 C06 C07 C08 C09 C10 C11 C12 C13 C14 C15 C16 C17 C18 C19 C20}
export SEED_VERIF_COVERAGE=$S/prof SEED_VERIF_SUBJECT_TARGET=$S/target SEED_VERIF_EVIDENCE_DIR=$S/ev SEED_VERIF_FINDINGS_DIR=$S/fi
for id in $ids; do
  /verif/.build/mc/release/seedmc check $id quick 2>&1 | tail -1
done
T=$(rustc +nightly --print sysroot)/lib/rustlib/x86_64-unknown-linux-gnu/bin
$T/llvm-profdata merge -sparse $S/prof/*.profraw -o $S/all.profdata || exit 2
$T/llvm-cov show $S/target/release/seed -instr-profile=$S/all.profdata --show-line-counts-or-regions \
   --ignore-filename-regex='(\.cargo|rustc|target/|verif\.rs)' > $S/show.txt
$T/llvm-cov report $S/target/release/seed -instr-profile=$S/all.profdata --ignore-filename-regex='(\.cargo|rustc|target/|verif\.rs)' | tee $S/report.txt | tail -15
echo "uncovered lines: $S/show.txt (lines with count 0)"
rm -rf $S/target $S/prof
