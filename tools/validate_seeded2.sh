#!/bin/sh
# validate_seeded.sh Cnn : for each ${R:-/tmp/seedmut2}/Cnn.out/N check that the patch applies to a clean
# worktree, builds, keeps the 339 tests green and changes the demo's behaviour. Writes
# ${R:-/tmp/seedmut2}/Cnn.out/N/validation.txt
ID=$1
W=${R:-/tmp/seedmut2}/$ID
cd $W || exit 1
git checkout -q -- . 2>/dev/null
export CARGO_NET_OFFLINE=true
cargo build --offline -q 2>/dev/null
for d in ${R:-/tmp/seedmut2}/$ID.out/[0-9]*; do
  [ -f $d/patch.diff ] || continue
  out=$d/validation.txt
  : > $out
  git checkout -q -- .
  # baseline demo
  (cd $d && RUST_BACKTRACE=0 timeout 10 $W/target/debug/seed demo.sd > base.out 2> base.err; echo $? > base.code)
  if ! git apply $d/patch.diff 2>>$out; then echo "APPLY-FAIL" >> $out; continue; fi
  if ! cargo build --offline -q 2>>$out; then echo "BUILD-FAIL" >> $out; git checkout -q -- .; continue; fi
  res=$(cargo test --workspace --no-fail-fast --offline 2>&1 | grep -E "^test result" | tr '\n' ' ')
  echo "tests: $res" >> $out
  (cd $d && RUST_BACKTRACE=0 timeout 10 $W/target/debug/seed demo.sd > mut.out 2> mut.err; echo $? > mut.code)
  if cmp -s $d/base.out $d/mut.out && cmp -s $d/base.code $d/mut.code && cmp -s $d/base.err $d/mut.err; then echo "DEMO-SAME" >> $out; else echo "DEMO-DIFFERS base=$(cat $d/base.code) mut=$(cat $d/mut.code)" >> $out; fi
  case "$res" in *"3 passed; 0 failed"*"336 passed; 0 failed"*) echo "TESTS-OK" >> $out;; *) echo "TESTS-BAD" >> $out;; esac
  git checkout -q -- .
done
cargo build --offline -q 2>/dev/null
echo "validated $ID"
