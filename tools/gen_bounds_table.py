#!/usr/bin/env python3
"""gen_bounds_table.py <quick-evidence-dir> <thorough-evidence-dir>: prints the markdown table of
DESIGN.md A.3 from the evidence files the checks wrote."""
import json, sys, os
q, t = sys.argv[1], sys.argv[2]
print("| id | cases executed on the real interpreter, quick [thorough] | distinct outcomes quick | completed? quick [thorough] | wall quick [thorough] |")
print("|----|--------------|---------|---------|---------|")
for i in range(1, 21):
    cid = "C%02d" % i
    def load(d):
        p = os.path.join(d, cid + ".json")
        return json.load(open(p)) if os.path.exists(p) else None
    a, b = load(q), load(t)
    def f(e, k):
        return e["coverage"].get(k) if e else None
    def wall(e):
        return ("%.0f s" % e.get("duration_s", e.get("wall_s", 0))) if e and (e.get("duration_s") or e.get("wall_s")) else "?"
    def comp(e):
        if not e: return "?"
        c = e["coverage"]
        return "exhaustive" if c.get("exhaustive") and not c.get("capped") else "capped"
    print("| %s | %s [%s] | %s | %s [%s] | %s [%s] |" % (cid, "{:,}".format(f(a, "evaluations") or 0), "{:,}".format(f(b, "evaluations") or 0) if b else "?", "{:,}".format(f(a, "distinct_outcomes") or 0), comp(a), comp(b), wall(a), wall(b)))
